import GtirbProofs.Lemmas.ForestInvProofs
/-! Helpers for property C16 (the owning collections refine the built-in list and set).

The content of a collection after a wrapper operation is computed from the `*_core` theorems of
`ForestFrame.lean` (the forest part of the result is a pure function of the forest part of the
argument) and, for the operations that move nodes between sets, from the back-pointers of the result
together with the forest invariant of the result (`wr_moved_content`). The last part classifies the
exceptions of the primitives: everything below the guards of the wrappers can only raise the
`KeyError` of `del cache[uuid]`. -/
namespace Gtirb.Forest

/-! ### fields of a state from its core -/

theorem wr_kids_of_core {g' X : G} (h : core g' = X) : g'.kids = X.kids := by subst h; rfl
theorem wr_par_of_core {g' X : G} (h : core g' = X) : g'.par = X.par := by subst h; rfl

/-! ### list facts -/

theorem wr_mem_foldl_erase : ∀ (vs l : List Nat), l.Nodup → ∀ x, x ∈ vs.foldl List.erase l ↔ x ∈ l ∧ x ∉ vs
  | [], l, _, x => by simp
  | a :: as, l, hl, x => by
    rw [List.foldl_cons, wr_mem_foldl_erase as (l.erase a) (hl.erase a) x, mem_erase_nodup hl]
    simp only [List.mem_cons, not_or]
    constructor
    · rintro ⟨⟨h1, h2⟩, h3⟩; exact ⟨h1, h2, h3⟩
    · rintro ⟨h1, h2, h3⟩; exact ⟨⟨h1, h2⟩, h3⟩

theorem wr_sameMembers_mem {a b : List Nat} (h : sameMembers a b = true) (x : Nat) : x ∈ a ↔ x ∈ b := by
  unfold sameMembers at h
  simp only [Bool.and_eq_true, List.all_eq_true, decide_eq_true_eq] at h
  exact ⟨h.1.1 x, h.1.2 x⟩

/-! ### the pure forest operations: contents -/

theorem wr_detachOld_kids (g : G) (s : Slot) (v q : Nat) (s' : Slot) :
    (detachOld g s v).kids q s' = if g.par v = some q ∧ s' = s then (g.kids q s).erase v else g.kids q s' := by
  cases hp : g.par v with
  | none => rw [detachOld_none hp]; simp
  | some q0 =>
    rw [detachOld_some hp, detach_kids]
    by_cases h : q = q0 ∧ s' = s
    · rw [if_pos h, if_pos ⟨by rw [h.1], h.2⟩, h.1]
    · rw [if_neg h, if_neg]
      intro hh; apply h; exact ⟨(Option.some.inj hh.1).symm, hh.2⟩

/-- in a consistent forest, `relink` removes `v` from wherever it was -/
theorem wr_relink_kids {g : G} (h : ForestInv g) {p : Nat} {s : Slot} {v : Nat}
    (hs : slotOf (g.kind v) = some s) (q : Nat) (s' : Slot) :
    (relink g p s v).kids q s' = (g.kids q s').erase v := by
  show (detachOld g s v).kids q s' = _
  rw [wr_detachOld_kids]
  split
  · rename_i hh; rw [hh.2]
  · rename_i hh
    rw [List.erase_of_not_mem]
    intro hm
    have := (h.mem_iff v q s').1 hm
    apply hh
    refine ⟨this.1, ?_⟩
    have h2 := this.2; rw [hs] at h2; exact (Option.some.inj h2).symm

theorem wr_foldl_detach_kids (p : Nat) (s : Slot) : ∀ (vs : List Nat) (g : G) (q : Nat) (s' : Slot),
    (vs.foldl (fun g v => detach g p s v) g).kids q s' =
      if q = p ∧ s' = s then vs.foldl List.erase (g.kids p s) else g.kids q s'
  | [], g, q, s' => by
    simp only [List.foldl_nil]; split
    · rename_i h; rw [h.1, h.2]
    · rfl
  | a :: as, g, q, s' => by
    rw [List.foldl_cons, wr_foldl_detach_kids p s as, List.foldl_cons]
    simp only [detach_kids]
    by_cases h : q = p ∧ s' = s <;> simp [h]

/-! ### `discard` and the loops over it (`clear`, `-=`, `&=`) -/

theorem wr_setDiscard_kids {g g' : G} {p : Nat} {s : Slot} {v : Nat} (hs : setDiscard g p s v = .ok g')
    (q : Nat) (s' : Slot) :
    g'.kids q s' = if q = p ∧ s' = s then (g.kids p s).erase v else g.kids q s' := by
  rw [wr_kids_of_core (setDiscard_core hs), detach_kids]; rfl

theorem wr_foldE_discard_kids {g g' : G} {p : Nat} {s : Slot} {vs : List Nat}
    (hs : foldE (fun g v => setDiscard g p s v) vs g = .ok g') (q : Nat) (s' : Slot) :
    g'.kids q s' = if q = p ∧ s' = s then vs.foldl List.erase (g.kids p s) else g.kids q s' := by
  have hc := foldE_core (F := fun g v => detach g p s v) (fun g x g' h => setDiscard_core h) vs hs
  rw [wr_kids_of_core hc, wr_foldl_detach_kids]; rfl

theorem wr_foldE_discard_content {g g' : G} {p : Nat} {s : Slot} {vs : List Nat} (hnd : (g.kids p s).Nodup)
    (hs : foldE (fun g v => setDiscard g p s v) vs g = .ok g') :
    (∀ x, x ∈ g'.kids p s ↔ x ∈ g.kids p s ∧ x ∉ vs) ∧
    (∀ q s', (q ≠ p ∨ s' ≠ s) → g'.kids q s' = g.kids q s') := by
  constructor
  · intro x
    rw [wr_foldE_discard_kids hs, if_pos ⟨rfl, rfl⟩, wr_mem_foldl_erase vs _ hnd]
  · intro q s' hne
    rw [wr_foldE_discard_kids hs, if_neg]
    intro hh; rcases hne with hne | hne
    · exact hne hh.1
    · exact hne hh.2

/-! ### operations that move nodes into a set: content from the back-pointers -/

/-- if exactly the nodes in `N` were re-pointed to `p` (and nothing else changed its parent), the
collection `(p, s)` gained `N` and every other collection lost `N` -/
theorem wr_moved_content {g g' : G} {p : Nat} {s : Slot} (N : Nat → Prop)
    (h : ForestInv g) (h' : ForestInv g') (hk : g'.kind = g.kind)
    (hN : ∀ c, N c → slotOf (g.kind c) = some s)
    (hpar : ∀ c, (N c → g'.par c = some p) ∧ (¬ N c → g'.par c = g.par c)) :
    (∀ x, x ∈ g'.kids p s ↔ x ∈ g.kids p s ∨ N x) ∧
    (∀ q s', (q ≠ p ∨ s' ≠ s) → ∀ x, x ∈ g'.kids q s' ↔ x ∈ g.kids q s' ∧ ¬ N x) := by
  constructor
  · intro x
    rw [h'.mem_iff, h.mem_iff, hk]
    by_cases hx : N x
    · simp [hx, (hpar x).1 hx, hN x hx]
    · simp [hx, (hpar x).2 hx]
  · intro q s' hne x
    rw [h'.mem_iff, h.mem_iff, hk]
    by_cases hx : N x
    · rw [(hpar x).1 hx, hN x hx]
      simp only [hx, not_true_eq_false, and_false, iff_false, not_and]
      intro e1 e2
      rcases hne with hne | hne
      · exact hne (Option.some.inj e1).symm
      · exact hne (Option.some.inj e2).symm
    · simp [hx, (hpar x).2 hx]

theorem wr_nodeSetAdd_par {g g' : G} {p : Nat} {s : Slot} {v : Nat} (h : ForestInv g)
    (hs : nodeSetAdd g p s v = .ok g') (c : Nat) : g'.par c = if c = v then some p else g.par c := by
  unfold nodeSetAdd at hs
  split at hs
  · rename_i hb
    subst hb
    rw [blkUpdate_par hs]
    by_cases hcv : c = v
    · subst hcv
      simp only [if_true]
      split
      · rfl
      · rename_i hn
        rw [mem_blkNew] at hn
        have : c ∈ g.kids p .blocks := by
          apply Classical.byContradiction
          intro hh
          exact hn ⟨List.mem_singleton.2 rfl, hh⟩
        exact ((h.mem_iff c p .blocks).1 this).1
    · rw [if_neg hcv, if_neg]
      rw [mem_blkNew]
      intro hh
      exact hcv (List.mem_singleton.1 hh.1)
  · exact setAdd_par hs c

theorem wr_nodeSetAdd_content {g g' : G} {p : Nat} {s : Slot} {v : Nat} (h : ForestInv g) (hc : ChildOK g p s v)
    (hs : nodeSetAdd g p s v = .ok g') :
    (∀ x, x ∈ g'.kids p s ↔ x ∈ g.kids p s ∨ x = v) ∧
    (∀ q s', (q ≠ p ∨ s' ≠ s) → ∀ x, x ∈ g'.kids q s' ↔ x ∈ g.kids q s' ∧ x ≠ v) := by
  refine wr_moved_content (fun c => c = v) h (h.nodeSetAdd hc hs) (nodeSetAdd_stable hs).kind ?_ ?_
  · intro c hcv; rw [hcv]; exact hc.2.2.1
  · intro c
    rw [wr_nodeSetAdd_par h hs]
    constructor
    · intro hcv; rw [if_pos hcv]
    · intro hcv; rw [if_neg hcv]

/-- `update` / `|=` on any node set: exactly the arguments are re-pointed -/
theorem wr_update_par {g g' : G} {p : Nat} {s : Slot} {vs : List Nat} (h : ForestInv g)
    (hs : step g (.update p s vs) = .ok g') (c : Nat) :
    g'.par c = if c ∈ vs then some p else g.par c := by
  simp only [step] at hs
  split at hs
  · rename_i hb
    subst hb
    rw [blkUpdate_par hs]
    by_cases hcv : c ∈ vs
    · rw [if_pos hcv]
      by_cases hck : c ∈ g.kids p .blocks
      · rw [if_neg (fun hh => (mem_blkNew.1 hh).2 hck)]
        exact ((h.mem_iff c p .blocks).1 hck).1
      · rw [if_pos (mem_blkNew.2 ⟨hcv, hck⟩)]
    · rw [if_neg hcv, if_neg (fun hh => hcv (mem_blkNew.1 hh).1)]
  · exact foldE_setAdd_par vs hs c

/-! ### `^=` -/

/-- one step of `__ixor__` -/
theorem wr_toggle_content {g g' : G} {p : Nat} {s : Slot} {a : Nat} (h : ForestInv g) (hc : ChildOK g p s a)
    (hs : (if a ∈ g.kids p s then setDiscard g p s a else nodeSetAdd g p s a) = .ok g') :
    ForestInv g' ∧ Stable g g' ∧
    (∀ x, x ∈ g'.kids p s ↔ (x ∈ g.kids p s ∧ x ≠ a) ∨ (a ∉ g.kids p s ∧ x = a)) ∧
    (∀ q s', (q ≠ p ∨ s' ≠ s) → ∀ x, x ∈ g'.kids q s' ↔ x ∈ g.kids q s' ∧ x ≠ a) := by
  split at hs
  · rename_i hm
    refine ⟨h.setDiscard hs, setDiscard_stable hs, ?_, ?_⟩
    · intro x
      rw [wr_setDiscard_kids hs, if_pos ⟨rfl, rfl⟩, mem_erase_nodup (h.nodup p s)]
      simp [hm]
    · intro q s' hne x
      rw [wr_setDiscard_kids hs, if_neg (by intro hh; rcases hne with hne | hne; exact hne hh.1; exact hne hh.2)]
      constructor
      · intro hx
        refine ⟨hx, ?_⟩
        intro e; subst e
        exact h.only_there hm q s' (by intro hh; rcases hne with hne | hne; exact hne hh.1; exact hne hh.2) hx
      · exact fun hx => hx.1
  · rename_i hm
    obtain ⟨c1, c2⟩ := wr_nodeSetAdd_content h hc hs
    refine ⟨h.nodeSetAdd hc hs, nodeSetAdd_stable hs, ?_, c2⟩
    intro x
    rw [c1 x]
    by_cases hxa : x = a
    · subst hxa; simp [hm]
    · simp [hxa]

theorem wr_ixor_content {p : Nat} {s : Slot} : ∀ (vs : List Nat) (g g' : G), ForestInv g → vs.Nodup →
    (∀ v ∈ vs, ChildOK g p s v) →
    foldE (fun g v => if v ∈ g.kids p s then setDiscard g p s v else nodeSetAdd g p s v) vs g = .ok g' →
    (∀ x, x ∈ g'.kids p s ↔ (x ∈ g.kids p s ∧ x ∉ vs) ∨ (x ∉ g.kids p s ∧ x ∈ vs)) ∧
    (∀ q s', (q ≠ p ∨ s' ≠ s) → ∀ x, x ∈ g'.kids q s' ↔ x ∈ g.kids q s' ∧ x ∉ vs) := by
  intro vs
  induction vs with
  | nil =>
    intro g g' _ _ _ hs
    cases hs
    simp
  | cons a as ih =>
    intro g g' h hnd hc hs
    obtain ⟨g1, h1, h2⟩ := foldE_cons_ok hs
    rw [List.nodup_cons] at hnd
    obtain ⟨hf1, hst, t1, t2⟩ := wr_toggle_content h (hc a List.mem_cons_self) h1
    obtain ⟨i1, i2⟩ := ih g1 g' hf1 hnd.2
      (fun v hv => (childOK_stable hst p s v).2 (hc v (List.mem_cons_of_mem _ hv))) h2
    constructor
    · intro x
      rw [i1 x, t1 x]
      simp only [List.mem_cons, not_or]
      by_cases hxa : x = a
      · subst hxa
        by_cases hm : x ∈ g.kids p s <;> simp [hm, hnd.1]
      · simp [hxa]
    · intro q s' hne x
      rw [i2 q s' hne x, t2 q s' hne x]
      simp only [List.mem_cons, not_or]
      exact and_assoc

/-! ### the module list -/

theorem wr_pyInsert_ge (l : List Nat) (k : Nat) (v : Nat) (hk : l.length ≤ k) :
    pyInsert l (k : Int) v = l ++ [v] := by
  unfold pyInsert
  simp only
  have h0 : ¬ ((k : Int) < 0) := by omega
  rw [if_neg h0]
  split
  · simp
  · have : k = l.length := by omega
    subst this; simp

theorem wr_filter_erase {l : List Nat} (hl : l.Nodup) (a : Nat) (as : List Nat) :
    (l.erase a).filter (fun x => !(x ∈ as)) = l.filter (fun x => !(x ∈ a :: as)) := by
  rw [hl.erase_eq_filter, List.filter_filter]
  apply List.filter_congr
  intro x _
  by_cases hxa : x = a
  · simp [hxa]
  · simp [hxa]

theorem wr_modInsert_kids {g g' : G} {i : Nat} {k : Int} {v : Nat} (h : ForestInv g)
    (hslot : slotOf (g.kind v) = some .mods) (hs : modInsert g i k v = .ok g') (q : Nat) (s' : Slot) :
    g'.kids q s' =
      if q = i ∧ s' = .mods then pyInsert ((g.kids i .mods).erase v) k v else (g.kids q s').erase v := by
  rw [wr_kids_of_core (modInsert_core hs)]
  unfold modInsertPure
  simp only [kidsSet_kids, wr_relink_kids ((forestInv_core g).2 h) hslot, core_kids]

theorem wr_modAppend_kids {g g' : G} {i v : Nat} (h : ForestInv g)
    (hslot : slotOf (g.kind v) = some .mods) (hs : modAppend g i v = .ok g') (q : Nat) (s' : Slot) :
    g'.kids q s' = if q = i ∧ s' = .mods then (g.kids i .mods).erase v ++ [v] else (g.kids q s').erase v := by
  unfold modAppend at hs
  rw [wr_modInsert_kids h hslot hs, wr_pyInsert_ge]
  exact List.erase_sublist.length_le

theorem wr_extend_kids {i : Nat} : ∀ (vs : List Nat) (g g' : G), ForestInv g → vs.Nodup →
    (∀ v ∈ vs, ChildOK g i .mods v) → foldE (fun g v => modAppend g i v) vs g = .ok g' →
    ∀ q s', g'.kids q s' =
      if q = i ∧ s' = .mods then (g.kids i .mods).filter (fun x => !(x ∈ vs)) ++ vs
      else (g.kids q s').filter (fun x => !(x ∈ vs)) := by
  intro vs
  induction vs with
  | nil =>
    intro g g' _ _ _ hs q s'
    cases hs
    split
    · rename_i hh; rw [hh.1, hh.2]; simp
      exact (List.filter_eq_self.2 (fun _ _ => rfl)).symm
    · simp
      exact (List.filter_eq_self.2 (fun _ _ => rfl)).symm
  | cons a as ih =>
    intro g g' h hnd hc hs q s'
    obtain ⟨g1, h1, h2⟩ := foldE_cons_ok hs
    rw [List.nodup_cons] at hnd
    have hca := hc a List.mem_cons_self
    have hst := modAppend_stable h1
    have hk := wr_modAppend_kids h hca.2.2.1 h1
    rw [ih g1 g' (h.modAppend hca h1) hnd.2
      (fun v hv => (childOK_stable hst i .mods v).2 (hc v (List.mem_cons_of_mem _ hv))) h2 q s']
    by_cases hq : q = i ∧ s' = .mods
    · rw [if_pos hq, if_pos hq, hk i .mods, if_pos ⟨rfl, rfl⟩, List.filter_append,
        wr_filter_erase (h.nodup i .mods)]
      have : List.filter (fun x => !decide (x ∈ as)) [a] = [a] := by simp [hnd.1]
      rw [this, List.append_assoc]; rfl
    · rw [if_neg hq, if_neg hq, hk q s', if_neg hq, wr_filter_erase (h.nodup q s')]

theorem wr_modListRemove_kids {g g' : G} {i v : Nat} (hs : modListRemove g i v = .ok g') (q : Nat) (s' : Slot) :
    g'.kids q s' = if q = i ∧ s' = .mods then (g.kids i .mods).erase v else g.kids q s' := by
  rw [wr_kids_of_core (modListRemove_core hs), detach_kids]; rfl

theorem wr_modDelItem_content {g g' : G} {i : Nat} {k : Int} (hs : modDelItem g i k = .ok g') :
    ∃ idx old, pyIndex (g.kids i .mods).length k = some idx ∧ (g.kids i .mods)[idx]? = some old ∧
      g'.kids i .mods = (g.kids i .mods).eraseIdx idx ∧ g'.par old = none ∧
      (∀ c, c ≠ old → g'.par c = g.par c) ∧
      (∀ q s', (q ≠ i ∨ s' ≠ .mods) → g'.kids q s' = g.kids q s') := by
  obtain ⟨idx, old, h1, h2, hc⟩ := modDelItem_core hs
  refine ⟨idx, old, h1, h2, ?_, ?_, ?_, ?_⟩
  · rw [wr_kids_of_core hc]; simp
  · rw [wr_par_of_core hc]; simp
  · intro c hne
    rw [wr_par_of_core hc]; simp [hne]
  · intro q s' hne
    rw [wr_kids_of_core hc, kidsSet_kids, if_neg]
    · rfl
    · intro hh; rcases hne with hne | hne
      · exact hne hh.1
      · exact hne hh.2

theorem wr_modClear_kids {i : Nat} : ∀ (xs : List Nat) (g g' : G), xs.length = (g.kids i .mods).length →
    foldE (fun g _ => modDelItem g i (-1)) xs g = .ok g' →
    g'.kids i .mods = [] ∧ ∀ q s', (q ≠ i ∨ s' ≠ .mods) → g'.kids q s' = g.kids q s' := by
  intro xs
  induction xs with
  | nil =>
    intro g g' hl hs
    cases hs
    exact ⟨List.eq_nil_of_length_eq_zero hl.symm, fun _ _ _ => rfl⟩
  | cons x xs ih =>
    intro g g' hl hs
    obtain ⟨g1, h1, h2⟩ := foldE_cons_ok hs
    obtain ⟨idx, old, _, hold, hk, _, _, hoth⟩ := wr_modDelItem_content h1
    obtain ⟨hlt, _⟩ := List.getElem?_eq_some_iff.1 hold
    have hl1 : xs.length = (g1.kids i .mods).length := by
      rw [hk, List.length_eraseIdx, if_pos hlt]
      simp only [List.length_cons] at hl
      omega
    obtain ⟨r1, r2⟩ := ih g1 g' hl1 h2
    exact ⟨r1, fun q s' hne => (r2 q s' hne).trans (hoth q s' hne)⟩

theorem wr_modSetItem_content {g g' : G} {i : Nat} {k : Int} {v : Nat} (h : ForestInv g)
    (hc : ChildOK g i .mods v) (hs : modSetItem g i k v = .ok g') :
    ∃ idx old, pyIndex (g.kids i .mods).length k = some idx ∧ (g.kids i .mods)[idx]? = some old ∧
      ¬(v ∈ g.kids i .mods ∧ v ≠ old) ∧
      g'.kids i .mods = (g.kids i .mods).set idx v ∧
      (∀ q s', (q ≠ i ∨ s' ≠ .mods) → g'.kids q s' = (g.kids q s').erase v) ∧
      (∀ c, g'.par c = if c = v then some i else if c = old then none else g.par c) := by
  obtain ⟨idx, old, hidx, hold, hne, hcore⟩ := modSetItem_core hs
  refine ⟨idx, old, hidx, hold, hne, ?_, ?_, ?_⟩
  · have hpv : (setPar (core g) old none).par v ≠ some i := by
      simp only [setPar_par, core_par]
      split
      · intro hh; cases hh
      · rename_i hvo
        intro hh
        exact hne ⟨h.mem_of_par hh hc.2.2.1, hvo⟩
    have hk : (relink (setPar (core g) old none) i .mods v).kids i .mods = g.kids i .mods :=
      relink_kids_of_ne i .mods hpv
    rw [wr_kids_of_core hcore]
    unfold modSetItemPure
    simp only [kidsSet_kids, and_self, if_true]
    rw [hk]
  · intro q s' hqs
    have hqs' : ¬(q = i ∧ s' = .mods) := by
      intro hh; rcases hqs with hqs | hqs
      · exact hqs hh.1
      · exact hqs hh.2
    rw [wr_kids_of_core hcore]
    unfold modSetItemPure
    simp only [kidsSet_kids, if_neg hqs']
    show (detachOld (setPar (core g) old none) .mods v).kids q s' = _
    rw [wr_detachOld_kids]
    split
    · rename_i hh; rw [hh.2]; rfl
    · rename_i hh
      show g.kids q s' = _
      rw [List.erase_of_not_mem]
      intro hm
      have hv := (h.mem_iff v q s').1 hm
      have hs' : s' = .mods := by
        have h2 := hv.2; rw [hc.2.2.1] at h2; exact (Option.some.inj h2).symm
      by_cases hvo : v = old
      · have hold' : v ∈ g.kids i .mods := by rw [hvo]; exact List.mem_of_getElem? hold
        exact h.only_there hold' q s' hqs' hm
      · apply hh
        refine ⟨?_, hs'⟩
        simp only [setPar_par, core_par, if_neg hvo]
        exact hv.1
  · intro c
    rw [wr_par_of_core hcore]
    unfold modSetItemPure
    simp only [kidsSet_par]
    rw [relink_par]
    simp only [setPar_par, core_par]

/-! ### Python's index rule -/

theorem wr_pyIndex_lt {len : Nat} {k : Int} {idx : Nat} (h : pyIndex len k = some idx) : idx < len := by
  unfold pyIndex at h
  split at h
  · cases h; omega
  · split at h
    · cases h; omega
    · cases h

theorem wr_pyIndex_spec (len : Nat) (k : Int) :
    pyIndex len k = if -(len : Int) ≤ k ∧ k < len then some (k % len).toNat else none := by
  unfold pyIndex
  by_cases h1 : 0 ≤ k ∧ k < len
  · rw [if_pos h1, if_pos ⟨by omega, h1.2⟩, Int.emod_eq_of_lt h1.1 h1.2]
  · rw [if_neg h1]
    by_cases h2 : k < 0 ∧ 0 ≤ k + len
    · rw [if_pos h2, if_pos ⟨by omega, by omega⟩]
      have : k % (len : Int) = k + len := by
        rw [← Int.add_emod_right k len]
        exact Int.emod_eq_of_lt h2.2 (by omega)
      rw [this]
    · rw [if_neg h2, if_neg]
      intro hh; omega

/-! ### the exceptions of the primitives -/

theorem wr_cacheDel_err {g : G} {i u : Nat} {e : Exc} (h : cacheDel g i u = .error e) : e = .cacheKeyError := by
  unfold cacheDel at h
  split at h
  · cases h; rfl
  · cases h

theorem wr_foldE_err {f : G → Nat → Except Exc G} {P : Exc → Prop} (hf : ∀ g x e, f g x = .error e → P e) :
    ∀ (l : List Nat) (g : G) (e : Exc), foldE f l g = .error e → P e
  | [], g, e, h => by cases h
  | x :: xs, g, e, h => by
    simp only [foldE] at h
    split at h
    · exact wr_foldE_err hf xs _ e h
    · rename_i e' he; cases h; exact hf g x _ he

theorem wr_cacheDelLeaf_err {g : G} {i v : Nat} {e : Exc} (h : cacheDelLeaf g i v = .error e) :
    e = .cacheKeyError := wr_cacheDel_err h

theorem wr_cacheDelInterval_err {g : G} {i v : Nat} {e : Exc} (h : cacheDelInterval g i v = .error e) :
    e = .cacheKeyError := by
  unfold cacheDelInterval at h
  split at h
  · exact wr_foldE_err (P := fun e => e = .cacheKeyError) (fun _ _ _ h => wr_cacheDelLeaf_err h) _ _ _ h
  · rename_i e' he; cases h; exact wr_cacheDel_err he

theorem wr_cacheDelSection_err {g : G} {i v : Nat} {e : Exc} (h : cacheDelSection g i v = .error e) :
    e = .cacheKeyError := by
  unfold cacheDelSection at h
  split at h
  · exact wr_foldE_err (P := fun e => e = .cacheKeyError) (fun _ _ _ h => wr_cacheDelInterval_err h) _ _ _ h
  · rename_i e' he; cases h; exact wr_cacheDel_err he

theorem wr_cacheDelModule_err {g : G} {i v : Nat} {e : Exc} (h : cacheDelModule g i v = .error e) :
    e = .cacheKeyError := by
  unfold cacheDelModule at h
  split at h
  · rename_i e' he; cases h; exact wr_cacheDel_err he
  · split at h
    · rename_i e' he; cases h
      exact wr_foldE_err (P := fun e => e = .cacheKeyError) (fun _ _ _ h => wr_cacheDelLeaf_err h) _ _ _ he
    · split at h
      · rename_i e' he; cases h
        exact wr_foldE_err (P := fun e => e = .cacheKeyError) (fun _ _ _ h => wr_cacheDelSection_err h) _ _ _ he
      · exact wr_foldE_err (P := fun e => e = .cacheKeyError) (fun _ _ _ h => wr_cacheDelLeaf_err h) _ _ _ h

theorem wr_cacheRemove_err {g : G} {i v : Nat} {e : Exc} (h : cacheRemove g i v = .error e) :
    e = .cacheKeyError := by
  unfold cacheRemove at h
  split at h
  · exact wr_cacheDelModule_err h
  · exact wr_cacheDelSection_err h
  · exact wr_cacheDelInterval_err h
  · exact wr_cacheDelLeaf_err h

/-- below its membership guard, `discard` can only fail in the UUID table -/
theorem wr_setDiscard_err {g : G} {p : Nat} {s : Slot} {v : Nat} {e : Exc} (h : setDiscard g p s v = .error e) :
    e = .cacheKeyError := by
  unfold setDiscard at h
  split at h
  · dsimp only at h
    split at h
    · split at h
      · cases h
      · rename_i e' he; cases h; exact wr_cacheRemove_err he
    · cases h
  · cases h

theorem wr_modHookRemove_err {g : G} {i v : Nat} {e : Exc} (h : modHookRemove g i v = .error e) :
    e = .cacheKeyError := wr_cacheRemove_err h

theorem wr_modListRemove_err {g : G} {i v : Nat} {e : Exc} (h : modListRemove g i v = .error e) :
    (e = .valueError ∧ v ∉ g.kids i .mods) ∨ e = .cacheKeyError := by
  unfold modListRemove at h
  split at h
  · split at h
    · cases h
    · rename_i e' he; cases h; exact .inr (wr_modHookRemove_err he)
  · rename_i hm; cases h; exact .inl ⟨rfl, hm⟩

theorem wr_modHookAdd_err {g : G} {i v : Nat} {e : Exc} (h : modHookAdd g i v = .error e) :
    e = .valueError ∨ e = .cacheKeyError := by
  unfold modHookAdd at h
  split at h
  · rename_i e' he
    cases h
    split at he
    · rcases wr_modListRemove_err he with h1 | h1
      · exact .inl h1.1
      · exact .inr h1
    · cases he
  · cases h

theorem wr_modDelItem_err {g : G} {i : Nat} {k : Int} {e : Exc} (h : modDelItem g i k = .error e) :
    (e = .indexError ∧ pyIndex (g.kids i .mods).length k = none) ∨ e = .cacheKeyError := by
  unfold modDelItem at h
  split at h
  · rename_i hn; cases h; exact .inl ⟨rfl, hn⟩
  · rename_i idx hidx
    split at h
    · rename_i hn
      exact absurd (wr_pyIndex_lt hidx) (Nat.not_lt.2 (List.getElem?_eq_none_iff.1 hn))
    · split at h
      · cases h
      · rename_i e' he; cases h; exact .inr (wr_modHookRemove_err he)

theorem wr_modSetItem_err {g : G} {i : Nat} {k : Int} {v : Nat} {e : Exc} (h : modSetItem g i k v = .error e) :
    (e = .indexError ∧ pyIndex (g.kids i .mods).length k = none) ∨
    (e = .outside ∧ ∃ idx old, pyIndex (g.kids i .mods).length k = some idx ∧
      (g.kids i .mods)[idx]? = some old ∧ v ∈ g.kids i .mods ∧ v ≠ old) ∨
    e = .valueError ∨ e = .cacheKeyError := by
  unfold modSetItem at h
  split at h
  · rename_i hn; cases h; exact .inl ⟨rfl, hn⟩
  · rename_i idx hidx
    split at h
    · rename_i hn
      exact absurd (wr_pyIndex_lt hidx) (Nat.not_lt.2 (List.getElem?_eq_none_iff.1 hn))
    · rename_i old hold
      split at h
      · rename_i hv; cases h; exact .inr (.inl ⟨rfl, idx, old, hidx, hold, hv.1, hv.2⟩)
      · split at h
        · rename_i e' he; cases h; exact .inr (.inr (.inr (wr_modHookRemove_err he)))
        · split at h
          · rename_i e' he; cases h; exact .inr (.inr (wr_modHookAdd_err he))
          · cases h

/-! ### small facts used by the property file -/

theorem wr_update_stable {g g' : G} {p : Nat} {s : Slot} {vs : List Nat}
    (hs : step g (.update p s vs) = .ok g') : Stable g g' := by
  simp only [step] at hs
  split at hs
  · exact blkUpdate_stable hs
  · exact stable_foldE (fun _ _ _ h => setAdd_stable h) _ hs

/-- a node is in no collection of another slot than the one of its kind -/
theorem wr_erase_other_slot {g : G} (h : ForestInv g) {v : Nat} {s : Slot} (hslot : slotOf (g.kind v) = some s)
    (q : Nat) {s' : Slot} (hne : s' ≠ s) : (g.kids q s').erase v = g.kids q s' := by
  rw [List.erase_of_not_mem]
  intro hm
  have h2 := ((h.mem_iff v q s').1 hm).2
  rw [hslot] at h2
  exact hne (Option.some.inj h2).symm

theorem wr_not_at {q p : Nat} {s' s : Slot} (hne : q ≠ p ∨ s' ≠ s) : ¬(q = p ∧ s' = s) := by
  intro hh; rcases hne with hne | hne
  · exact hne hh.1
  · exact hne hh.2

/-! ### which exceptions the collection operations can raise at all -/

theorem wr_setAdd_err {g : G} {p : Nat} {s : Slot} {v : Nat} {e : Exc} (h : setAdd g p s v = .error e) :
    e = .cacheKeyError := by
  unfold setAdd at h
  split at h
  · rename_i e' he
    cases h
    split at he
    · exact wr_setDiscard_err he
    · cases he
  · cases h

theorem wr_blkUpdate_err {g : G} {p : Nat} {vs : List Nat} {e : Exc} (h : blkUpdate g p vs = .error e) :
    e = .cacheKeyError := by
  unfold blkUpdate at h
  dsimp only at h
  split at h
  · rename_i e' he
    cases h
    refine wr_foldE_err (P := fun e => e = .cacheKeyError) ?_ _ _ _ he
    intro g1 x e1 h1
    split at h1
    · rename_i e2 h2
      cases h1
      split at h2
      · exact wr_setDiscard_err h2
      · cases h2
    · cases h1
  · cases h

theorem wr_nodeSetAdd_err {g : G} {p : Nat} {s : Slot} {v : Nat} {e : Exc} (h : nodeSetAdd g p s v = .error e) :
    e = .cacheKeyError := by
  unfold nodeSetAdd at h
  split at h
  · exact wr_blkUpdate_err h
  · exact wr_setAdd_err h

/-- the `_add` hook of the module list cannot fail with the built-in's `ValueError` when the
back-pointer of `v` is consistent with the lists -/
theorem wr_modHookAdd_err_inv {g : G} {i v : Nat} {e : Exc} (hmem : ∀ j, g.par v = some j → v ∈ g.kids j .mods)
    (h : modHookAdd g i v = .error e) : e = .cacheKeyError := by
  unfold modHookAdd at h
  split at h
  · rename_i e' he
    cases h
    split at he
    · rename_i j hj
      rcases wr_modListRemove_err he with h1 | h1
      · exact absurd (hmem j hj) h1.2
      · exact h1
    · cases he
  · cases h

theorem wr_modInsert_err {g : G} {i : Nat} {k : Int} {v : Nat} {e : Exc} (hf : ForestInv g)
    (hslot : slotOf (g.kind v) = some .mods) (h : modInsert g i k v = .error e) : e = .cacheKeyError := by
  unfold modInsert at h
  split at h
  · cases h
  · rename_i e' he
    cases h
    exact wr_modHookAdd_err_inv (fun j hj => hf.mem_of_par hj hslot) he

theorem wr_foldE_err_inv {f : G → Nat → Except Exc G} {P : Exc → Prop} (I : G → Prop) :
    ∀ (l : List Nat), (∀ g x g', x ∈ l → I g → f g x = .ok g' → I g') →
      (∀ g x e, x ∈ l → I g → f g x = .error e → P e) →
      ∀ (g : G) (e : Exc), I g → foldE f l g = .error e → P e
  | [], _, _, g, e, _, h => by cases h
  | x :: xs, hok, herr, g, e, hI, h => by
    simp only [foldE] at h
    split at h
    · rename_i g1 h1
      exact wr_foldE_err_inv I xs (fun g y g' hy => hok g y g' (List.mem_cons_of_mem _ hy))
        (fun g y e hy => herr g y e (List.mem_cons_of_mem _ hy)) g1 e
        (hok g x g1 List.mem_cons_self hI h1) h
    · rename_i e' he; cases h; exact herr g x _ List.mem_cons_self hI he

theorem wr_extend_err {g : G} {i : Nat} {vs : List Nat} {e : Exc} (hf : ForestInv g)
    (hc : ∀ v ∈ vs, ChildOK g i .mods v) (h : foldE (fun g v => modAppend g i v) vs g = .error e) :
    e = .cacheKeyError := by
  refine wr_foldE_err_inv (P := fun e => e = .cacheKeyError) (fun g1 => ForestInv g1 ∧ Stable g g1) vs ?_ ?_ g e
    ⟨hf, Stable.refl g⟩ h
  · intro g1 x g2 hx hI h1
    exact ⟨hI.1.modAppend ((childOK_stable hI.2 i .mods x).2 (hc x hx)) h1, hI.2.trans (modAppend_stable h1)⟩
  · intro g1 x e1 hx hI h1
    have hslot : slotOf (g1.kind x) = some .mods := by rw [hI.2.kind]; exact (hc x hx).2.2.1
    exact wr_modInsert_err hI.1 hslot h1

theorem wr_pyIndex_last {len : Nat} (h : pyIndex len (-1) = none) : len = 0 := by
  rw [wr_pyIndex_spec] at h
  split at h
  · cases h
  · rename_i hh
    omega

theorem wr_modClear_err {i : Nat} : ∀ (xs : List Nat) (g : G) (e : Exc), xs.length = (g.kids i .mods).length →
    foldE (fun g _ => modDelItem g i (-1)) xs g = .error e → e = .cacheKeyError
  | [], g, e, _, h => by cases h
  | x :: xs, g, e, hl, h => by
    simp only [foldE] at h
    split at h
    · rename_i g1 h1
      obtain ⟨idx, old, _, hold, hk, _, _, _⟩ := wr_modDelItem_content h1
      obtain ⟨hlt, _⟩ := List.getElem?_eq_some_iff.1 hold
      have hl1 : xs.length = (g1.kids i .mods).length := by
        rw [hk, List.length_eraseIdx, if_pos hlt]
        simp only [List.length_cons] at hl
        omega
      exact wr_modClear_err xs g1 e hl1 h
    · rename_i e' he
      cases h
      rcases wr_modDelItem_err he with h1 | h1
      · have := wr_pyIndex_last h1.2
        simp only [List.length_cons] at hl
        omega
      · exact h1

/-- `self[k] = v` in a consistent forest: no `ValueError` from the hooks -/
theorem wr_modSetItem_err_inv {g : G} {i : Nat} {k : Int} {v : Nat} {e : Exc} (hf : ForestInv g)
    (hslot : slotOf (g.kind v) = some .mods) (h : modSetItem g i k v = .error e) :
    (e = .indexError ∧ pyIndex (g.kids i .mods).length k = none) ∨
    (e = .outside ∧ ∃ idx old, pyIndex (g.kids i .mods).length k = some idx ∧
      (g.kids i .mods)[idx]? = some old ∧ v ∈ g.kids i .mods ∧ v ≠ old) ∨
    e = .cacheKeyError := by
  unfold modSetItem at h
  split at h
  · rename_i hn; cases h; exact .inl ⟨rfl, hn⟩
  · rename_i idx hidx
    split at h
    · rename_i hn
      exact absurd (wr_pyIndex_lt hidx) (Nat.not_lt.2 (List.getElem?_eq_none_iff.1 hn))
    · rename_i old hold
      split at h
      · rename_i hv; cases h; exact .inr (.inl ⟨rfl, idx, old, hidx, hold, hv.1, hv.2⟩)
      · split at h
        · rename_i e' he; cases h; exact .inr (.inr (wr_modHookRemove_err he))
        · rename_i g1 h1
          split at h
          · rename_i e' he
            cases h
            refine .inr (.inr (wr_modHookAdd_err_inv ?_ he))
            have hc1 := modHookRemove_core h1
            intro j hj
            rw [wr_kids_of_core hc1]
            rw [wr_par_of_core hc1] at hj
            simp only [setPar_par, core_par] at hj
            split at hj
            · cases hj
            · exact hf.mem_of_par hj hslot
          · cases h

/-- `e` is the exception the built-in operation raises on the same content (or the marker of an
input the model does not follow: `outside` = known finding K1, `badOp` = the reported iteration
order does not fit); `False` for the operations whose built-in counterpart never raises; `True`
(no statement) for constructors, the parent setter and the attribute setters, which are not
collection operations -/
def wr_builtinError (g : G) : Op → Exc → Prop
  | .remove p s v, e => e = .keyError ∧ v ∉ g.kids p s
  | .pop p s v, e => (e = .keyError ∧ g.kids p s = []) ∨ (e = .badOp ∧ g.kids p s ≠ [] ∧ v ∉ g.kids p s)
  | .clear p s order, e => e = .badOp ∧ sameMembers order (g.kids p s) = false
  | .iand p s vs order, e =>
    e = .badOp ∧ sameMembers order ((g.kids p s).filter (fun x => !(x ∈ vs))) = false
  | .listRemove i v, e => e = .valueError ∧ v ∉ g.kids i .mods
  | .delItem i k, e => e = .indexError ∧ pyIndex (g.kids i .mods).length k = none
  | .listPop i k, e => e = .indexError ∧ pyIndex (g.kids i .mods).length k = none
  | .setItem i k v, e =>
    (e = .indexError ∧ pyIndex (g.kids i .mods).length k = none) ∨
    (e = .outside ∧ ∃ idx old, pyIndex (g.kids i .mods).length k = some idx ∧
      (g.kids i .mods)[idx]? = some old ∧ v ∈ g.kids i .mods ∧ v ≠ old)
  | .add _ _ _, _ | .discard _ _ _, _ | .update _ _ _, _ | .isub _ _ _, _ | .ixor _ _ _, _ => False
  | .insert _ _ _, _ | .append _ _, _ | .extend _ _, _ | .reverse _, _ | .listClear _, _ => False
  | .mkIR _, _ | .mk _ _ _ _, _ | .mkSym _ _ _ _, _ | .setParent _ _, _ | .setName _ _, _
  | .setPayload _ _, _ => True

/-- the collection operations whose built-in counterpart never raises -/
def wr_neverRaises : Op → Bool
  | .add _ _ _ | .discard _ _ _ | .update _ _ _ | .isub _ _ _ | .ixor _ _ _ => true
  | .insert _ _ _ | .append _ _ | .extend _ _ | .reverse _ | .listClear _ => true
  | _ => false

end Gtirb.Forest
