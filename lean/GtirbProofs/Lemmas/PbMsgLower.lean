import GtirbModel.PbMsg
import GtirbProofs.Lemmas.PbWireProofs
import GtirbProofs.Lemmas.PbMsgLemmas
/-! Layer 2, lower half of the message tree: what `w<X>` writes is well-formed on the
wire and `parse<X>W` reads it back (CodeBlock, DataBlock, Block, SymAddrConst,
SymAddrAddr, SymbolicExpression and its map entry, ByteInterval, Section). -/
namespace Gtirb.Pb
open Gtirb Gtirb.Msg

/-! ### CodeBlock -/

theorem wCodeBlock_wf (c : MCodeBlock) (h : wfWCodeBlock c = true) : (wCodeBlock c).wf = true := by
  simp only [wfWCodeBlock, Bool.and_eq_true] at h
  obtain ⟨⟨h1, h2⟩, h3⟩ := h
  simp only [wCodeBlock, fno_CodeBlock_uuid, fno_CodeBlock_size, fno_CodeBlock_decode_mode,
    wf_append, wf_fld _ _ (by decide : 0 < 1) (by decide), wf_fld _ _ (by decide : 0 < 3) (by decide),
    wf_fld _ _ (by decide : 0 < 4) (by decide),
    all_wf_vBytes _ h1, all_wf_vUInt _ h2, all_wf_vUInt _ (u64OK_of_enumOK h3), Bool.and_self]

theorem parseCodeBlockW_wCodeBlock (c : MCodeBlock) (h : wfWCodeBlock c = true) :
    parseCodeBlockW (wCodeBlock c) = some c := by
  simp only [wfWCodeBlock, Bool.and_eq_true] at h
  obtain ⟨⟨h1, h2⟩, h3⟩ := h
  simp [parseCodeBlockW, wCodeBlock, getAll_append, getAll_fld, lastBytes_vBytes, lastUInt_vUInt,
    lastEnum_vUInt _ h3]

/-! ### DataBlock -/

theorem wDataBlock_wf (d : MDataBlock) (h : wfWDataBlock d = true) : (wDataBlock d).wf = true := by
  simp only [wfWDataBlock, Bool.and_eq_true] at h
  obtain ⟨h1, h2⟩ := h
  simp [wDataBlock, wf_append, wf_fld, all_wf_vBytes _ h1, all_wf_vUInt _ h2]

theorem parseDataBlockW_wDataBlock (d : MDataBlock) (_h : wfWDataBlock d = true) :
    parseDataBlockW (wDataBlock d) = some d := by
  simp [parseDataBlockW, wDataBlock, getAll_append, getAll_fld, lastBytes_vBytes, lastUInt_vUInt]

/-! ### Block -/

theorem wBlock_wf (b : MBlock) (h : wfWBlock b = true) : (wBlock b).wf = true := by
  obtain ⟨off, value⟩ := b
  simp only [wfWBlock, Bool.and_eq_true] at h
  obtain ⟨h1, h2⟩ := h
  rcases value with _ | c | d
  · simp [wBlock, wf_fld, all_wf_vUInt _ h1]
  · simp only [Bool.and_eq_true] at h2
    simp [wBlock, wf_append, wf_fld, all_wf_vUInt _ h1, wf_len_single _ h2.2]
  · simp only [Bool.and_eq_true] at h2
    simp [wBlock, wf_append, wf_fld, all_wf_vUInt _ h1, wf_len_single _ h2.2]

theorem parseBlockW_wBlock (b : MBlock) (h : wfWBlock b = true) :
    parseBlockW (wBlock b) = some b := by
  obtain ⟨off, value⟩ := b
  simp only [wfWBlock, Bool.and_eq_true] at h
  obtain ⟨h1, h2⟩ := h
  rcases value with _ | c | d
  · have ho : oneofRun (fld 1 (vUInt off) ++ []) [2, 3] = none := by
      apply oneofRun_nil_of_filter
      simp only [List.filter_append, oneof_filter_fld]
      simp
    simp only [parseBlockW, wBlock, fno_Block_offset, fno_Block_code, fno_Block_data, ho]
    simp [getAll_fld, lastUInt_vUInt]
  · simp only [Bool.and_eq_true] at h2
    have ho : oneofRun (fld 1 (vUInt off) ++ fld 2 [.len (encodeW (wCodeBlock c))]) [2, 3]
        = some (2, [.len (encodeW (wCodeBlock c))]) := by
      apply oneofRun_single_of_filter
      simp only [List.filter_append, oneof_filter_fld]
      simp [fld]
    simp only [parseBlockW, wBlock, fno_Block_offset, fno_Block_code, fno_Block_data, ho]
    simp [getAll_append, getAll_fld, lastUInt_vUInt, subMsg_single _ _ (wCodeBlock_wf c h2.1),
      parseCodeBlockW_wCodeBlock c h2.1]
  · simp only [Bool.and_eq_true] at h2
    have ho : oneofRun (fld 1 (vUInt off) ++ fld 3 [.len (encodeW (wDataBlock d))]) [2, 3]
        = some (3, [.len (encodeW (wDataBlock d))]) := by
      apply oneofRun_single_of_filter
      simp only [List.filter_append, oneof_filter_fld]
      simp [fld]
    simp only [parseBlockW, wBlock, fno_Block_offset, fno_Block_code, fno_Block_data, ho]
    simp [getAll_append, getAll_fld, lastUInt_vUInt, subMsg_single _ _ (wDataBlock_wf d h2.1),
      parseDataBlockW_wDataBlock d h2.1]

/-! ### SymAddrConst, SymAddrAddr -/

theorem wSymAddrConst_wf (o : Int) (s : Bytes) (h : lenOK s = true) :
    (wSymAddrConst o s).wf = true := by
  simp [wSymAddrConst, wf_append, wf_fld, all_wf_vInt, all_wf_vBytes _ h]

theorem parseSymAddrConstW_wSymAddrConst (o : Int) (s : Bytes) (h : i64OK o = true) :
    parseSymAddrConstW (wSymAddrConst o s) = some (.addrConst o s) := by
  simp [parseSymAddrConstW, wSymAddrConst, getAll_append, getAll_fld, lastInt_vInt _ h,
    lastBytes_vBytes]

theorem wSymAddrAddr_wf (sc o : Int) (s1 s2 : Bytes) (h1 : lenOK s1 = true) (h2 : lenOK s2 = true) :
    (wSymAddrAddr sc o s1 s2).wf = true := by
  simp [wSymAddrAddr, wf_append, wf_fld, all_wf_vInt, all_wf_vBytes _ h1, all_wf_vBytes _ h2]

theorem parseSymAddrAddrW_wSymAddrAddr (sc o : Int) (s1 s2 : Bytes) (hsc : i64OK sc = true)
    (ho : i64OK o = true) :
    parseSymAddrAddrW (wSymAddrAddr sc o s1 s2) = some (.addrAddr sc o s1 s2) := by
  simp [parseSymAddrAddrW, wSymAddrAddr, getAll_append, getAll_fld, lastInt_vInt _ hsc,
    lastInt_vInt _ ho, lastBytes_vBytes]

/-! ### SymbolicExpression -/

theorem wSymExpr_wf (e : MSymExpr) (h : wfWSymExpr e = true) : (wSymExpr e).wf = true := by
  obtain ⟨value, flags⟩ := e
  simp only [wfWSymExpr, Bool.and_eq_true] at h
  obtain ⟨⟨h1, h2⟩, h3⟩ := h
  rcases value with _ | ⟨o, s⟩ | ⟨sc, o, s1, s2⟩
  · simp [wSymExpr, wf_fld, all_wf_vPacked _ h3]
  · simp only [wSymExprValue, Bool.and_eq_true] at h1
    simp [wSymExpr, wf_append, wf_fld, all_wf_vPacked _ h3, wf_len_single _ h1.2]
  · simp only [wSymExprValue, Bool.and_eq_true] at h1
    simp [wSymExpr, wf_append, wf_fld, all_wf_vPacked _ h3, wf_len_single _ h1.2]

theorem parseSymExprW_wSymExpr (e : MSymExpr) (h : wfWSymExpr e = true) :
    parseSymExprW (wSymExpr e) = some e := by
  obtain ⟨value, flags⟩ := e
  simp only [wfWSymExpr, Bool.and_eq_true] at h
  obtain ⟨⟨h1, h2⟩, h3⟩ := h
  rcases value with _ | ⟨o, s⟩ | ⟨sc, o, s1, s2⟩
  · have ho : oneofRun ([] ++ fld 4 (vPacked flags)) [2, 3] = none := by
      apply oneofRun_nil_of_filter
      simp only [List.filter_append, oneof_filter_fld]
      simp
    simp only [parseSymExprW, wSymExpr, fno_SymbolicExpression_addr_const,
      fno_SymbolicExpression_addr_addr, fno_SymbolicExpression_attribute_flags, ho]
    simp [getAll_fld, enumsOf_vPacked _ h2]
  · simp only [wSymExprValue, wfWSymExprValue, Bool.and_eq_true] at h1
    obtain ⟨⟨ha, hb⟩, hc⟩ := h1
    have ho : oneofRun (fld 2 [.len (encodeW (wSymAddrConst o s))] ++ fld 4 (vPacked flags)) [2, 3]
        = some (2, [.len (encodeW (wSymAddrConst o s))]) := by
      apply oneofRun_single_of_filter
      simp only [List.filter_append, oneof_filter_fld]
      simp [fld]
    simp only [parseSymExprW, wSymExpr, fno_SymbolicExpression_addr_const,
      fno_SymbolicExpression_addr_addr, fno_SymbolicExpression_attribute_flags, ho]
    simp [getAll_append, getAll_fld, enumsOf_vPacked _ h2,
      subMsg_single _ _ (wSymAddrConst_wf o s hb), parseSymAddrConstW_wSymAddrConst o s ha]
  · simp only [wSymExprValue, wfWSymExprValue, Bool.and_eq_true] at h1
    obtain ⟨⟨⟨⟨ha, hb⟩, hc⟩, hd⟩, he⟩ := h1
    have ho : oneofRun (fld 3 [.len (encodeW (wSymAddrAddr sc o s1 s2))] ++ fld 4 (vPacked flags))
        [2, 3] = some (3, [.len (encodeW (wSymAddrAddr sc o s1 s2))]) := by
      apply oneofRun_single_of_filter
      simp only [List.filter_append, oneof_filter_fld]
      simp [fld]
    simp only [parseSymExprW, wSymExpr, fno_SymbolicExpression_addr_const,
      fno_SymbolicExpression_addr_addr, fno_SymbolicExpression_attribute_flags, ho]
    simp [getAll_append, getAll_fld, enumsOf_vPacked _ h2,
      subMsg_single _ _ (wSymAddrAddr_wf sc o s1 s2 hc hd),
      parseSymAddrAddrW_wSymAddrAddr sc o s1 s2 ha hb]

/-! ### the entry of `map<uint64, SymbolicExpression>` -/

theorem wExprEntry_wf (kv : Nat × MSymExpr) (h : wfWExprEntry kv = true) :
    (wExprEntry kv).wf = true := by
  simp only [wfWExprEntry, Bool.and_eq_true] at h
  obtain ⟨⟨h1, h2⟩, h3⟩ := h
  simp [wExprEntry, wEntry, wf_append, wf_fld, wf_varint_single _ h1, wf_len_single _ h3]

theorem parseExprEntryW_wExprEntry (kv : Nat × MSymExpr) (h : wfWExprEntry kv = true) :
    parseExprEntryW (wExprEntry kv) = some kv := by
  simp only [wfWExprEntry, Bool.and_eq_true] at h
  obtain ⟨⟨h1, h2⟩, h3⟩ := h
  simp [parseExprEntryW, wExprEntry, wEntry, getAll_append, getAll_fld,
    subMsg_single _ _ (wSymExpr_wf kv.2 h2), parseSymExprW_wSymExpr kv.2 h2]

/-! ### ByteInterval -/

theorem wByteInterval_wf (x : MByteInterval) (h : wfWByteInterval x = true) :
    (wByteInterval x).wf = true := by
  simp only [wfWByteInterval, Bool.and_eq_true] at h
  obtain ⟨⟨⟨⟨⟨h1, h2⟩, h3⟩, h4⟩, h5⟩, h6⟩ := h
  have hb : x.blocks.all (fun b => lenOK (encodeW (wBlock b))) = true := by
    simp only [List.all_eq_true, Bool.and_eq_true] at h2 ⊢
    exact fun b hb => (h2 b hb).2
  have he : x.symbolicExpressions.all (fun kv => lenOK (encodeW (wExprEntry kv))) = true := by
    simp only [List.all_eq_true, Bool.and_eq_true] at h3 ⊢
    exact fun b hb => (h3 b hb).2
  simp [wByteInterval, wf_append, wf_fld, all_wf_vBytes _ h1, all_wf_vMsgs _ _ hb,
    all_wf_vMsgs _ _ he, all_wf_vBool, all_wf_vUInt _ h4, all_wf_vUInt _ h5, all_wf_vBytes _ h6]

theorem parseByteIntervalW_wByteInterval (x : MByteInterval) (h : wfWByteInterval x = true) :
    parseByteIntervalW (wByteInterval x) = some x := by
  simp only [wfWByteInterval, Bool.and_eq_true] at h
  obtain ⟨⟨⟨⟨⟨h1, h2⟩, h3⟩, h4⟩, h5⟩, h6⟩ := h
  have hb : repMsg parseBlockW (vMsgs wBlock x.blocks) = some x.blocks := by
    apply repMsg_vMsgs_id
    simp only [List.all_eq_true, Bool.and_eq_true] at h2
    exact fun b hb => ⟨wBlock_wf b (h2 b hb).1, parseBlockW_wBlock b (h2 b hb).1⟩
  have he : repMsg parseExprEntryW (vMsgs wExprEntry x.symbolicExpressions)
      = some x.symbolicExpressions := by
    apply repMsg_vMsgs_id
    simp only [List.all_eq_true, Bool.and_eq_true] at h3
    exact fun b hb => ⟨wExprEntry_wf b (h3 b hb).1, parseExprEntryW_wExprEntry b (h3 b hb).1⟩
  simp [parseByteIntervalW, wByteInterval, getAll_append, getAll_fld, lastBytes_vBytes, hb, he,
    lastBool_vBool, lastUInt_vUInt]

/-! ### Section -/

theorem wSection_wf (s : MSection) (h : wfWSection s = true) : (wSection s).wf = true := by
  simp only [wfWSection, Bool.and_eq_true] at h
  obtain ⟨⟨⟨⟨h1, h2⟩, h3⟩, h4⟩, h5⟩ := h
  have hb : s.byteIntervals.all (fun b => lenOK (encodeW (wByteInterval b))) = true := by
    simp only [List.all_eq_true, Bool.and_eq_true] at h3 ⊢
    exact fun b hb => (h3 b hb).2
  simp [wSection, wf_append, wf_fld, all_wf_vBytes _ h1, all_wf_vStr _ h2, all_wf_vMsgs _ _ hb,
    all_wf_vPacked _ h5]

theorem parseSectionW_wSection (s : MSection) (h : wfWSection s = true) :
    parseSectionW (wSection s) = some s := by
  simp only [wfWSection, Bool.and_eq_true] at h
  obtain ⟨⟨⟨⟨h1, h2⟩, h3⟩, h4⟩, h5⟩ := h
  have hb : repMsg parseByteIntervalW (vMsgs wByteInterval s.byteIntervals)
      = some s.byteIntervals := by
    apply repMsg_vMsgs_id
    simp only [List.all_eq_true, Bool.and_eq_true] at h3
    exact fun b hb => ⟨wByteInterval_wf b (h3 b hb).1, parseByteIntervalW_wByteInterval b (h3 b hb).1⟩
  simp [parseSectionW, wSection, getAll_append, getAll_fld, lastBytes_vBytes, lastStr_vStr, hb,
    enumsOf_vPacked _ h4]

end Gtirb.Pb
