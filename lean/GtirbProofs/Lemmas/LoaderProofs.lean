import GtirbModel.Loader
import GtirbProofs.Lemmas.ForestFrame
import GtirbProofs.Lemmas.ForestInvProofs
import GtirbProofs.Lemmas.CacheProofs
import GtirbProofs.Lemmas.WrapperProofs
/-! Lemmas for property C17 on the staged decoder (`GtirbModel/Loader.lean`): whatever `load`
accepts is a coherent IR, duplicated UUIDs included.

Part A: what the composite operations do to the UUID table, without any invariant
        (`CacheLess`: some keys deleted; `cacheAdd` = a fold of `cacheSet`).
Part B: the owning collections / payloads of nodes that are not involved.
Part C: coverage (`Cov`): every node created by the load hangs below the new IR or below one
        of the pending roots.
Part D: `Closed`: back-pointer chains of new nodes stay among the new nodes.
Part E: the invariant of the middle of a load (`Mid`) and its preservation by each step.
Part F: the decoders.  -/
namespace Gtirb.Loader
open Gtirb.Forest

/-! ## Part A: the table -/

/-- the table of `g'` is the table of `g` with some keys `(i, uuid y)`, `I i`, `D y`, deleted -/
def CacheLess (g g' : G) (I : Nat → Prop) (D : Nat → Prop) : Prop :=
  ∀ i' u', g'.cache i' u' = g.cache i' u' ∨ (g'.cache i' u' = none ∧ I i' ∧ ∃ y, D y ∧ g.uuid y = u')

theorem CacheLess.refl (g : G) (I D : Nat → Prop) : CacheLess g g I D := fun _ _ => .inl rfl

theorem CacheLess.of_eq {g g' : G} (h : g'.cache = g.cache) (I D : Nat → Prop) : CacheLess g g' I D :=
  fun _ _ => .inl (by rw [h])

theorem CacheLess.mono {g g' : G} {I I' D D' : Nat → Prop} (h : CacheLess g g' I D)
    (hI : ∀ i, I i → I' i) (hD : ∀ y, D y → D' y) : CacheLess g g' I' D' := by
  intro i' u'
  rcases h i' u' with h1 | ⟨h1, h2, y, h3, h4⟩
  · exact .inl h1
  · exact .inr ⟨h1, hI _ h2, y, hD _ h3, h4⟩

theorem CacheLess.trans {a b c : G} {I D : Nat → Prop} (h1 : CacheLess a b I D) (hu : b.uuid = a.uuid)
    (h2 : CacheLess b c I D) : CacheLess a c I D := by
  intro i' u'
  rcases h2 i' u' with e2 | ⟨e2, hi, y, hy, hyu⟩
  · rw [e2]; exact h1 i' u'
  · exact .inr ⟨e2, hi, y, hy, by rw [← hu]; exact hyu⟩

theorem CacheLess.congr_right {g g' g'' : G} {I D : Nat → Prop} (h : CacheLess g g' I D)
    (hc : g''.cache = g'.cache) : CacheLess g g'' I D := by
  intro i' u'; rw [hc]; exact h i' u'

theorem cacheDel_cache {g g' : G} {i u : Nat} (h : cacheDel g i u = .ok g') :
    g'.cache = fun i' u' => if i' = i ∧ u' = u then none else g.cache i' u' := by
  unfold cacheDel at h
  split at h
  · cases h
  · cases h; rfl

theorem delAll_cache (i : Nat) : ∀ (L : List Nat) (g g' : G), cache_delAll g i L = .ok g' →
    ∀ i' u', g'.cache i' u' = if i' = i ∧ ∃ y, y ∈ L ∧ g.uuid y = u' then none else g.cache i' u'
  | [], g, g', h, i', u' => by
    cases h
    simp
  | x :: L, g, g', h, i', u' => by
    rw [cache_delAll_cons] at h
    obtain ⟨g1, h1, h2⟩ := bindE_ok h
    have ih := delAll_cache i L g1 g' h2 i' u'
    have hu : g1.uuid = g.uuid := (cache_cacheDel_only h1).uuid
    rw [ih, hu, cacheDel_cache h1]
    have hP : (∃ y, y ∈ x :: L ∧ g.uuid y = u') ↔ (u' = g.uuid x ∨ ∃ y, y ∈ L ∧ g.uuid y = u') := by
      constructor
      · rintro ⟨y, hy, hyu⟩
        rcases List.mem_cons.1 hy with rfl | hy
        · exact .inl hyu.symm
        · exact .inr ⟨y, hy, hyu⟩
      · rintro (h | ⟨y, hy, hyu⟩)
        · exact ⟨x, List.mem_cons_self, h.symm⟩
        · exact ⟨y, List.mem_cons_of_mem _ hy, hyu⟩
    show (if i' = i ∧ ∃ y, y ∈ L ∧ g.uuid y = u' then none
      else if i' = i ∧ u' = g.uuid x then none else g.cache i' u') = _
    split
    · rename_i h1; rw [if_pos ⟨h1.1, hP.2 (.inr h1.2)⟩]
    · rename_i h1
      split
      · rename_i h2; rw [if_pos ⟨h2.1, hP.2 (.inl h2.2)⟩]
      · rename_i h2
        rw [if_neg]
        rintro ⟨hi, hh⟩
        rcases hP.1 hh with h | h
        · exact h2 ⟨hi, h⟩
        · exact h1 ⟨hi, h⟩

/-- `cacheRemove` deletes the keys of the walked nodes (in row `i`), nothing else -/
theorem cacheRemove_less {g g' : G} {i v : Nat} (h : cacheRemove g i v = .ok g') :
    CacheLess g g' (· = i) (· ∈ cache_walk g.kids (g.kind v) v) := by
  rw [cache_cacheRemove_eq] at h
  intro i' u'
  rw [delAll_cache i _ g g' h i' u']
  split
  · rename_i hh; exact .inr ⟨rfl, hh.1, hh.2⟩
  · exact .inl rfl

theorem setDiscard_less {g g' : G} {q : Nat} {s : Slot} {v : Nat} (h : setDiscard g q s v = .ok g') :
    CacheLess g g' (fun i => irOf (setPar g v none) q = some i) (· ∈ cache_walk g.kids (g.kind v) v) := by
  unfold setDiscard at h
  split at h
  · have key : ∀ g2 : G, CacheSame (setPar g v none) g2 →
        (match irOf g2 q with
          | some i => match cacheRemove g2 i v with
            | .ok g3 => Except.ok (kidsErase g3 q s v)
            | .error e => .error e
          | none => .ok (kidsErase g2 q s v)) = .ok g' →
        CacheLess g g' (fun i => irOf (setPar g v none) q = some i) (· ∈ cache_walk g.kids (g.kind v) v) := by
      intro g2 h2 h
      have hir : irOf g2 q = irOf (setPar g v none) q := h2.irOf q
      split at h
      · rename_i i hi
        split at h
        · rename_i g3 h3
          cases h
          have := cacheRemove_less h3
          rw [h2.kids, h2.kind] at this
          intro i' u'
          rcases this i' u' with e | ⟨e, hi', y, hy, hyu⟩
          · left; show g3.cache i' u' = _; rw [e, h2.cache]; rfl
          · right
            refine ⟨e, ?_, y, hy, ?_⟩
            · show irOf (setPar g v none) q = some i'
              rw [← hir, hi, hi']
            · rw [h2.uuid] at hyu; exact hyu
        · cases h
      · cases h
        exact CacheLess.of_eq (g' := kidsErase g2 q s v) (by show g2.cache = _; rw [h2.cache]; rfl) _ _
    refine key _ ?_ h
    split
    · exact cache_symIndexDiscard_same _ _ _
    · exact CacheSame.rfl' _
  · cases h; exact CacheLess.refl _ _ _

/-- `add` below a detached non-IR node `p`: the table only loses the keys of the moved subtree
(and only when its previous owner belonged to an IR) -/
theorem setAdd_less {g g' : G} {p v : Nat} {s : Slot} (h : setAdd g p s v = .ok g')
    (hpp : g.par p = none) (hkp : g.kind p ≠ .ir) (hpv : p ≠ v) :
    CacheLess g g' (fun i => ∃ q, g.par v = some q ∧ irOf (setPar g v none) q = some i)
      (· ∈ cache_walk g.kids (g.kind v) v) := by
  have tail : ∀ g1, CacheLeft g g1 v →
      (Except.ok (cache_attachState
        (if s = .secs ∨ s = .syms ∨ s = .proxies then symIndexAdd (setPar g1 v (some p)) p v
          else setPar g1 v (some p)) p s v) : Except Exc G) = Except.ok g' → g'.cache = g1.cache := by
    intro g1 h1 h
    cases h
    have h3 : CacheSame (setPar g1 v (some p))
        (if s = .secs ∨ s = .syms ∨ s = .proxies then symIndexAdd (setPar g1 v (some p)) p v
          else setPar g1 v (some p)) := by
      split
      · exact cache_symIndexAdd_same _ _ _
      · exact CacheSame.rfl' _
    generalize (if s = .secs ∨ s = .syms ∨ s = .proxies then symIndexAdd (setPar g1 v (some p)) p v
          else setPar g1 v (some p)) = g3 at h3
    have hir : irOf g3 p = none := by
      have hp3 : g3.par p = none := by
        rw [h3.par]; show (if p = v then some p else g1.par p) = none
        rw [if_neg hpv, h1.par p hpv]; exact hpp
      rw [cache_irOf_root hp3, if_neg]
      rw [h3.kind]; show g1.kind p ≠ .ir; rw [h1.kind]; exact hkp
    unfold cache_attachState
    rw [hir]
    show g3.cache = _
    rw [h3.cache]; rfl
  unfold setAdd at h
  cases hq : g.par v with
  | none =>
    rw [hq] at h
    exact CacheLess.of_eq (tail g (CacheLeft.rfl' g v) h) _ _
  | some q =>
    rw [hq] at h
    simp only [] at h
    cases h1 : setDiscard g q s v with
    | error e => rw [h1] at h; cases h
    | ok g1 =>
      rw [h1] at h
      have e := tail g1 (cache_setDiscard_shape h1) h
      exact ((setDiscard_less h1).congr_right e).mono (fun i hi => ⟨q, rfl, hi⟩) (fun _ hy => hy)

/-- the table after `cacheAdd`-style registration of a list of nodes -/
theorem setAll_hit (i : Nat) : ∀ (L : List Nat) (g : G) (y : Nat), y ∈ L →
    ∃ y', y' ∈ L ∧ g.uuid y' = g.uuid y ∧ (cache_setAll g i L).cache i (g.uuid y) = some y'
  | [], _, y, hy => by cases hy
  | x :: L, g, y, hy => by
    show ∃ y', y' ∈ x :: L ∧ g.uuid y' = g.uuid y ∧
      (cache_setAll (cacheSet g i (g.uuid x) x) i L).cache i (g.uuid y) = some y'
    by_cases hL : ∃ z, z ∈ L ∧ g.uuid z = g.uuid y
    · obtain ⟨z, hz, hzu⟩ := hL
      obtain ⟨y', hy', hu', hc⟩ := setAll_hit i L (cacheSet g i (g.uuid x) x) z hz
      refine ⟨y', List.mem_cons_of_mem _ hy', ?_, ?_⟩
      · exact hu'.trans hzu
      · have : (cacheSet g i (g.uuid x) x).uuid z = g.uuid y := hzu
        rw [this] at hc; exact hc
    · have hyx : y = x ∨ g.uuid x = g.uuid y := by
        rcases List.mem_cons.1 hy with rfl | hy
        · exact .inl rfl
        · exact absurd ⟨y, hy, rfl⟩ hL
      have hxu : g.uuid x = g.uuid y := by
        rcases hyx with rfl | h
        · rfl
        · exact h
      refine ⟨x, List.mem_cons_self, hxu, ?_⟩
      rw [cache_setAll_other i L]
      · simp [hxu]
      · rintro ⟨_, z, hz, hzu⟩
        exact hL ⟨z, hz, hzu⟩

theorem setAll_cases (i : Nat) (L : List Nat) (g : G) (i' u' : Nat) :
    (∃ y, y ∈ L ∧ g.uuid y = u' ∧ i' = i ∧ (cache_setAll g i L).cache i' u' = some y) ∨
    ((cache_setAll g i L).cache i' u' = g.cache i' u' ∧ ¬ (i' = i ∧ ∃ y, y ∈ L ∧ g.uuid y = u')) := by
  by_cases h : i' = i ∧ ∃ y, y ∈ L ∧ g.uuid y = u'
  · obtain ⟨rfl, y, hy, rfl⟩ := h
    obtain ⟨y', hy', hu', hc⟩ := setAll_hit i' L g y hy
    exact .inl ⟨y', hy', hu', rfl, hc⟩
  · exact .inr ⟨cache_setAll_other i L g i' u' h, h⟩

/-! ## Part D: chains of new nodes -/

/-- back-pointer chains of the nodes `≥ n0` stay among them; `n0` is their only IR -/
structure Closed (n0 : Nat) (g : G) : Prop where
  parInv : CacheParInv g
  par_new : ∀ x p, n0 ≤ x → g.par x = some p → n0 ≤ p
  only_ir : ∀ x, n0 ≤ x → x < g.n → g.kind x = .ir → x = n0

theorem Closed.irOf_new_aux {n0 : Nat} {g : G} (h : Closed n0 g) :
    ∀ (k x i : Nat), cache_rank (g.kind x) ≤ k → n0 ≤ x → x < g.n → irOf g x = some i → i = n0 := by
  intro k
  induction k with
  | zero =>
    intro x i hr hx hlt hi
    cases hp : g.par x with
    | none =>
      rw [cache_irOf_root hp] at hi
      split at hi
      · cases hi; exact h.only_ir _ hx hlt (by assumption)
      · cases hi
    | some a => have := cache_rank_par h.parInv hp; omega
  | succ k ih =>
    intro x i hr hx hlt hi
    cases hp : g.par x with
    | none =>
      rw [cache_irOf_root hp] at hi
      split at hi
      · cases hi; exact h.only_ir _ hx hlt (by assumption)
      · cases hi
    | some a =>
      have := cache_rank_par h.parInv hp
      rw [cache_irOf_par h.parInv hp] at hi
      exact ih a i (by omega) (h.par_new x a hx hp) (h.parInv.alloc _ _ hp).2 hi

theorem Closed.irOf_new {n0 : Nat} {g : G} (h : Closed n0 g) {x i : Nat} (hx : n0 ≤ x) (hlt : x < g.n)
    (hi : irOf g x = some i) : i = n0 := h.irOf_new_aux _ x i (Nat.le_refl _) hx hlt hi

theorem Closed.setPar_none {n0 : Nat} {g : G} (h : Closed n0 g) (v : Nat) : Closed n0 (setPar g v none) := by
  refine ⟨cache_parInv_detach (v := v) h.parInv rfl rfl (by simp) (by intro x hx; simp [hx]), ?_, h.only_ir⟩
  intro x p hx hp
  simp only [setPar_par] at hp
  split at hp
  · cases hp
  · exact h.par_new x p hx hp

theorem Closed.of_attached {n0 : Nat} {g g' : G} {v p : Nat} (h : Closed n0 g) (ha : CacheAttached g g' v p)
    (hv : v < g.n) (hpn : p < g.n) (hp0 : n0 ≤ p) (hkp : parentKind (g.kind v) = some (g.kind p)) :
    Closed n0 g' := by
  refine ⟨cache_parInv_attach h.parInv hv hpn hkp ha.n ha.kind ha.parv ha.par, ?_, ?_⟩
  · intro x a hx hxa
    by_cases hxv : x = v
    · subst hxv; rw [ha.parv] at hxa; cases hxa; exact hp0
    · rw [ha.par x hxv] at hxa; exact h.par_new x a hx hxa
  · intro x hx hlt hk
    rw [ha.n] at hlt; rw [ha.kind] at hk
    exact h.only_ir x hx hlt hk

/-- `irOf` only reads the back-pointers of the ranks above -/
theorem irOf_eq_of_rank {g g' : G} (hp : CacheParInv g) (hp' : CacheParInv g') (hk : g'.kind = g.kind) (k : Nat)
    (hpar : ∀ y, cache_rank (g.kind y) ≤ k → g'.par y = g.par y) :
    ∀ (m x : Nat), cache_rank (g.kind x) ≤ m → m ≤ k → irOf g' x = irOf g x := by
  intro m
  induction m with
  | zero =>
    intro x hr hm
    cases hpx : g.par x with
    | none =>
      have hpx' : g'.par x = none := by rw [hpar x (by omega)]; exact hpx
      rw [cache_irOf_root hpx, cache_irOf_root hpx', hk]
    | some a => have := cache_rank_par hp hpx; omega
  | succ m ih =>
    intro x hr hm
    cases hpx : g.par x with
    | none =>
      have hpx' : g'.par x = none := by rw [hpar x (by omega)]; exact hpx
      rw [cache_irOf_root hpx, cache_irOf_root hpx', hk]
    | some a =>
      have hpx' : g'.par x = some a := by rw [hpar x (by omega)]; exact hpx
      have := cache_rank_par hp hpx
      rw [cache_irOf_par hp hpx, cache_irOf_par hp' hpx']
      exact ih a (by omega) (by omega)

/-! ### `blkUpdate` on a detached interval: only deletions, in row `n0` -/

theorem walk_block {k : Nat → Slot → List Nat} {kd : Kind} (h : kd = .code ∨ kd = .data) (v : Nat) :
    cache_walk k kd v = [v] := by
  rcases h with rfl | rfl <;> rfl

theorem blkStep_less {n0 : Nat} {gk gk' : G} {p v : Nat} (hc : Closed n0 gk) (hv0 : n0 ≤ v)
    (hkv : gk.kind v = .code ∨ gk.kind v = .data)
    (h : cache_blkStep none p gk v = .ok gk') : CacheLess gk gk' (· = n0) (· = v) := by
  unfold cache_blkStep at h
  cases hq : gk.par v with
  | none =>
    rw [hq] at h
    cases h
    exact CacheLess.refl _ _ _
  | some q =>
    rw [hq] at h
    simp only [] at h
    cases h1 : setDiscard gk q .blocks v with
    | error e => rw [h1] at h; cases h
    | ok g1 =>
      rw [h1] at h
      cases h
      have hl := setDiscard_less h1
      rw [walk_block hkv] at hl
      refine (hl.congr_right (g'' := cache_blkTail none (setPar g1 v (some p)) v) rfl).mono ?_ ?_
      · intro i hi
        exact (hc.setPar_none v).irOf_new (hc.par_new v q hv0 hq) (hc.parInv.alloc v q hq).2 hi
      · intro y hy; simpa using hy

theorem foldl_kidsInsert_cache (p : Nat) (s : Slot) (L : List Nat) (g : G) :
    (L.foldl (fun g v => kidsInsert g p s v) g).cache = g.cache :=
  (cache_foldl_kidsInsert p s L g).2.2.2.2.1

theorem blkUpdate_less {n0 : Nat} {g g' : G} {p : Nat} {vs : List Nat} (hc : Closed n0 g) (hp0 : n0 ≤ p)
    (hpn : p < g.n) (hkp : g.kind p = .interval)
    (hvs : ∀ v, v ∈ vs → n0 ≤ v ∧ v < g.n ∧ (g.kind v = .code ∨ g.kind v = .data))
    (hir : irOf g p = none) (h : blkUpdate g p vs = .ok g') :
    CacheLess g g' (· = n0) (· ∈ blkNew g p vs) := by
  rw [cache_blkUpdate_eq, hir] at h
  split at h
  · cases h
  · rename_i g1 h1
    cases h
    have key : Closed n0 g1 ∧ g1.n = g.n ∧ g1.kind = g.kind ∧ g1.uuid = g.uuid ∧
        CacheLess g g1 (· = n0) (· ∈ blkNew g p vs) := by
      refine foldE_inv (fun gk => Closed n0 gk ∧ gk.n = g.n ∧ gk.kind = g.kind ∧ gk.uuid = g.uuid ∧
        CacheLess g gk (· = n0) (· ∈ blkNew g p vs)) _ ?_ g g1 ⟨hc, rfl, rfl, rfl, CacheLess.refl _ _ _⟩ h1
      intro gk x gk' hx ⟨hck, hn, hk, hu, hl⟩ hstep
      have hxv := (cache_mem_blkNew.1 hx).1
      obtain ⟨hx0, hxn, hxk⟩ := hvs x hxv
      have ha := cache_blkStep_shape hstep
      refine ⟨hck.of_attached ha (by rw [hn]; exact hxn) (by rw [hn]; exact hpn) hp0 ?_, ha.n.trans hn,
        ha.kind.trans hk, ha.uuid.trans hu, ?_⟩
      · rw [hk, hkp]; rcases hxk with h | h <;> rw [h] <;> rfl
      · refine hl.trans hu ((blkStep_less hck hx0 (by rw [hk]; exact hxk) hstep).mono (fun _ h => h) ?_)
        intro y hy; subst hy; exact hx
    exact key.2.2.2.2.congr_right (foldl_kidsInsert_cache p .blocks _ g1)

/-- `append` to the module list: the keys of the module's subtree are deleted (when it was in a
list before) and then all registered again -/
theorem modAppend_cache {g g' : G} {i v : Nat} (h : modAppend g i v = .ok g') :
    ∃ gX, CacheLess g gX (fun i' => g.par v = some i') (· ∈ cache_walk g.kids (g.kind v) v) ∧
      gX.kind = g.kind ∧ gX.uuid = g.uuid ∧ (∀ p' s', s' ≠ Slot.mods → gX.kids p' s' = g.kids p' s') ∧
      g'.cache = (cacheAdd gX i v).cache := by
  unfold modAppend modInsert modHookAdd at h
  cases hq : g.par v with
  | none =>
    rw [hq] at h
    cases h
    exact ⟨setPar g v (some i), CacheLess.refl _ _ _, rfl, rfl, fun _ _ _ => rfl, rfl⟩
  | some j =>
    rw [hq] at h
    simp only [] at h
    cases h1 : modListRemove g j v with
    | error e => rw [h1] at h; cases h
    | ok g1 =>
      rw [h1] at h
      cases h
      unfold modListRemove at h1
      split at h1
      · cases h2 : modHookRemove g j v with
        | error e => rw [h2] at h1; cases h1
        | ok g2 =>
          rw [h2] at h1; cases h1
          unfold modHookRemove at h2
          have hl := cacheRemove_less h2
          have ho := cache_cacheRemove_only h2
          refine ⟨setPar (kidsSet g2 j .mods ((g2.kids j .mods).erase v)) v (some i), ?_, ?_, ?_, ?_, rfl⟩
          · exact (hl.congr_right (g'' := setPar (kidsSet g2 j .mods ((g2.kids j .mods).erase v)) v (some i))
              rfl).mono (fun i' hi' => by rw [hi']) (fun _ hy => hy)
          · show g2.kind = _; rw [ho.kind]; rfl
          · show g2.uuid = _; rw [ho.uuid]; rfl
          · intro p' s' hs'
            show (if p' = j ∧ s' = Slot.mods then _ else g2.kids p' s') = _
            rw [if_neg (fun hh => hs' hh.2), ho.kids]; rfl
      · cases h1

/-! ## Part B: collections and payloads of the nodes that are not involved -/

theorem setAdd_kids_other {g g' : G} {p : Nat} {s : Slot} {v : Nat} (h : setAdd g p s v = .ok g') {q : Nat}
    (hqp : q ≠ p) (hq : g.par v ≠ some q) (s' : Slot) : g'.kids q s' = g.kids q s' := by
  rw [wr_kids_of_core (setAdd_core h)]
  unfold attach
  rw [kidsInsert_kids, if_neg (fun hh => hqp hh.1)]
  exact relink_kids_of_ne (g := core g) q s' hq

theorem setAdd_payload {g g' : G} {p : Nat} {s : Slot} {v : Nat} (h : setAdd g p s v = .ok g') :
    g'.payload = g.payload := by
  have := congrArg G.payload (setAdd_core h)
  simpa using this

theorem foldl_kidsInsert_kids_other (p : Nat) (s : Slot) {q : Nat} (hq : q ≠ p) (s' : Slot) (L : List Nat) (g : G) :
    (L.foldl (fun g v => kidsInsert g p s v) g).kids q s' = g.kids q s' := by
  rw [(cache_foldl_kidsInsert p s L g).2.2.2.2.2 q s', if_neg (fun hh => hq hh.1)]

theorem foldl_relink_kids_other (p : Nat) (s : Slot) {q : Nat} (hq : q ≠ p) (s' : Slot) : ∀ (L : List Nat) (g : G),
    (∀ v, v ∈ L → g.par v ≠ some q) → (L.foldl (fun g v => relink g p s v) g).kids q s' = g.kids q s'
  | [], _, _ => rfl
  | a :: L, g, h => by
    rw [List.foldl_cons, foldl_relink_kids_other p s hq s' L]
    · exact relink_kids_of_ne q s' (h a List.mem_cons_self)
    · intro v hv
      rw [relink_par]
      split
      · intro hh; exact hq (Option.some.inj hh).symm
      · exact h v (List.mem_cons_of_mem _ hv)

theorem foldl_payload {F : G → Nat → G} (hF : ∀ g x, (F g x).payload = g.payload) (L : List Nat) (g : G) :
    (L.foldl F g).payload = g.payload :=
  foldl_inv (fun g' => g'.payload = g.payload) L (fun g' x _ h => (hF g' x).trans h) g rfl

theorem blkUpdate_kids_other {g g' : G} {p : Nat} {vs : List Nat} (h : blkUpdate g p vs = .ok g') {q : Nat}
    (hqp : q ≠ p) (hq : ∀ v, v ∈ blkNew g p vs → g.par v ≠ some q) (s' : Slot) : g'.kids q s' = g.kids q s' := by
  rw [wr_kids_of_core (blkUpdate_core h)]
  unfold blkUpdatePure
  rw [foldl_kidsInsert_kids_other p .blocks hqp, foldl_relink_kids_other p .blocks hqp s' _ (core g) hq]
  rfl

theorem blkUpdate_payload {g g' : G} {p : Nat} {vs : List Nat} (h : blkUpdate g p vs = .ok g') :
    g'.payload = g.payload := by
  have := congrArg G.payload (blkUpdate_core h)
  rw [core_payload] at this
  rw [this]
  unfold blkUpdatePure
  rw [foldl_payload (fun g x => kidsInsert_payload g p .blocks x), foldl_payload (fun g x => relink_payload g p .blocks x)]
  rfl

theorem modAppend_kids_other {g g' : G} {i v : Nat} (h : modAppend g i v = .ok g') {q : Nat}
    (hqi : q ≠ i) (hq : g.par v ≠ some q) (s' : Slot) : g'.kids q s' = g.kids q s' := by
  rw [wr_kids_of_core (modAppend_core h)]
  unfold modInsertPure
  rw [kidsSet_kids, if_neg (fun hh => hqi hh.1)]
  exact relink_kids_of_ne (g := core g) q s' hq

theorem modAppend_payload {g g' : G} {i v : Nat} (h : modAppend g i v = .ok g') : g'.payload = g.payload := by
  have := congrArg G.payload (modAppend_core h)
  rw [core_payload] at this
  rw [this]
  unfold modInsertPure
  rw [kidsSet_payload, relink_payload]
  rfl

/-! ## Part C: coverage -/

/-- `x` hangs below one of the nodes in `R` -/
def Cov (g : G) (R : Nat → Prop) (x : Nat) : Prop := ∃ r, R r ∧ CacheDesc g r x

theorem Cov.mono {g : G} {R R' : Nat → Prop} {x : Nat} (hR : ∀ r, R r → R' r) (h : Cov g R x) : Cov g R' x := by
  obtain ⟨r, hr, hd⟩ := h; exact ⟨r, hR r hr, hd⟩

theorem Cov.self {g : G} {R : Nat → Prop} {x : Nat} (h : R x) : Cov g R x := ⟨x, h, .refl⟩

/-- back-pointers are kept or redirected to a node of `R` -/
theorem cov_step {g g' : G} {R : Nat → Prop}
    (h : ∀ x a, g.par x = some a → g'.par x = some a ∨ ∃ p, R p ∧ g'.par x = some p) {x : Nat}
    (hc : Cov g R x) : Cov g' R x := by
  obtain ⟨r, hr, hd⟩ := hc
  induction hd with
  | refl => exact ⟨r, hr, .refl⟩
  | @step x a hp _ ih =>
    rcases h x a hp with h1 | ⟨p, hp1, hp2⟩
    · obtain ⟨r', hr', hd'⟩ := ih
      exact ⟨r', hr', .step h1 hd'⟩
    · exact ⟨p, hp1, .step hp2 .refl⟩

theorem cov_shrink {g : G} {R R' : Nat → Prop} (h : ∀ r, R' r → Cov g R r) {x : Nat} (hc : Cov g R' x) :
    Cov g R x := by
  obtain ⟨r, hr, hd⟩ := hc
  obtain ⟨r', hr', hd'⟩ := h r hr
  exact ⟨r', hr', cache_desc_trans hd' hd⟩

/-- every node created since `n0` is covered -/
def AllCov (n0 : Nat) (g : G) (R : Nat → Prop) : Prop := ∀ x, n0 ≤ x → x < g.n → Cov g R x

theorem AllCov.mono {n0 : Nat} {g : G} {R R' : Nat → Prop} (hR : ∀ r, R r → R' r) (h : AllCov n0 g R) :
    AllCov n0 g R' := fun x h1 h2 => (h x h1 h2).mono hR

theorem AllCov.shrink {n0 : Nat} {g : G} {R R' : Nat → Prop} (h : AllCov n0 g R') (hR : ∀ r, R' r → Cov g R r) :
    AllCov n0 g R := fun x h1 h2 => cov_shrink hR (h x h1 h2)

theorem AllCov.step {n0 : Nat} {g g' : G} {R : Nat → Prop} (hc : AllCov n0 g R) (hn : g'.n = g.n)
    (h : ∀ x a, g.par x = some a → g'.par x = some a ∨ ∃ p, R p ∧ g'.par x = some p) : AllCov n0 g' R :=
  fun x h1 h2 => cov_step h (hc x h1 (by rw [← hn]; exact h2))

theorem AllCov.of_par_eq {n0 : Nat} {g g' : G} {R : Nat → Prop} (hc : AllCov n0 g R) (hn : g'.n = g.n)
    (h : g'.par = g.par) : AllCov n0 g' R :=
  hc.step hn (fun x a hx => .inl (by rw [h]; exact hx))

/-! ## Part E: the invariant of the middle of a load -/

/-- the state in the middle of `load g0 _`: `g0.n` is the new IR; "new" nodes are those `≥ g0.n` -/
structure Mid (g0 g : G) : Prop where
  forest : ForestInv g
  lt : g0.n < g.n
  kind_ir : g.kind g0.n = .ir
  only_ir : ∀ x, g0.n ≤ x → x < g.n → g.kind x = .ir → x = g0.n
  par_new : ∀ x p, g0.n ≤ x → g.par x = some p → g0.n ≤ p
  kids_new : ∀ x p, g.par x = some p → g0.n ≤ p → g0.n ≤ x
  /-- table entries of the new IR name new nodes of that UUID -/
  entries : ∀ u n, g.cache g0.n u = some n → g0.n ≤ n ∧ n < g.n ∧ g.uuid n = u
  /-- the UUID of every new node has an entry, or is carried by a new node that is not attached (yet) -/
  owed : ∀ x, g0.n ≤ x → x < g.n → (g.cache g0.n (g.uuid x)).isSome ∨
    ∃ y, g0.n ≤ y ∧ y < g.n ∧ irOf g y ≠ some g0.n ∧ g.uuid y = g.uuid x
  frame : ∀ x, x < g0.n → g.par x = g0.par x ∧ g.kind x = g0.kind x ∧ g.uuid x = g0.uuid x ∧
    ∀ s, g.kids x s = g0.kids x s
  rows : ∀ j, j ≠ g0.n → ∀ u, g.cache j u = g0.cache j u
  refs : ∀ y b, g0.n ≤ y → y < g.n → g.kind y = .symbol → g.payload y = .block b →
    g0.n ≤ b ∧ b < g.n ∧ isBlock (g.kind b) = true

theorem Mid.closed {g0 g : G} (h : Mid g0 g) : Closed g0.n g :=
  ⟨h.forest.cache_parInv, h.par_new, h.only_ir⟩

theorem Mid.desc_new {g0 g : G} (h : Mid g0 g) {v y : Nat} (hd : CacheDesc g v y) (hv : g0.n ≤ v) : g0.n ≤ y := by
  induction hd with
  | refl => exact hv
  | step hp _ ih => exact h.kids_new _ _ hp ih

theorem Mid.irOf_new {g0 g : G} (h : Mid g0 g) {x i : Nat} (hx : g0.n ≤ x) (hlt : x < g.n)
    (hi : irOf g x = some i) : i = g0.n := h.closed.irOf_new hx hlt hi

/-- some nodes `D` (all new) were re-pointed to the detached new node `p`; the table only lost keys of
their subtrees -/
structure Moved (g0 g g' : G) (p : Nat) (D : Nat → Prop) : Prop where
  forest : ForestInv g'
  stable : Stable g g'
  payload : g'.payload = g.payload
  par_in : ∀ x, D x → g'.par x = some p
  par_out : ∀ x, ¬ D x → g'.par x = g.par x
  kids : ∀ q, q ≠ p → (∀ v, D v → g.par v ≠ some q) → ∀ s', g'.kids q s' = g.kids q s'
  less : CacheLess g g' (· = g0.n) (fun y => ∃ v, D v ∧ CacheDesc g v y)
  unatt : ∀ x, (∃ v, D v ∧ CacheDesc g v x) → irOf g' x = none
  same : ∀ x, ¬ (∃ v, D v ∧ CacheDesc g v x) → irOf g' x = irOf g x

theorem Mid.moved {g0 g g' : G} {p : Nat} {D : Nat → Prop} (hm : Mid g0 g) (h : Moved g0 g g' p D)
    (hp0 : g0.n ≤ p) (hD : ∀ v, D v → g0.n ≤ v ∧ v < g.n) : Mid g0 g' := by
  have hn := h.stable.n
  have hk := h.stable.kind
  have hu := h.stable.uuid
  refine ⟨h.forest, by rw [hn]; exact hm.lt, by rw [hk]; exact hm.kind_ir, ?_, ?_, ?_, ?_, ?_, ?_, ?_, ?_⟩
  · intro x hx hlt hkx
    rw [hn] at hlt; rw [hk] at hkx
    exact hm.only_ir x hx hlt hkx
  · intro x a hx hxa
    by_cases hd : D x
    · rw [h.par_in x hd] at hxa; cases hxa; exact hp0
    · rw [h.par_out x hd] at hxa; exact hm.par_new x a hx hxa
  · intro x a hxa ha
    by_cases hd : D x
    · exact (hD x hd).1
    · rw [h.par_out x hd] at hxa; exact hm.kids_new x a hxa ha
  · intro u n hc
    rcases h.less g0.n u with e | ⟨e, _⟩
    · rw [e] at hc
      have := hm.entries u n hc
      rw [hn, hu]; exact this
    · rw [e] at hc; cases hc
  · intro x hx hlt
    rw [hn] at hlt
    rw [hn, hu]
    have hdead : ∀ y, (∃ v, D v ∧ CacheDesc g v y) → g0.n ≤ y ∧ y < g.n ∧ irOf g' y ≠ some g0.n := by
      rintro y ⟨v, hv, hd⟩
      refine ⟨hm.desc_new hd (hD v hv).1, cache_desc_lt hm.forest.cache_parInv hd (hD v hv).2, ?_⟩
      rw [h.unatt y ⟨v, hv, hd⟩]; exact fun hh => by cases hh
    rcases hm.owed x hx hlt with h1 | ⟨y, hy0, hyn, hyi, hyu⟩
    · rcases h.less g0.n (g.uuid x) with e | ⟨_, _, y, hy, hyu⟩
      · left; rw [e]; exact h1
      · right
        obtain ⟨a, b, c⟩ := hdead y hy
        exact ⟨y, a, b, c, hyu⟩
    · right
      by_cases hy : ∃ v, D v ∧ CacheDesc g v y
      · obtain ⟨a, b, c⟩ := hdead y hy
        exact ⟨y, a, b, c, hyu⟩
      · exact ⟨y, hy0, hyn, by rw [h.same y hy]; exact hyi, hyu⟩
  · intro x hx
    have hnd : ¬ D x := fun hd => by have := (hD x hd).1; omega
    obtain ⟨f1, f2, f3, f4⟩ := hm.frame x hx
    refine ⟨by rw [h.par_out x hnd]; exact f1, by rw [hk]; exact f2, by rw [hu]; exact f3, ?_⟩
    intro s
    rw [h.kids x (by omega) ?_ s]
    · exact f4 s
    · intro v hv hpv
      have := hm.par_new v x (hD v hv).1 hpv
      omega
  · intro j hj u
    rcases h.less j u with e | ⟨_, e, _⟩
    · rw [e]; exact hm.rows j hj u
    · exact absurd e hj
  · intro y b hy hlt hky hpl
    rw [hn] at hlt; rw [hk] at hky; rw [h.payload] at hpl
    rw [hn, hk]
    exact hm.refs y b hy hlt hky hpl

theorem Moved.cov {g0 g g' : G} {p : Nat} {D : Nat → Prop} (h : Moved g0 g g' p D) {n0 : Nat} {R : Nat → Prop}
    (hp : R p) (hc : AllCov n0 g R) : AllCov n0 g' R := by
  refine hc.step h.stable.n ?_
  intro x a hxa
  by_cases hd : D x
  · exact .inr ⟨p, hp, h.par_in x hd⟩
  · exact .inl (by rw [h.par_out x hd]; exact hxa)

theorem rank_le_four (k : Kind) : cache_rank k ≤ 4 := by cases k <;> simp [cache_rank]

theorem kind_ne_ir_of_slot {k : Kind} {s : Slot} (h : slotOf k = some s) : k ≠ .ir := by
  intro e; rw [e] at h; cases h

theorem irOf_detached_root {g : G} {p : Nat} (hp : g.par p = none) (hk : g.kind p ≠ .ir) : irOf g p = none := by
  rw [cache_irOf_root hp, if_neg hk]

/-- `add` of a new node to a collection of a detached new node -/
theorem setAdd_moved {g0 g g' : G} {p v : Nat} {s : Slot} (hm : Mid g0 g) (_hp0 : g0.n ≤ p)
    (hpp : g.par p = none) (hkp : g.kind p ≠ .ir) (hv0 : g0.n ≤ v) (hc : ChildOK g p s v)
    (h : setAdd g p s v = .ok g') : Moved g0 g g' p (· = v) := by
  obtain ⟨hpn, hvn, hslot, hpk⟩ := hc
  have hsh := cache_setAdd_shape h
  have hpv : p ≠ v := (cache_ne_of_parentKind hpk).symm
  have hkv : g.kind v ≠ .ir := kind_ne_ir_of_slot hslot
  have hpi := hm.forest.cache_parInv
  obtain ⟨r1, r2, _⟩ := cache_reparent_irOf hpi hvn hpn hpk hsh.n hsh.kind hsh.parv hsh.par
  have hirp : irOf g p = none := irOf_detached_root hpp hkp
  refine ⟨hm.forest.setAdd ⟨hpn, hvn, hslot, hpk⟩ h, setAdd_stable h, setAdd_payload h, ?_, ?_, ?_, ?_, ?_, ?_⟩
  · intro x hx; subst hx; exact hsh.parv
  · intro x hx; exact hsh.par x hx
  · intro q hq hqv s'
    exact setAdd_kids_other h hq (hqv v rfl) s'
  · refine (setAdd_less h hpp hkp hpv).mono ?_ ?_
    · rintro i ⟨q, hq, hi⟩
      exact (hm.closed.setPar_none v).irOf_new (hm.par_new v q hv0 hq) (hpi.alloc v q hq).2 hi
    · intro y hy
      exact ⟨v, rfl, (cache_mem_walk_iff hm.forest hkv).1 hy⟩
  · rintro x ⟨_, rfl, hd⟩
    rw [r1 x hd, hirp]
  · intro x hx
    exact r2 x (fun hd => hx ⟨v, rfl, hd⟩)

/-- `blocks.update` of new blocks on a detached new interval -/
theorem blkUpdate_moved {g0 g g' : G} {p : Nat} {vs : List Nat} (hm : Mid g0 g) (hp0 : g0.n ≤ p) (hpn : p < g.n)
    (hpp : g.par p = none) (hkp : g.kind p = .interval)
    (hvs : ∀ v, v ∈ vs → g0.n ≤ v ∧ v < g.n ∧ (g.kind v = .code ∨ g.kind v = .data))
    (h : blkUpdate g p vs = .ok g') : Moved g0 g g' p (· ∈ blkNew g p vs) := by
  have hpi := hm.forest.cache_parInv
  have hkp' : g.kind p ≠ .ir := by rw [hkp]; decide
  have hirp : irOf g p = none := irOf_detached_root hpp hkp'
  have hst := blkUpdate_stable h
  have hcok : ∀ v, v ∈ vs → ChildOK g p .blocks v := by
    intro v hv
    obtain ⟨_, h2, h3⟩ := hvs v hv
    refine ⟨hpn, h2, ?_, ?_⟩
    · rcases h3 with e | e <;> rw [e] <;> rfl
    · rw [hkp]; rcases h3 with e | e <;> rw [e] <;> rfl
  have hf' := hm.forest.blkUpdate hcok h
  have hpi' := hf'.cache_parInv
  have hnew : ∀ v, v ∈ blkNew g p vs → v ∈ vs := fun v hv => (mem_blkNew.1 hv).1
  have hpnew : p ∉ blkNew g p vs := by
    intro hp
    rcases (hvs p (hnew p hp)).2.2 with e | e <;> rw [hkp] at e <;> cases e
  have hleaf : ∀ v x, v ∈ blkNew g p vs → CacheDesc g v x → x = v := by
    intro v x hv hd
    apply cache_desc_leaf hpi _ hd
    rcases (hvs v (hnew v hv)).2.2 with e | e <;> rw [e]
    · exact cache_no_child_code
    · exact cache_no_child_data
  have hpar := blkUpdate_par h
  have hpp' : g'.par p = none := by rw [hpar, if_neg hpnew]; exact hpp
  have hirp' : irOf g' p = none := irOf_detached_root hpp' (by rw [hst.kind]; exact hkp')
  refine ⟨hf', hst, blkUpdate_payload h, ?_, ?_, ?_, ?_, ?_, ?_⟩
  · intro x hx; rw [hpar, if_pos hx]
  · intro x hx; rw [hpar, if_neg hx]
  · intro q hq hqv s'
    exact blkUpdate_kids_other h hq hqv s'
  · refine (blkUpdate_less hm.closed hp0 hpn hkp hvs hirp h).mono (fun _ hi => hi) ?_
    intro y hy; exact ⟨y, hy, .refl⟩
  · rintro x ⟨v, hv, hd⟩
    have := hleaf v x hv hd
    subst this
    rw [cache_irOf_par hpi' (by rw [hpar, if_pos hv]), hirp']
  · intro x hx
    have hxn : x ∉ blkNew g p vs := fun hh => hx ⟨x, hh, .refl⟩
    have hup : ∀ y, cache_rank (g.kind y) ≤ 3 → g'.par y = g.par y := by
      intro y hy
      rw [hpar, if_neg]
      intro hyn
      rcases (hvs y (hnew y hyn)).2.2 with e | e <;> rw [e] at hy <;> simp [cache_rank] at hy
    cases hpx : g.par x with
    | none =>
      have : g'.par x = none := by rw [hpar, if_neg hxn]; exact hpx
      rw [cache_irOf_root hpx, cache_irOf_root this, hst.kind]
    | some a =>
      have hpx' : g'.par x = some a := by rw [hpar, if_neg hxn]; exact hpx
      have hr := cache_rank_par hpi hpx
      have := rank_le_four (g.kind x)
      rw [cache_irOf_par hpi hpx, cache_irOf_par hpi' hpx']
      exact irOf_eq_of_rank hpi hpi' hst.kind 3 hup 3 a (by omega) (Nat.le_refl _)

/-! ### allocation -/

/-- a state that is `alloc g k u` up to name/payload (a fresh symbol gets both before anything else happens) -/
theorem Mid.of_alloc' {g0 g g' : G} (hm : Mid g0 g) (k : Kind) (u : Nat) (hk : k ≠ .ir)
    (hn : g'.n = g.n + 1) (hkind : g'.kind = (alloc g k u).1.kind) (huuid : g'.uuid = (alloc g k u).1.uuid)
    (hpar : g'.par = (alloc g k u).1.par) (hkids : g'.kids = (alloc g k u).1.kids) (hcache : g'.cache = g.cache)
    (hpl : ∀ x, x ≠ g.n → g'.payload x = g.payload x)
    (hplnew : k = .symbol → ∀ b, g'.payload g.n = .block b → g0.n ≤ b ∧ b < g.n ∧ isBlock (g.kind b) = true) :
    Mid g0 g' := by
  have hf1 := hm.forest.of_alloc k u
  have hlt := hm.lt
  have hkx : ∀ x, x ≠ g.n → g'.kind x = g.kind x := by
    intro x hx; rw [hkind]; simp [hx]
  have hux : ∀ x, x ≠ g.n → g'.uuid x = g.uuid x := by
    intro x hx; rw [huuid]; simp [hx]
  have hpx : ∀ x, x ≠ g.n → g'.par x = g.par x := by
    intro x hx; rw [hpar]; simp [hx]
  have hpnew : g'.par g.n = none := by rw [hpar]; simp
  have hknew : g'.kind g.n = k := by rw [hkind]; simp
  have hir : ∀ x, x < g.n → irOf g' x = irOf g x := by
    intro x hx
    rw [cache_irOf_congr hkind hpar x]
    exact cache_alloc_irOf_old' hm.forest k u hx
  have hirnew : irOf g' g.n = none := irOf_detached_root hpnew (by rw [hknew]; exact hk)
  refine ⟨?_, by omega, ?_, ?_, ?_, ?_, ?_, ?_, ?_, ?_, ?_⟩
  · exact ⟨by intro c p s; rw [hkids, hpar, hkind]; exact hf1.mem_iff c p s,
      by intro p s; rw [hkids]; exact hf1.nodup p s,
      by intro c p; rw [hpar, hkind]; exact hf1.kind_ok c p,
      by intro c p; rw [hpar, hn]; exact hf1.alloc c p⟩
  · rw [hkx _ (by omega)]; exact hm.kind_ir
  · intro x hx hlt' hkx'
    by_cases hxn : x = g.n
    · subst hxn; rw [hknew] at hkx'; exact absurd hkx' hk
    · rw [hkx x hxn] at hkx'; exact hm.only_ir x hx (by omega) hkx'
  · intro x a hx hxa
    by_cases hxn : x = g.n
    · subst hxn; rw [hpnew] at hxa; cases hxa
    · rw [hpx x hxn] at hxa; exact hm.par_new x a hx hxa
  · intro x a hxa ha
    by_cases hxn : x = g.n
    · omega
    · rw [hpx x hxn] at hxa; exact hm.kids_new x a hxa ha
  · intro u' n hc
    rw [hcache] at hc
    obtain ⟨h1, h2, h3⟩ := hm.entries u' n hc
    exact ⟨h1, by omega, by rw [hux n (by omega)]; exact h3⟩
  · intro x hx hlt'
    rw [hcache]
    by_cases hxn : x = g.n
    · right
      exact ⟨g.n, by omega, by omega, (by rw [hirnew]; exact fun hh => by cases hh), by rw [hxn]⟩
    · rw [hux x hxn]
      rcases hm.owed x hx (by omega) with h1 | ⟨y, hy0, hyn, hyi, hyu⟩
      · exact .inl h1
      · exact .inr ⟨y, hy0, by omega, by rw [hir y hyn]; exact hyi, by rw [hux y (by omega)]; exact hyu⟩
  · intro x hx
    have hxn : x ≠ g.n := by omega
    obtain ⟨f1, f2, f3, f4⟩ := hm.frame x hx
    refine ⟨by rw [hpx x hxn]; exact f1, by rw [hkx x hxn]; exact f2, by rw [hux x hxn]; exact f3, ?_⟩
    intro s; rw [hkids]; simp only [alloc_kids, if_neg hxn]; exact f4 s
  · intro j hj u'; rw [hcache]; exact hm.rows j hj u'
  · intro y b hy hlt' hky hplb
    by_cases hyn : y = g.n
    · subst hyn
      rw [hknew] at hky
      obtain ⟨h1, h2, h3⟩ := hplnew hky b hplb
      exact ⟨h1, by omega, by rw [hkx b (by omega)]; exact h3⟩
    · rw [hkx y hyn] at hky; rw [hpl y hyn] at hplb
      obtain ⟨h1, h2, h3⟩ := hm.refs y b hy (by omega) hky hplb
      exact ⟨h1, by omega, by rw [hkx b (by omega)]; exact h3⟩

theorem Mid.of_alloc {g0 g : G} (hm : Mid g0 g) (k : Kind) (u : Nat) (hk : k ≠ .ir) (hs : k ≠ .symbol) :
    Mid g0 (alloc g k u).1 :=
  hm.of_alloc' k u hk rfl rfl rfl rfl rfl rfl (fun _ _ => rfl) (fun h => absurd h hs)

theorem AllCov.alloc' {g0 g g' : G} {R : Nat → Prop} (hm : Mid g0 g) (hc : AllCov g0.n g R) (k : Kind) (u : Nat)
    (hn : g'.n = g.n + 1) (hpar : g'.par = (alloc g k u).1.par) :
    AllCov g0.n g' (fun r => R r ∨ r = g.n) := by
  intro x hx hlt
  by_cases hxn : x = g.n
  · exact Cov.self (.inr hxn)
  · refine cov_step ?_ ((hc x hx (by omega)).mono (fun r hr => .inl hr))
    intro y a hya
    left
    have := (hm.forest.alloc y a hya).1
    rw [hpar]; simp only [alloc_par, if_neg (show y ≠ g.n by omega)]; exact hya

/-! ### table registration -/

theorem Mid.of_cacheSet {g0 g : G} (hm : Mid g0 g) {u v : Nat} (hv0 : g0.n ≤ v) (hvn : v < g.n) (hu : g.uuid v = u) :
    Mid g0 (cacheSet g g0.n u v) := by
  refine ⟨⟨hm.forest.mem_iff, hm.forest.nodup, hm.forest.kind_ok, hm.forest.alloc⟩, hm.lt, hm.kind_ir, hm.only_ir,
    hm.par_new, hm.kids_new, ?_, ?_, hm.frame, ?_, hm.refs⟩
  · intro u' n hc
    rw [cacheSet_cache] at hc
    split at hc
    · rename_i hh; cases hc; exact ⟨hv0, hvn, by rw [hh.2]; exact hu⟩
    · exact hm.entries u' n hc
  · intro x hx hlt
    rcases hm.owed x hx hlt with h1 | h1
    · left
      show ((cacheSet g g0.n u v).cache g0.n (g.uuid x)).isSome
      rw [cacheSet_cache]
      split
      · rfl
      · exact h1
    · right; exact h1
  · intro j hj u'
    rw [cacheSet_cache, if_neg (fun hh => hj hh.1)]
    exact hm.rows j hj u'

theorem Mid.of_setAll {g0 : G} : ∀ (L : List Nat) (g : G), Mid g0 g → (∀ y, y ∈ L → g0.n ≤ y ∧ y < g.n) →
    Mid g0 (cache_setAll g g0.n L)
  | [], _, hm, _ => hm
  | x :: L, g, hm, h => by
    show Mid g0 (cache_setAll (cacheSet g g0.n (g.uuid x) x) g0.n L)
    exact Mid.of_setAll L _ (hm.of_cacheSet (h x List.mem_cons_self).1 (h x List.mem_cons_self).2 rfl)
      (fun y hy => h y (List.mem_cons_of_mem _ hy))

theorem Mid.of_cacheAddInterval {g0 g : G} (hm : Mid g0 g) {v : Nat} (hv0 : g0.n ≤ v) (hvn : v < g.n) :
    Mid g0 (cacheAddInterval g g0.n v) := by
  rw [cache_addInterval_eq]
  apply Mid.of_setAll _ _ hm
  intro y hy
  unfold cache_walkI at hy
  rcases List.mem_cons.1 hy with rfl | hy
  · exact ⟨hv0, hvn⟩
  · have := (hm.forest.mem_iff _ _ _).1 hy
    exact ⟨hm.kids_new y v this.1 hv0, (hm.forest.alloc y v this.1).1⟩

/-! ### the new IR -/

/-- every new node is attached to the new IR -/
def AllAtt (g0 g : G) : Prop := ∀ x, g0.n ≤ x → x < g.n → irOf g x = some g0.n

theorem mkIR_cache (g : G) (u i' u' : Nat) :
    (mkIR g u).cache i' u' = if i' = g.n ∧ u' = u then some g.n else if i' = g.n then none else g.cache i' u' := rfl

theorem mid_mkIR {g : G} (hf : ForestInv g) (u : Nat) : Mid g (mkIR g u) ∧ AllAtt g (mkIR g u) := by
  have hn : (mkIR g u).n = g.n + 1 := rfl
  have hk : (mkIR g u).kind = (alloc g .ir u).1.kind := rfl
  have hu : (mkIR g u).uuid = (alloc g .ir u).1.uuid := rfl
  have hp : (mkIR g u).par = (alloc g .ir u).1.par := rfl
  have hkids : (mkIR g u).kids = (alloc g .ir u).1.kids := rfl
  have hpl : (mkIR g u).payload = g.payload := rfl
  have hknew : (mkIR g u).kind g.n = .ir := by rw [hk]; simp
  have hpold : ∀ x a, (mkIR g u).par x = some a → x < g.n ∧ a < g.n ∧ g.par x = some a := by
    intro x a hxa
    rw [hp] at hxa
    simp only [alloc_par] at hxa
    split at hxa
    · cases hxa
    · exact ⟨(hf.alloc x a hxa).1, (hf.alloc x a hxa).2, hxa⟩
  refine ⟨⟨hf.mkIR u, by omega, hknew, ?_, ?_, ?_, ?_, ?_, ?_, ?_, ?_⟩, ?_⟩
  · intro x hx hlt _; rw [hn] at hlt; omega
  · intro x a hx hxa; have := hpold x a hxa; omega
  · intro x a hxa ha; have := hpold x a hxa; omega
  · intro u' n hc
    rw [mkIR_cache] at hc
    split at hc
    · rename_i hh; cases hc
      refine ⟨Nat.le_refl _, by omega, ?_⟩
      rw [hu]; simp [hh.2]
    · simp at hc
  · intro x hx hlt
    rw [hn] at hlt
    have : x = g.n := by omega
    subst this
    left
    rw [mkIR_cache, if_pos ⟨rfl, by rw [hu]; simp⟩]; rfl
  · intro x hx
    have hxn : x ≠ g.n := by omega
    refine ⟨by rw [hp]; simp [hxn], by rw [hk]; simp [hxn], by rw [hu]; simp [hxn], ?_⟩
    intro s; rw [hkids]; simp [hxn]
  · intro j hj u'
    rw [mkIR_cache, if_neg (fun hh => hj hh.1), if_neg hj]
  · intro y b hy hlt hky _
    rw [hn] at hlt
    have : y = g.n := by omega
    subst this
    rw [hknew] at hky; cases hky
  · intro x hx hlt
    rw [hn] at hlt
    have : x = g.n := by omega
    subst this
    exact cache_irOf_ir hknew

/-- `ir.modules.append(v)` for the decoded (or re-used) module: everything new is attached afterwards and
every new node's UUID has an entry -/
theorem modAppend_outer {g0 g g' : G} {v : Nat} (hm : Mid g0 g) (hv0 : g0.n ≤ v) (hvn : v < g.n)
    (hkv : g.kind v = .module) (hcov : AllCov g0.n g (fun r => r = g0.n ∨ r = v))
    (h : modAppend g g0.n v = .ok g') : Mid g0 g' ∧ AllAtt g0 g' := by
  have hpi := hm.forest.cache_parInv
  have hc : ChildOK g g0.n .mods v := ⟨hm.lt, hvn, by rw [hkv]; rfl, by rw [hkv, hm.kind_ir]; rfl⟩
  have hsh := cache_modAppend_shape h
  have hf' := hm.forest.modAppend hc h
  have hkv' : g.kind v ≠ .ir := by rw [hkv]; decide
  have hvne : v ≠ g0.n := by intro e; rw [e, hm.kind_ir] at hkv; cases hkv
  have hkir' : g'.kind g0.n = .ir := by rw [hsh.kind]; exact hm.kind_ir
  -- everything new hangs below the IR
  have hcov' : AllCov g0.n g' (· = g0.n) := by
    refine (hcov.step hsh.n ?_).shrink ?_
    · intro x a hxa
      by_cases hxv : x = v
      · right; exact ⟨g0.n, .inl rfl, by rw [hxv]; exact hsh.parv⟩
      · left; rw [hsh.par x hxv]; exact hxa
    · rintro r (rfl | rfl)
      · exact Cov.self rfl
      · exact ⟨g0.n, rfl, .step hsh.parv .refl⟩
  have hatt : AllAtt g0 g' := by
    intro x hx hlt
    obtain ⟨r, rfl, hd⟩ := hcov' x hx hlt
    rw [cache_desc_irOf hf'.cache_parInv hd, cache_irOf_ir hkir']
  refine ⟨?_, hatt⟩
  -- the table
  obtain ⟨gX, hless, hkX, huX, hkidsX, hcache⟩ := modAppend_cache h
  have hW : cache_walk gX.kids (gX.kind v) v = cache_walk g.kids (g.kind v) v := by
    rw [hkX]; exact cache_walk_kids_congr hkidsX _ _
  have hWd : ∀ y, y ∈ cache_walk g.kids (g.kind v) v ↔ CacheDesc g v y :=
    fun y => cache_mem_walk_iff hm.forest hkv'
  have hcases : ∀ i' u', (∃ y, CacheDesc g v y ∧ g.uuid y = u' ∧ i' = g0.n ∧ g'.cache i' u' = some y) ∨
      (g'.cache i' u' = gX.cache i' u' ∧ ¬ (i' = g0.n ∧ ∃ y, CacheDesc g v y ∧ g.uuid y = u')) := by
    intro i' u'
    rw [hcache, cache_cacheAdd_eq, hW]
    rcases setAll_cases g0.n (cache_walk g.kids (g.kind v) v) gX i' u' with ⟨y, hy, hyu, hi, hc⟩ | ⟨hc, hno⟩
    · left; exact ⟨y, (hWd y).1 hy, by rw [← huX]; exact hyu, hi, hc⟩
    · right
      refine ⟨hc, ?_⟩
      rintro ⟨hi, y, hy, hyu⟩
      exact hno ⟨hi, y, (hWd y).2 hy, by rw [huX]; exact hyu⟩
  have hparv_ir : ∀ j, g.par v = some j → j = g0.n := by
    intro j hj
    have hk := hm.forest.kind_ok v j hj
    rw [hkv] at hk
    exact hm.only_ir j (hm.par_new v j hv0 hj) (hpi.alloc v j hj).2 (cache_parent_of_module hk)
  refine ⟨hf', by rw [hsh.n]; exact hm.lt, hkir', ?_, ?_, ?_, ?_, ?_, ?_, ?_, ?_⟩
  · intro x hx hlt hkx
    rw [hsh.n] at hlt; rw [hsh.kind] at hkx
    exact hm.only_ir x hx hlt hkx
  · intro x a hx hxa
    by_cases hxv : x = v
    · subst hxv; rw [hsh.parv] at hxa; cases hxa; exact Nat.le_refl _
    · rw [hsh.par x hxv] at hxa; exact hm.par_new x a hx hxa
  · intro x a hxa ha
    by_cases hxv : x = v
    · subst hxv; exact hv0
    · rw [hsh.par x hxv] at hxa; exact hm.kids_new x a hxa ha
  · intro u' n hc
    rw [hsh.n, hsh.uuid]
    rcases hcases g0.n u' with ⟨y, hy, hyu, _, hc'⟩ | ⟨hc', _⟩
    · rw [hc'] at hc; cases hc
      exact ⟨hm.desc_new hy hv0, cache_desc_lt hpi hy hvn, hyu⟩
    · rw [hc'] at hc
      rcases hless g0.n u' with e | ⟨e, _⟩
      · rw [e] at hc; exact hm.entries u' n hc
      · rw [e] at hc; cases hc
  · intro x hx hlt
    rw [hsh.n] at hlt
    left
    rw [hsh.uuid]
    rcases hcases g0.n (g.uuid x) with ⟨y, _, _, _, hc'⟩ | ⟨hc', hno⟩
    · rw [hc']; rfl
    · rw [hc']
      rcases hm.owed x hx hlt with h1 | ⟨y, hy0, hyn, hyi, hyu⟩
      · rcases hless g0.n (g.uuid x) with e | ⟨_, _, y, hy, hyu⟩
        · rw [e]; exact h1
        · exact absurd ⟨rfl, y, (hWd y).1 hy, hyu⟩ hno
      · obtain ⟨r, hr, hd⟩ := hcov y hy0 hyn
        rcases hr with rfl | rfl
        · exact absurd (by rw [cache_desc_irOf hpi hd, cache_irOf_ir hm.kind_ir]) hyi
        · exact absurd ⟨rfl, y, hd, hyu⟩ hno
  · intro x hx
    have hxv : x ≠ v := by omega
    obtain ⟨f1, f2, f3, f4⟩ := hm.frame x hx
    refine ⟨by rw [hsh.par x hxv]; exact f1, by rw [hsh.kind]; exact f2, by rw [hsh.uuid]; exact f3, ?_⟩
    intro s
    rw [modAppend_kids_other h (by omega) ?_ s]
    · exact f4 s
    · intro hpv
      have := hm.par_new v x hv0 hpv
      omega
  · intro j hj u'
    rcases hcases j u' with ⟨_, _, _, hi, _⟩ | ⟨hc', _⟩
    · exact absurd hi hj
    · rw [hc']
      rcases hless j u' with e | ⟨_, e, _⟩
      · rw [e]; exact hm.rows j hj u'
      · exact absurd (hparv_ir j e) hj
  · intro y b hy hlt hky hpl
    rw [hsh.n] at hlt; rw [hsh.kind] at hky; rw [modAppend_payload h] at hpl
    rw [hsh.n, hsh.kind]
    exact hm.refs y b hy hlt hky hpl

/-! ## Part F: the decoders -/

/-- progress of the decoder that leaves the back-pointers of the existing nodes of rank `≤ k` alone -/
structure Step (k : Nat) (g g' : G) : Prop where
  grows : Grows g g'
  par : ∀ x, x < g.n → cache_rank (g.kind x) ≤ k → g'.par x = g.par x

theorem Step.refl (k : Nat) (g : G) : Step k g g := ⟨(Stable.refl g).grows, fun _ _ _ => rfl⟩

theorem Step.trans {k : Nat} {a b c : G} (h1 : Step k a b) (h2 : Step k b c) : Step k a c := by
  refine ⟨h1.grows.trans h2.grows, ?_⟩
  intro x hx hr
  have hxb : x < b.n := Nat.lt_of_lt_of_le hx h1.grows.1
  rw [h2.par x hxb (by rw [(h1.grows.2 x hx).1]; exact hr), h1.par x hx hr]

theorem Step.mono {k k' : Nat} {g g' : G} (h : Step k g g') (hk : k' ≤ k) : Step k' g g' :=
  ⟨h.grows, fun x hx hr => h.par x hx (Nat.le_trans hr hk)⟩

theorem Step.of_alloc (g : G) (k : Kind) (u : Nat) : Step 4 g (alloc g k u).1 :=
  ⟨grows_alloc g k u, fun x hx _ => by simp [Nat.ne_of_lt hx]⟩

theorem Step.of_eq {k : Nat} {g g' : G} (hn : g'.n = g.n) (hk : g'.kind = g.kind) (hu : g'.uuid = g.uuid)
    (hp : g'.par = g.par) : Step k g g' :=
  ⟨(Stable.grows ⟨hn, hk, hu⟩), fun x _ _ => by rw [hp]⟩

theorem Step.of_moved {g0 g g' : G} {p : Nat} {D : Nat → Prop} (h : Moved g0 g g' p D) {k : Nat}
    (hD : ∀ v, D v → k < cache_rank (g.kind v)) : Step k g g' :=
  ⟨h.stable.grows, fun x _ hr => h.par_out x (fun hd => by have := hD x hd; omega)⟩

theorem Step.kind_eq {k : Nat} {g g' : G} (h : Step k g g') {x : Nat} (hx : x < g.n) : g'.kind x = g.kind x :=
  (h.grows.2 x hx).1

theorem Step.lt {k : Nat} {g g' : G} (h : Step k g g') {x : Nat} (hx : x < g.n) : x < g'.n :=
  Nat.lt_of_lt_of_le hx h.grows.1

/-- what the decoder of one element guarantees (`R`: the pending roots before) -/
structure DecOk (g0 : G) (k : Nat) (K : Kind → Prop) (R : Nat → Prop) (g g' : G) (v : Nat) : Prop where
  mid : Mid g0 g'
  cov : AllCov g0.n g' (fun r => R r ∨ r = v)
  step : Step k g g'
  new : g0.n ≤ v
  lt : v < g'.n
  kind : K (g'.kind v)

structure DecsOk (g0 : G) (k : Nat) (K : Kind → Prop) (R : Nat → Prop) (g g' : G) (vs : List Nat) : Prop where
  mid : Mid g0 g'
  cov : AllCov g0.n g' (fun r => R r ∨ r ∈ vs)
  step : Step k g g'
  all : ∀ v, v ∈ vs → g0.n ≤ v ∧ v < g'.n ∧ K (g'.kind v)

/-- the common shape of `decodeBlocks` (and of the list decoders `decodeIntervals`, ..., which
`decodeSection` / `decodeModule` do not use: they run `decodeAttach`) -/
def decodeList {α : Type} (f : G → α → Except LErr (G × Nat)) : G → List α → Except LErr (G × List Nat)
  | g, [] => .ok (g, [])
  | g, a :: as =>
    match f g a with
    | .error e => .error e
    | .ok (g1, v) =>
      match decodeList f g1 as with
      | .error e => .error e
      | .ok (g2, vs) => .ok (g2, v :: vs)

theorem decodeList_ok {α : Type} {f : G → α → Except LErr (G × Nat)} {g0 : G} {k : Nat} {K : Kind → Prop}
    (hf : ∀ (R : Nat → Prop) g a g' v, Mid g0 g → AllCov g0.n g R → f g a = .ok (g', v) → DecOk g0 k K R g g' v) :
    ∀ (as : List α) (R : Nat → Prop) (g g' : G) (vs : List Nat), Mid g0 g → AllCov g0.n g R →
      decodeList f g as = .ok (g', vs) → DecsOk g0 k K R g g' vs := by
  intro as
  induction as with
  | nil =>
    intro R g g' vs hm hc h
    cases h
    exact ⟨hm, hc.mono (fun r hr => .inl hr), Step.refl _ _, fun v hv => by cases hv⟩
  | cons a as ih =>
    intro R g g' vs hm hc h
    simp only [decodeList] at h
    split at h
    · cases h
    · rename_i g1 v h1
      split at h
      · cases h
      · rename_i g2 vs' h2
        have d1 := hf R g a g1 v hm hc h1
        have d2 := ih _ g1 g2 vs' d1.mid d1.cov h2
        cases h
        refine ⟨d2.mid, d2.cov.mono ?_, d1.step.trans d2.step, ?_⟩
        · rintro r ((hr | rfl) | hr)
          · exact .inl hr
          · exact .inr List.mem_cons_self
          · exact .inr (List.mem_cons_of_mem _ hr)
        · intro w hw
          rcases List.mem_cons.1 hw with rfl | hw
          · exact ⟨d1.new, d2.step.lt d1.lt, by rw [d2.step.kind_eq d1.lt]; exact d1.kind⟩
          · exact d2.all w hw

theorem decodeBlocks_eq (ir : Nat) : ∀ (bs : List (Nat × Bool)) (g : G),
    decodeBlocks ir g bs = decodeList (fun g b => decodeBlock g ir b) g bs
  | [], _ => rfl
  | b :: bs, g => by
    simp only [decodeBlocks, decodeList]
    cases decodeBlock g ir b with
    | error e => rfl
    | ok r =>
      obtain ⟨g1, v⟩ := r
      simp only [decodeBlocks_eq ir bs g1]
      cases decodeList (fun g b => decodeBlock g ir b) g1 bs <;> rfl

theorem decodeIntervals_eq (ir : Nat) : ∀ (xs : List SkInterval) (g : G),
    decodeIntervals ir g xs = decodeList (fun g x => decodeInterval g ir x) g xs
  | [], _ => rfl
  | x :: xs, g => by
    simp only [decodeIntervals, decodeList]
    cases decodeInterval g ir x with
    | error e => rfl
    | ok r =>
      obtain ⟨g1, v⟩ := r
      simp only [decodeIntervals_eq ir xs g1]
      cases decodeList (fun g x => decodeInterval g ir x) g1 xs <;> rfl

theorem decodeSections_eq (ir : Nat) : ∀ (xs : List SkSection) (g : G),
    decodeSections ir g xs = decodeList (fun g x => decodeSection g ir x) g xs
  | [], _ => rfl
  | x :: xs, g => by
    simp only [decodeSections, decodeList]
    cases decodeSection g ir x with
    | error e => rfl
    | ok r =>
      obtain ⟨g1, v⟩ := r
      simp only [decodeSections_eq ir xs g1]
      cases decodeList (fun g x => decodeSection g ir x) g1 xs <;> rfl

theorem decodeProxies_eq (ir : Nat) : ∀ (xs : List Nat) (g : G),
    decodeProxies ir g xs = decodeList (fun g x => decodeProxy g ir x) g xs
  | [], _ => rfl
  | x :: xs, g => by
    simp only [decodeProxies, decodeList]
    cases decodeProxy g ir x with
    | error e => rfl
    | ok r =>
      obtain ⟨g1, v⟩ := r
      simp only [decodeProxies_eq ir xs g1]
      cases decodeList (fun g x => decodeProxy g ir x) g1 xs <;> rfl

theorem decodeSymbols_eq (ir : Nat) : ∀ (xs : List SkSymbol) (g : G),
    decodeSymbols ir g xs = decodeList (fun g x => decodeSymbol g ir x) g xs
  | [], _ => rfl
  | x :: xs, g => by
    simp only [decodeSymbols, decodeList]
    cases decodeSymbol g ir x with
    | error e => rfl
    | ok r =>
      obtain ⟨g1, v⟩ := r
      simp only [decodeSymbols_eq ir xs g1]
      cases decodeList (fun g x => decodeSymbol g ir x) g1 xs <;> rfl

theorem fromProto_cases {g g1 : G} {i : Nat} {k : Kind} {u v : Nat} {fresh : Bool}
    (h : fromProto g i k u = .ok (g1, v, fresh)) :
    (fresh = false ∧ g1 = g ∧ g.cache i u = some v ∧ g.kind v = k) ∨
    (fresh = true ∧ g1 = (alloc g k u).1 ∧ v = g.n ∧ g.cache i u = none) := by
  unfold fromProto at h
  split at h
  · rename_i n hn
    split at h
    · rename_i hk
      cases h
      exact .inl ⟨rfl, rfl, hn, hk⟩
    · cases h
  · rename_i hn
    cases h
    exact .inr ⟨rfl, rfl, rfl, hn⟩

theorem liftE_ok {x : Except Exc G} {g : G} (h : liftE x = .ok g) : x = .ok g := by
  unfold liftE at h
  split at h
  · cases h; rfl
  · cases h

/-- a fresh node that registers itself at once -/
theorem fresh_reg {g0 g : G} {R : Nat → Prop} (hm : Mid g0 g) (hc : AllCov g0.n g R) (k : Kind) (u : Nat)
    (hk : k ≠ .ir) (hs : k ≠ .symbol) :
    Mid g0 (cacheSet (alloc g k u).1 g0.n u g.n) ∧
    AllCov g0.n (cacheSet (alloc g k u).1 g0.n u g.n) (fun r => R r ∨ r = g.n) ∧
    Step 4 g (cacheSet (alloc g k u).1 g0.n u g.n) := by
  refine ⟨?_, ?_, ?_⟩
  · exact (hm.of_alloc k u hk hs).of_cacheSet (v := g.n) (Nat.le_of_lt hm.lt) (by simp) (by simp)
  · exact (AllCov.alloc' hm hc k u rfl rfl).of_par_eq rfl rfl
  · exact (Step.of_alloc g k u).trans (Step.of_eq rfl rfl rfl rfl)

theorem decodeBlock_ok {g0 : G} (R : Nat → Prop) (g : G) (b : Nat × Bool) (g' : G) (v : Nat) (hm : Mid g0 g)
    (hc : AllCov g0.n g R) (h : decodeBlock g g0.n b = .ok (g', v)) :
    DecOk g0 4 (fun kd => kd = .code ∨ kd = .data) R g g' v := by
  unfold decodeBlock at h
  split at h
  · cases h
  · rename_i g1 v1 fresh hfp
    have hkk : (if b.2 = true then Kind.code else Kind.data) = .code ∨
        (if b.2 = true then Kind.code else Kind.data) = .data := by
      cases b.2 <;> simp
    rcases fromProto_cases hfp with ⟨rfl, rfl, hcv, hkv⟩ | ⟨rfl, rfl, rfl, _⟩
    · simp only [Bool.false_eq_true, if_false] at h
      cases h
      obtain ⟨h1, h2, _⟩ := hm.entries _ _ hcv
      exact ⟨hm, hc.mono (fun r hr => .inl hr), Step.refl _ _, h1, h2, by rw [hkv]; exact hkk⟩
    · simp only [if_true] at h
      cases h
      have hk : (if b.2 = true then Kind.code else Kind.data) ≠ .ir := by cases b.2 <;> simp
      have hs : (if b.2 = true then Kind.code else Kind.data) ≠ .symbol := by cases b.2 <;> simp
      obtain ⟨a1, a2, a3⟩ := fresh_reg hm hc _ b.1 hk hs
      refine ⟨a1, a2, a3, Nat.le_of_lt hm.lt, Nat.lt_succ_self _, ?_⟩
      show (alloc g _ b.1).1.kind g.n = _ ∨ (alloc g _ b.1).1.kind g.n = _
      simp only [alloc_kind, if_true]
      exact hkk

theorem decodeProxy_ok {g0 : G} (R : Nat → Prop) (g : G) (u : Nat) (g' : G) (v : Nat) (hm : Mid g0 g)
    (hc : AllCov g0.n g R) (h : decodeProxy g g0.n u = .ok (g', v)) :
    DecOk g0 4 (fun kd => kd = .proxy) R g g' v := by
  unfold decodeProxy at h
  split at h
  · cases h
  · rename_i g1 v1 fresh hfp
    rcases fromProto_cases hfp with ⟨rfl, rfl, hcv, hkv⟩ | ⟨rfl, rfl, rfl, _⟩
    · simp only [Bool.false_eq_true, if_false] at h
      cases h
      obtain ⟨h1, h2, _⟩ := hm.entries _ _ hcv
      exact ⟨hm, hc.mono (fun r hr => .inl hr), Step.refl _ _, h1, h2, hkv⟩
    · simp only [if_true] at h
      cases h
      obtain ⟨a1, a2, a3⟩ := fresh_reg hm hc .proxy u (by decide) (by decide)
      refine ⟨a1, a2, a3, Nat.le_of_lt hm.lt, Nat.lt_succ_self _, ?_⟩
      show (alloc g .proxy u).1.kind g.n = _
      simp

theorem decodeInterval_ok {g0 : G} (R : Nat → Prop) (g : G) (x : SkInterval) (g' : G) (v : Nat) (hm : Mid g0 g)
    (hc : AllCov g0.n g R) (h : decodeInterval g g0.n x = .ok (g', v)) :
    DecOk g0 3 (fun kd => kd = .interval) R g g' v := by
  unfold decodeInterval at h
  split at h
  · cases h
  · rename_i g1 v1 fresh hfp
    rcases fromProto_cases hfp with ⟨rfl, rfl, hcv, hkv⟩ | ⟨rfl, rfl, rfl, _⟩
    · simp only [Bool.not_false, if_true] at h
      cases h
      obtain ⟨h1, h2, _⟩ := hm.entries _ _ hcv
      exact ⟨hm, hc.mono (fun r hr => .inl hr), Step.refl _ _, h1, h2, hkv⟩
    · simp only [Bool.not_true, Bool.false_eq_true, if_false] at h
      split at h
      · cases h
      · rename_i g2 bs hbs
        split at h
        · cases h
        · rename_i g3 hblk
          cases h
          have hblk' := liftE_ok hblk
          have hm1 : Mid g0 (alloc g .interval x.uuid).1 := hm.of_alloc _ _ (by decide) (by decide)
          have hc1 := AllCov.alloc' hm hc .interval x.uuid rfl rfl
          rw [decodeBlocks_eq] at hbs
          have d := decodeList_ok (fun R g a g' v => decodeBlock_ok R g a g' v) _ _ _ _ _ hm1 hc1 hbs
          have hI0 : g0.n ≤ g.n := Nat.le_of_lt hm.lt
          have hI1 : g.n < (alloc g .interval x.uuid).1.n := Nat.lt_succ_self _
          have hI2 : g.n < g2.n := d.step.lt hI1
          have hpar2 : g2.par g.n = none := by
            rw [d.step.par g.n hI1 (rank_le_four _)]; simp
          have hkind2 : g2.kind g.n = .interval := by
            rw [d.step.kind_eq hI1]; simp
          have hmv := blkUpdate_moved d.mid hI0 hI2 hpar2 hkind2 (fun v hv => d.all v hv) hblk'
          have hm3 := d.mid.moved hmv hI0 (fun v hv => by
            have := d.all v (mem_blkNew.1 hv).1; exact ⟨this.1, this.2.1⟩)
          have hparbs : ∀ r, r ∈ bs → g3.par r = some g.n := by
            intro r hr
            by_cases hn : r ∈ blkNew g2 g.n bs
            · exact hmv.par_in r hn
            · rw [hmv.par_out r hn]
              have hk : r ∈ g2.kids g.n .blocks := by
                apply Classical.byContradiction
                intro hk; exact hn (mem_blkNew.2 ⟨hr, hk⟩)
              exact ((d.mid.forest.mem_iff _ _ _).1 hk).1
          have hc3 : AllCov g0.n g3 (fun r => R r ∨ r = g.n) := by
            refine (hmv.cov (R := fun r => (R r ∨ r = g.n) ∨ r ∈ bs) (.inl (.inr rfl)) d.cov).shrink ?_
            rintro r ((hr | rfl) | hr)
            · exact Cov.self (.inl hr)
            · exact Cov.self (.inr rfl)
            · exact ⟨g.n, .inr rfl, .step (hparbs r hr) .refl⟩
          have hI3 : g.n < g3.n := by rw [hmv.stable.n]; exact hI2
          have hoc := onlyCache_cacheAddInterval g3 g0.n g.n
          have st14 : Step 3 (alloc g .interval x.uuid).1 (cacheAddInterval g3 g0.n g.n) := by
            refine (d.step.mono (by omega)).trans ((Step.of_moved hmv ?_).trans
              (Step.of_eq hoc.n hoc.kind hoc.uuid hoc.par))
            intro v hv
            rcases (d.all v (mem_blkNew.1 hv).1).2.2 with e | e <;> rw [e] <;> simp [cache_rank]
          refine ⟨hm3.of_cacheAddInterval hI0 hI3, hc3.of_par_eq hoc.n hoc.par,
            ((Step.of_alloc g _ _).mono (by omega)).trans st14, hI0, st14.lt hI1, ?_⟩
          show (cacheAddInterval g3 g0.n g.n).kind g.n = .interval
          rw [st14.kind_eq hI1]; simp

/-- the loop `for x in xs: p.<coll>.add(x)` on a detached new node `p` (all children decoded first; the
decoders of sections and modules interleave decoding and adding instead, see `decodeAttach_ok`) -/
theorem foldE_setAdd_ok {g0 : G} {p : Nat} {s : Slot} (hp0 : g0.n ≤ p) : ∀ (xs : List Nat) (g g' : G) (R : Nat → Prop),
    Mid g0 g → AllCov g0.n g R → R p → g.par p = none → g.kind p ≠ .ir →
    (∀ x, x ∈ xs → g0.n ≤ x ∧ ChildOK g p s x) →
    foldE (fun g x => setAdd g p s x) xs g = .ok g' →
    Mid g0 g' ∧ AllCov g0.n g' R ∧ Stable g g' := by
  intro xs
  induction xs with
  | nil =>
    intro g g' R hm hc _ _ _ _ h
    cases h
    exact ⟨hm, hc, Stable.refl _⟩
  | cons x xs ih =>
    intro g g' R hm hc hRp hpp hkp hxs h
    obtain ⟨g1, h1, h2⟩ := foldE_cons_ok h
    obtain ⟨hx0, hxc⟩ := hxs x List.mem_cons_self
    have hmv := setAdd_moved hm hp0 hpp hkp hx0 hxc h1
    have hm1 := hm.moved hmv hp0 (fun v hv => by subst hv; exact ⟨hx0, hxc.2.1⟩)
    have hc1 := hmv.cov hRp hc
    have hpx : p ≠ x := (cache_ne_of_parentKind hxc.2.2.2).symm
    obtain ⟨r1, r2, r3⟩ := ih g1 g' R hm1 hc1 hRp (by rw [hmv.par_out p hpx]; exact hpp)
      (by rw [hmv.stable.kind]; exact hkp)
      (fun y hy => ⟨(hxs y (List.mem_cons_of_mem _ hy)).1,
        (childOK_stable hmv.stable p s y).2 (hxs y (List.mem_cons_of_mem _ hy)).2⟩) h2
    exact ⟨r1, r2, hmv.stable.trans r3⟩

/-- decode a list of children, then attach them to the detached new node `p` -/
theorem attach_phase {g0 ga gb gc : G} {R : Nat → Prop} {p : Nat} {s : Slot} {k : Nat} {K : Kind → Prop}
    {xs : List Nat} (d : DecsOk g0 k K R ga gb xs) (hRp : R p) (hp0 : g0.n ≤ p) (hpn : p < ga.n)
    (hpp : ga.par p = none) (hkp : ga.kind p ≠ .ir) (hrk : cache_rank (ga.kind p) ≤ k)
    (hK : ∀ kd, K kd → slotOf kd = some s ∧ parentKind kd = some (ga.kind p))
    (h : foldE (fun g x => setAdd g p s x) xs gb = .ok gc) :
    Mid g0 gc ∧ AllCov g0.n gc R ∧ Step (cache_rank (ga.kind p)) ga gc := by
  have hppb : gb.par p = none := by rw [d.step.par p hpn hrk]; exact hpp
  have hkb : gb.kind p = ga.kind p := d.step.kind_eq hpn
  have hpnb : p < gb.n := d.step.lt hpn
  have hch : ∀ x, x ∈ xs → g0.n ≤ x ∧ ChildOK gb p s x := by
    intro x hx
    obtain ⟨h1, h2, h3⟩ := d.all x hx
    exact ⟨h1, hpnb, h2, (hK _ h3).1, by rw [hkb]; exact (hK _ h3).2⟩
  obtain ⟨r1, r2, r3⟩ := foldE_setAdd_ok hp0 xs gb gc (fun r => R r ∨ r ∈ xs) d.mid d.cov (.inl hRp) hppb
    (by rw [hkb]; exact hkp) hch h
  have hpar := foldE_setAdd_par xs h
  refine ⟨r1, r2.shrink ?_, (d.step.mono hrk).trans ⟨r3.grows, ?_⟩⟩
  · rintro r (hr | hr)
    · exact Cov.self hr
    · exact ⟨p, hRp, .step (by rw [hpar, if_pos hr]) .refl⟩
  · intro x _ hr
    rw [hpar, if_neg]
    intro hx
    have := cache_rank_parentKind (hK _ (d.all x hx).2.2).2
    omega

/-- `p.<coll>.update(dec(c) for c in children)` on a detached new node `p`: decode one child, add it,
decode the next (`decodeAttach`) -/
theorem decodeAttach_ok {α : Type} {dec : G → Nat → α → Except LErr (G × Nat)} {g0 : G} {k : Nat}
    {K : Kind → Prop} {p : Nat} {s : Slot} {kp : Kind}
    (hf : ∀ (R : Nat → Prop) g a g' v, Mid g0 g → AllCov g0.n g R → dec g g0.n a = .ok (g', v) →
      DecOk g0 k K R g g' v)
    (hp0 : g0.n ≤ p) (hkp : kp ≠ .ir) (hrk : cache_rank kp ≤ k)
    (hK : ∀ kd, K kd → slotOf kd = some s ∧ parentKind kd = some kp) :
    ∀ (as : List α) (R : Nat → Prop) (g g' : G), Mid g0 g → AllCov g0.n g R → R p → p < g.n →
      g.par p = none → g.kind p = kp → decodeAttach dec g0.n p s g as = .ok g' →
      Mid g0 g' ∧ AllCov g0.n g' R ∧ Step (cache_rank kp) g g' := by
  intro as
  induction as with
  | nil =>
    intro R g g' hm hc _ _ _ _ h
    cases h
    exact ⟨hm, hc, Step.refl _ _⟩
  | cons a as ih =>
    intro R g g' hm hc hRp hpn hpp hkind h
    simp only [decodeAttach] at h
    split at h
    · cases h
    · rename_i g1 v h1
      split at h
      · cases h
      · rename_i g2 h2
        have d1 := hf R g a g1 v hm hc h1
        have hppb : g1.par p = none := by
          rw [d1.step.par p hpn (by rw [hkind]; exact hrk)]; exact hpp
        have hkb : g1.kind p = kp := (d1.step.kind_eq hpn).trans hkind
        have hpnb : p < g1.n := d1.step.lt hpn
        have hch : ChildOK g1 p s v := ⟨hpnb, d1.lt, (hK _ d1.kind).1, by rw [hkb]; exact (hK _ d1.kind).2⟩
        have hmv := setAdd_moved d1.mid hp0 hppb (by rw [hkb]; exact hkp) d1.new hch (liftE_ok h2)
        have hm2 := d1.mid.moved hmv hp0 (fun w hw => by subst hw; exact ⟨d1.new, d1.lt⟩)
        have hc2 : AllCov g0.n g2 R := by
          refine (hmv.cov (R := fun r => R r ∨ r = v) (.inl hRp) d1.cov).shrink ?_
          rintro r (hr | rfl)
          · exact Cov.self hr
          · exact ⟨p, hRp, .step (hmv.par_in r rfl) .refl⟩
        have hpv : p ≠ v := (cache_ne_of_parentKind hch.2.2.2).symm
        have st12 : Step (cache_rank kp) g1 g2 := by
          refine Step.of_moved hmv ?_
          intro w hw
          subst hw
          have := cache_rank_parentKind (hK _ d1.kind).2
          omega
        obtain ⟨r1, r2, r3⟩ := ih R g2 g' hm2 hc2 hRp (by rw [hmv.stable.n]; exact hpnb)
          (by rw [hmv.par_out p hpv]; exact hppb) (by rw [hmv.stable.kind]; exact hkb) h
        exact ⟨r1, r2, (d1.step.mono hrk).trans (st12.trans r3)⟩

theorem decodeSection_ok {g0 : G} (R : Nat → Prop) (g : G) (x : SkSection) (g' : G) (v : Nat) (hm : Mid g0 g)
    (hc : AllCov g0.n g R) (h : decodeSection g g0.n x = .ok (g', v)) :
    DecOk g0 2 (fun kd => kd = .section) R g g' v := by
  unfold decodeSection at h
  split at h
  · cases h
  · rename_i g1 v1 fresh hfp
    rcases fromProto_cases hfp with ⟨rfl, rfl, hcv, hkv⟩ | ⟨rfl, rfl, rfl, _⟩
    · simp only [Bool.not_false, if_true] at h
      cases h
      obtain ⟨h1, h2, _⟩ := hm.entries _ _ hcv
      exact ⟨hm, hc.mono (fun r hr => .inl hr), Step.refl _ _, h1, h2, hkv⟩
    · simp only [Bool.not_true, Bool.false_eq_true, if_false] at h
      split at h
      · cases h
      · rename_i g4 hatt
        cases h
        obtain ⟨a1, a2, a3⟩ := fresh_reg hm hc .section x.uuid (by decide) (by decide)
        have hS1 : g.n < (cacheSet (alloc g .section x.uuid).1 g0.n x.uuid g.n).n := Nat.lt_succ_self _
        have hkS : (cacheSet (alloc g .section x.uuid).1 g0.n x.uuid g.n).kind g.n = .section := by
          show (alloc g .section x.uuid).1.kind g.n = _; simp
        obtain ⟨r1, r2, r3⟩ := decodeAttach_ok (s := .bis) (kp := .section) (k := 3)
          (K := fun kd => kd = .interval)
          (fun R g a g' v => decodeInterval_ok R g a g' v) (Nat.le_of_lt hm.lt) (by decide) (by decide)
          (by intro kd hkd; subst hkd; exact ⟨rfl, rfl⟩) _ _ _ _ a1 a2 (.inr rfl) hS1
          (by show (alloc g .section x.uuid).1.par g.n = _; simp) hkS hatt
        have r3' : Step 2 _ g' := r3
        refine ⟨r1, r2, (a3.mono (by omega)).trans r3', Nat.le_of_lt hm.lt, r3'.lt hS1, ?_⟩
        show g'.kind g.n = .section
        rw [r3'.kind_eq hS1]; exact hkS

theorem decodeSymbol_ok {g0 : G} (R : Nat → Prop) (g : G) (x : SkSymbol) (g' : G) (v : Nat) (hm : Mid g0 g)
    (hc : AllCov g0.n g R) (h : decodeSymbol g g0.n x = .ok (g', v)) :
    DecOk g0 4 (fun kd => kd = .symbol) R g g' v := by
  unfold decodeSymbol at h
  split at h
  · cases h
  · rename_i g1 v1 fresh hfp
    rcases fromProto_cases hfp with ⟨rfl, rfl, hcv, hkv⟩ | ⟨rfl, rfl, rfl, _⟩
    · simp only [Bool.not_false, if_true] at h
      cases h
      obtain ⟨h1, h2, _⟩ := hm.entries _ _ hcv
      exact ⟨hm, hc.mono (fun r hr => .inl hr), Step.refl _ _, h1, h2, hkv⟩
    · simp only [Bool.not_true, Bool.false_eq_true, if_false] at h
      -- the payload that was resolved
      have key : ∀ pl : Payload,
          (match x.payload with
            | .none => (.ok Payload.none : Except LErr Payload)
            | .int n => .ok (.int n)
            | .ref u =>
              match g.cache g0.n u with
              | some b => if isBlock ((alloc g .symbol x.uuid).1.kind b) then .ok (.block b) else .error .deser
              | none => .error .deser) = .ok pl →
          ∀ b, pl = .block b → g0.n ≤ b ∧ b < g.n ∧ isBlock (g.kind b) = true := by
        intro pl hpl b hb
        subst hb
        split at hpl
        · cases hpl
        · cases hpl
        · split at hpl
          · rename_i b' hb'
            split at hpl
            · rename_i hblk
              cases hpl
              obtain ⟨h1, h2, _⟩ := hm.entries _ _ hb'
              refine ⟨h1, h2, ?_⟩
              simp only [alloc_kind, if_neg (Nat.ne_of_lt h2)] at hblk
              exact hblk
            · cases hpl
          · cases hpl
      split at h
      · cases h
      · rename_i pl hpl
        cases h
        have hm3 : Mid g0 { (alloc g .symbol x.uuid).1 with
            name := fun y => if y = g.n then x.name else (alloc g .symbol x.uuid).1.name y,
            payload := fun y => if y = g.n then pl else (alloc g .symbol x.uuid).1.payload y } := by
          refine hm.of_alloc' .symbol x.uuid (by decide) rfl rfl rfl rfl rfl rfl ?_ ?_
          · intro y hy
            show (if y = g.n then pl else g.payload y) = _
            rw [if_neg hy]
          · intro _ b hb
            have : pl = .block b := by
              have e : (if g.n = g.n then pl else g.payload g.n) = .block b := hb
              rw [if_pos rfl] at e; exact e
            exact key pl hpl b this
        refine ⟨hm3.of_cacheSet (v := g.n) (Nat.le_of_lt hm.lt) (Nat.lt_succ_self _) ?_,
          (AllCov.alloc' hm hc .symbol x.uuid rfl rfl).of_par_eq rfl rfl,
          (Step.of_alloc g .symbol x.uuid).trans (Step.of_eq rfl rfl rfl rfl), Nat.le_of_lt hm.lt,
          Nat.lt_succ_self _, ?_⟩
        · show (alloc g .symbol x.uuid).1.uuid g.n = _; simp
        · show (alloc g .symbol x.uuid).1.kind g.n = _; simp

theorem Step.keep {k : Nat} {g g' : G} (h : Step k g g') {x : Nat} (hx : x < g.n) (hr : cache_rank (g.kind x) ≤ k) :
    x < g'.n ∧ g'.par x = g.par x ∧ g'.kind x = g.kind x := ⟨h.lt hx, h.par x hx hr, h.kind_eq hx⟩

theorem refKind_ok {g : G} {i : Nat} {ok : Kind → Bool} {u : Nat} {a : Unit} (h : refKind g i ok u = .ok a) :
    ∃ n, g.cache i u = some n ∧ ok (g.kind n) = true := by
  unfold refKind at h
  split at h
  · rename_i n hn
    split at h
    · rename_i hk; exact ⟨n, hn, hk⟩
    · cases h
  · cases h

theorem checkAll_ok {g : G} {i : Nat} {ok : Kind → Bool} : ∀ (us : List Nat) {a : Unit},
    checkAll g i ok us = .ok a → ∀ u, u ∈ us → ∃ n, g.cache i u = some n ∧ ok (g.kind n) = true
  | [], _, _, u, hu => by cases hu
  | w :: us, a, h, u, hu => by
    simp only [checkAll] at h
    split at h
    · cases h
    · rename_i b hb
      rcases List.mem_cons.1 hu with rfl | hu
      · exact refKind_ok hb
      · exact checkAll_ok us h u hu

/-- what the checks of a module that was really decoded (not re-used) established -/
def ModChecks (g0 g' : G) (m : SkModule) : Prop :=
  (∀ u, m.entry = some u → ∃ n, g0.n ≤ n ∧ n < g'.n ∧ g'.kind n = .code ∧ g'.uuid n = u) ∧
  (∀ u, u ∈ m.exprSyms → ∃ n, g'.cache g0.n u = some n ∧ g'.kind n = .symbol)

theorem decodeModule_spec {g0 : G} (R : Nat → Prop) (g : G) (m : SkModule) (g' : G) (v : Nat) (hm : Mid g0 g)
    (hc : AllCov g0.n g R) (h : decodeModule g g0.n m = .ok (g', v)) :
    DecOk g0 1 (fun kd => kd = .module) R g g' v ∧ (g.cache g0.n m.uuid = none → ModChecks g0 g' m) := by
  unfold decodeModule at h
  split at h
  · cases h
  · rename_i g1 v1 fresh hfp
    rcases fromProto_cases hfp with ⟨rfl, rfl, hcv, hkv⟩ | ⟨rfl, rfl, rfl, _⟩
    · simp only [Bool.not_false, if_true] at h
      cases h
      obtain ⟨h1, h2, _⟩ := hm.entries _ _ hcv
      exact ⟨⟨hm, hc.mono (fun r hr => .inl hr), Step.refl _ _, h1, h2, hkv⟩,
        fun hn => by rw [hn] at hcv; cases hcv⟩
    · simp only [Bool.not_true, Bool.false_eq_true, if_false] at h
      split at h
      · cases h
      · rename_i g4 hat4
        split at h
        · cases h
        · rename_i g6 hat6
          split at h
          · cases h
          · rename_i ent hent
            split at h
            · cases h
            · rename_i g8 hat8
              split at h
              · cases h
              · rename_i chk hchk
                cases h
                obtain ⟨a1, a2, a3⟩ := fresh_reg hm hc .module m.uuid (by decide) (by decide)
                have hM0 : g0.n ≤ g.n := Nat.le_of_lt hm.lt
                have hM2 : g.n < (cacheSet (alloc g .module m.uuid).1 g0.n m.uuid g.n).n := Nat.lt_succ_self _
                have hk2 : (cacheSet (alloc g .module m.uuid).1 g0.n m.uuid g.n).kind g.n = .module := by
                  show (alloc g .module m.uuid).1.kind g.n = _; simp
                have hp2 : (cacheSet (alloc g .module m.uuid).1 g0.n m.uuid g.n).par g.n = none := by
                  show (alloc g .module m.uuid).1.par g.n = _; simp
                -- proxies
                obtain ⟨m4, c4, s24⟩ := decodeAttach_ok (s := .proxies) (kp := .module) (k := 4)
                  (K := fun kd => kd = .proxy)
                  (fun R g a g' v => decodeProxy_ok R g a g' v) hM0 (by decide) (by decide)
                  (by intro kd hkd; subst hkd; exact ⟨rfl, rfl⟩) _ _ _ _ a1 a2 (.inr rfl) hM2 hp2 hk2 hat4
                have s24' : Step 1 _ g4 := s24
                obtain ⟨hM4, hp4, hk4⟩ := s24'.keep hM2 (by rw [hk2]; decide)
                rw [hp2] at hp4; rw [hk2] at hk4
                -- sections
                obtain ⟨m6, c6, s46⟩ := decodeAttach_ok (s := .secs) (kp := .module) (k := 2)
                  (K := fun kd => kd = .section)
                  (fun R g a g' v => decodeSection_ok R g a g' v) hM0 (by decide) (by decide)
                  (by intro kd hkd; subst hkd; exact ⟨rfl, rfl⟩) _ _ _ _ m4 c4 (.inr rfl) hM4 hp4 hk4 hat6
                have s46' : Step 1 g4 g6 := s46
                obtain ⟨hM6, hp6, hk6⟩ := s46'.keep hM4 (by rw [hk4]; decide)
                rw [hp4] at hp6; rw [hk4] at hk6
                -- symbols
                obtain ⟨m8, c8, s68⟩ := decodeAttach_ok (s := .syms) (kp := .module) (k := 4)
                  (K := fun kd => kd = .symbol)
                  (fun R g a g' v => decodeSymbol_ok R g a g' v) hM0 (by decide) (by decide)
                  (by intro kd hkd; subst hkd; exact ⟨rfl, rfl⟩) _ _ _ _ m6 c6 (.inr rfl) hM6 hp6 hk6 hat8
                have s68' : Step 1 g6 g' := s68
                obtain ⟨hM8, _, hk8⟩ := s68'.keep hM6 (by rw [hk6]; decide)
                rw [hk6] at hk8
                refine ⟨⟨m8, c8, (a3.mono (by omega)).trans (s24'.trans (s46'.trans s68')), hM0, hM8, hk8⟩,
                  fun _ => ⟨?_, ?_⟩⟩
                · intro u hu
                  rw [hu] at hent
                  obtain ⟨n, hn, hkn⟩ := refKind_ok hent
                  obtain ⟨e1, e2, e3⟩ := m6.entries _ _ hn
                  refine ⟨n, e1, s68'.lt e2, ?_, ?_⟩
                  · rw [s68'.kind_eq e2]; simpa using hkn
                  · rw [(s68'.grows.2 n e2).2]; exact e3
                · intro u hu
                  obtain ⟨n, hn, hkn⟩ := checkAll_ok _ hchk u hu
                  exact ⟨n, hn, by simpa using hkn⟩

theorem decodeModule_ok {g0 : G} (R : Nat → Prop) (g : G) (m : SkModule) (g' : G) (v : Nat) (hm : Mid g0 g)
    (hc : AllCov g0.n g R) (h : decodeModule g g0.n m = .ok (g', v)) :
    DecOk g0 1 (fun kd => kd = .module) R g g' v := (decodeModule_spec R g m g' v hm hc h).1

/-- `irOf` follows the back-pointer chain -/
theorem desc_of_irOf {g : G} (hp : CacheParInv g) :
    ∀ (k x i : Nat), cache_rank (g.kind x) ≤ k → irOf g x = some i → CacheDesc g i x := by
  intro k
  induction k with
  | zero =>
    intro x i hr hi
    cases hpx : g.par x with
    | none =>
      rw [cache_irOf_root hpx] at hi
      split at hi
      · cases hi; exact .refl
      · cases hi
    | some a => have := cache_rank_par hp hpx; omega
  | succ k ih =>
    intro x i hr hi
    cases hpx : g.par x with
    | none =>
      rw [cache_irOf_root hpx] at hi
      split at hi
      · cases hi; exact .refl
      · cases hi
    | some a =>
      have := cache_rank_par hp hpx
      rw [cache_irOf_par hp hpx] at hi
      exact .step hpx (ih a i (by omega) hi)

theorem AllAtt.cov {g0 g : G} (hm : Mid g0 g) (h : AllAtt g0 g) : AllCov g0.n g (· = g0.n) :=
  fun x hx hlt => ⟨g0.n, rfl, desc_of_irOf hm.forest.cache_parInv _ x _ (Nat.le_refl _) (h x hx hlt)⟩

/-- nothing that existed before belongs to the new IR -/
theorem Mid.old_not_att {g0 g : G} (hm : Mid g0 g) {x : Nat} (hx : x < g0.n) : irOf g x ≠ some g0.n := by
  intro hi
  have := hm.desc_new (desc_of_irOf hm.forest.cache_parInv _ x _ (Nat.le_refl _) hi) (Nat.le_refl _)
  omega

theorem decodeModules_ok {g0 : G} : ∀ (ms : List SkModule) (g g' : G), Mid g0 g → AllAtt g0 g →
    decodeModules g0.n g ms = .ok g' → Mid g0 g' ∧ AllAtt g0 g' := by
  intro ms
  induction ms with
  | nil => intro g g' hm ha h; cases h; exact ⟨hm, ha⟩
  | cons m ms ih =>
    intro g g' hm ha h
    simp only [decodeModules] at h
    split at h
    · cases h
    · rename_i g1 v hdm
      split at h
      · cases h
      · rename_i g2 happ
        have d := decodeModule_ok _ g m g1 v hm (ha.cov hm) hdm
        obtain ⟨m2, a2⟩ := modAppend_outer d.mid d.new d.lt d.kind d.cov (liftE_ok happ)
        exact ih g2 g' m2 a2 h

theorem load_ok {g g' : G} {m : SkIR} {ir : Nat} (hf : ForestInv g) (hl : load g m = .ok (g', ir)) :
    ir = g.n ∧ Mid g g' ∧ AllAtt g g' ∧
    (∀ u, u ∈ (m.edges.flatMap fun e => [e.1, e.2]) →
      ∃ n, g'.cache g.n u = some n ∧ (g'.kind n = .code ∨ g'.kind n = .proxy)) := by
  unfold load at hl
  simp only [] at hl
  split at hl
  · cases hl
  · rename_i g2 hdm
    split at hl
    · cases hl
    · rename_i chk hchk
      cases hl
      obtain ⟨m1, a1⟩ := mid_mkIR hf m.uuid
      obtain ⟨m2, a2⟩ := decodeModules_ok m.modules _ _ m1 a1 hdm
      refine ⟨rfl, m2, a2, ?_⟩
      intro u hu
      obtain ⟨n, hn, hk⟩ := checkAll_ok _ hchk u hu
      refine ⟨n, hn, ?_⟩
      simp only [Bool.or_eq_true, beq_iff_eq] at hk
      exact hk

/-! ## Part G: which kinds of nodes a decoder creates (no invariant needed) -/

/-- allocation only grows, and every node created has rank `≥ c` -/
def Made (c : Nat) (g g' : G) : Prop :=
  Grows g g' ∧ ∀ x, g.n ≤ x → x < g'.n → c ≤ cache_rank (g'.kind x)

theorem Made.of_stable {c : Nat} {g g' : G} (h : Stable g g') : Made c g g' :=
  ⟨h.grows, fun x h1 h2 => by rw [h.n] at h2; omega⟩

theorem Made.refl (c : Nat) (g : G) : Made c g g := Made.of_stable (Stable.refl g)

theorem Made.trans {c : Nat} {a b d : G} (h1 : Made c a b) (h2 : Made c b d) : Made c a d := by
  refine ⟨h1.1.trans h2.1, ?_⟩
  intro x hx hlt
  by_cases hb : x < b.n
  · rw [(h2.1.2 x hb).1]; exact h1.2 x hx hb
  · exact h2.2 x (by omega) hlt

theorem Made.mono {c c' : Nat} {g g' : G} (h : Made c g g') (hc : c' ≤ c) : Made c' g g' :=
  ⟨h.1, fun x h1 h2 => Nat.le_trans hc (h.2 x h1 h2)⟩

theorem Made.of_alloc (g : G) (k : Kind) (u : Nat) : Made (cache_rank k) g (alloc g k u).1 := by
  refine ⟨grows_alloc g k u, ?_⟩
  intro x hx hlt
  have : x = g.n := by simp only [alloc_n] at hlt; omega
  subst this
  simp

theorem Made.of_fromProto {g g1 : G} {i : Nat} {k : Kind} {u v : Nat} {fresh : Bool}
    (h : fromProto g i k u = .ok (g1, v, fresh)) : Made (cache_rank k) g g1 := by
  rcases fromProto_cases h with ⟨_, rfl, _, _⟩ | ⟨_, rfl, _, _⟩
  · exact Made.refl _ _
  · exact Made.of_alloc g k u

theorem decodeList_made {α : Type} {f : G → α → Except LErr (G × Nat)} {c : Nat}
    (hf : ∀ g a g' v, f g a = .ok (g', v) → Made c g g') :
    ∀ (as : List α) (g g' : G) (vs : List Nat), decodeList f g as = .ok (g', vs) → Made c g g' := by
  intro as
  induction as with
  | nil => intro g g' vs h; cases h; exact Made.refl _ _
  | cons a as ih =>
    intro g g' vs h
    simp only [decodeList] at h
    split at h
    · cases h
    · rename_i g1 v h1
      split at h
      · cases h
      · rename_i g2 vs' h2
        have := (hf g a g1 v h1).trans (ih g1 g2 vs' h2)
        cases h
        exact this

theorem stable_cacheSet (g : G) (i u v : Nat) : Stable g (cacheSet g i u v) := ⟨rfl, rfl, rfl⟩

theorem stable_of_onlyCache {g g' : G} (h : OnlyCache g g') : Stable g g' := ⟨h.n, h.kind, h.uuid⟩

theorem decodeBlock_made {g g' : G} {i : Nat} {b : Nat × Bool} {v : Nat} (h : decodeBlock g i b = .ok (g', v)) :
    Made 4 g g' := by
  unfold decodeBlock at h
  split at h
  · cases h
  · rename_i g1 v1 fresh hfp
    have h1 := Made.of_fromProto hfp
    have hr : cache_rank (if b.2 = true then Kind.code else Kind.data) = 4 := by cases b.2 <;> rfl
    rw [hr] at h1
    cases h
    split
    · exact h1.trans (Made.of_stable (stable_cacheSet _ _ _ _))
    · exact h1

theorem decodeProxy_made {g g' : G} {i u v : Nat} (h : decodeProxy g i u = .ok (g', v)) : Made 2 g g' := by
  unfold decodeProxy at h
  split at h
  · cases h
  · rename_i g1 v1 fresh hfp
    have h1 : Made 2 g g1 := Made.of_fromProto hfp
    cases h
    split
    · exact h1.trans (Made.of_stable (stable_cacheSet _ _ _ _))
    · exact h1

theorem decodeInterval_made {g g' : G} {i : Nat} {x : SkInterval} {v : Nat}
    (h : decodeInterval g i x = .ok (g', v)) : Made 3 g g' := by
  unfold decodeInterval at h
  split at h
  · cases h
  · rename_i g1 v1 fresh hfp
    have h1 : Made 3 g g1 := Made.of_fromProto hfp
    split at h
    · cases h; exact h1
    · split at h
      · cases h
      · rename_i g2 bs hbs
        split at h
        · cases h
        · rename_i g3 hblk
          rw [decodeBlocks_eq] at hbs
          have h2 := (decodeList_made (fun _ _ _ _ hh => decodeBlock_made hh) _ _ _ _ hbs).mono
            (show 3 ≤ 4 by omega)
          have h3 : Made 3 g2 g3 := Made.of_stable (blkUpdate_stable (liftE_ok hblk))
          cases h
          exact h1.trans (h2.trans (h3.trans
            (Made.of_stable (stable_of_onlyCache (onlyCache_cacheAddInterval _ _ _)))))

theorem foldE_setAdd_stable {p : Nat} {s : Slot} {xs : List Nat} {g g' : G}
    (h : foldE (fun g x => setAdd g p s x) xs g = .ok g') : Stable g g' :=
  stable_foldE (fun _ _ _ hh => setAdd_stable hh) xs h

theorem decodeAttach_made {α : Type} {dec : G → Nat → α → Except LErr (G × Nat)} {i p : Nat} {s : Slot} {c : Nat}
    (hf : ∀ g a g' v, dec g i a = .ok (g', v) → Made c g g') :
    ∀ (as : List α) (g g' : G), decodeAttach dec i p s g as = .ok g' → Made c g g' := by
  intro as
  induction as with
  | nil => intro g g' h; cases h; exact Made.refl _ _
  | cons a as ih =>
    intro g g' h
    simp only [decodeAttach] at h
    split at h
    · cases h
    · rename_i g1 v h1
      split at h
      · cases h
      · rename_i g2 h2
        exact (hf g a g1 v h1).trans ((Made.of_stable (setAdd_stable (liftE_ok h2))).trans (ih g2 g' h))

theorem decodeSection_made {g g' : G} {i : Nat} {x : SkSection} {v : Nat}
    (h : decodeSection g i x = .ok (g', v)) : Made 2 g g' := by
  unfold decodeSection at h
  split at h
  · cases h
  · rename_i g1 v1 fresh hfp
    have h1 : Made 2 g g1 := Made.of_fromProto hfp
    split at h
    · cases h; exact h1
    · simp only [] at h
      split at h
      · cases h
      · rename_i g4 hatt
        have h2 := (decodeAttach_made (c := 3) (fun _ _ _ _ hh => decodeInterval_made hh) _ _ _ hatt).mono
          (show 2 ≤ 3 by omega)
        cases h
        exact h1.trans ((Made.of_stable (stable_cacheSet _ _ _ _)).trans h2)

theorem decodeSymbol_made {g g' : G} {i : Nat} {x : SkSymbol} {v : Nat}
    (h : decodeSymbol g i x = .ok (g', v)) : Made 2 g g' := by
  unfold decodeSymbol at h
  split at h
  · cases h
  · rename_i g1 v1 fresh hfp
    have h1 : Made 2 g g1 := Made.of_fromProto hfp
    rcases fromProto_cases hfp with ⟨rfl, rfl, _, _⟩ | ⟨rfl, rfl, rfl, _⟩
    · simp only [Bool.not_false, if_true] at h
      cases h; exact h1
    · simp only [Bool.not_true, Bool.false_eq_true, if_false] at h
      split at h
      · cases h
      · cases h
        exact h1.trans (Made.of_stable ⟨rfl, rfl, rfl⟩)

/-- a module message that is really decoded creates exactly one module node: its own -/
theorem decodeModule_made {g g' : G} {i : Nat} {m : SkModule} {v : Nat}
    (h : decodeModule g i m = .ok (g', v)) :
    Grows g g' ∧ ∀ x, g.n ≤ x → x < g'.n → g'.kind x = .module → x = g.n ∧ g'.uuid x = m.uuid := by
  unfold decodeModule at h
  split at h
  · cases h
  · rename_i g1 v1 fresh hfp
    rcases fromProto_cases hfp with ⟨rfl, rfl, _, _⟩ | ⟨rfl, rfl, rfl, _⟩
    · simp only [Bool.not_false, if_true] at h
      cases h
      exact ⟨(Stable.refl _).grows, fun x h1 h2 => by omega⟩
    · simp only [Bool.not_true, Bool.false_eq_true, if_false] at h
      split at h
      · cases h
      · rename_i g4 hat4
        split at h
        · cases h
        · rename_i g6 hat6
          split at h
          · cases h
          · split at h
            · cases h
            · rename_i g8 hat8
              split at h
              · cases h
              · have m24 := decodeAttach_made (c := 2) (fun _ _ _ _ hh => decodeProxy_made hh) _ _ _ hat4
                have m46 := decodeAttach_made (c := 2) (fun _ _ _ _ hh => decodeSection_made hh) _ _ _ hat6
                have m68 := decodeAttach_made (c := 2) (fun _ _ _ _ hh => decodeSymbol_made hh) _ _ _ hat8
                have m28 := m24.trans (m46.trans m68)
                cases h
                refine ⟨(grows_alloc g .module m.uuid).trans ((stable_cacheSet _ _ _ _).grows.trans m28.1), ?_⟩
                intro x hx hlt hk
                by_cases hxn : x = g.n
                · subst hxn
                  refine ⟨rfl, ?_⟩
                  rw [(m28.1.2 g.n (Nat.lt_succ_self _)).2]
                  show (alloc g .module m.uuid).1.uuid g.n = _
                  simp
                · have := m28.2 x (by show g.n + 1 ≤ x; omega) hlt
                  rw [hk] at this
                  simp [cache_rank] at this

/-! ### the entry-point and expression-symbol checks of the modules that are really decoded -/

/-- a witness that survives the rest of the load: a new node of kind `k` and UUID `u` -/
def Has (g0 g : G) (k : Kind) (u : Nat) : Prop := ∃ n, g0.n ≤ n ∧ n < g.n ∧ g.kind n = k ∧ g.uuid n = u

theorem Has.of_grows {g0 g g' : G} {k : Kind} {u : Nat} (hg : Grows g g') (h : Has g0 g k u) : Has g0 g' k u := by
  obtain ⟨n, h1, h2, h3, h4⟩ := h
  exact ⟨n, h1, Nat.lt_of_lt_of_le h2 hg.1, by rw [(hg.2 n h2).1]; exact h3, by rw [(hg.2 n h2).2]; exact h4⟩

def ModChecked (g0 g : G) (m : SkModule) : Prop :=
  (∀ u, m.entry = some u → Has g0 g .code u) ∧ (∀ u, u ∈ m.exprSyms → Has g0 g .symbol u)

theorem ModChecked.of_grows {g0 g g' : G} {m : SkModule} (hg : Grows g g') (h : ModChecked g0 g m) :
    ModChecked g0 g' m :=
  ⟨fun u hu => (h.1 u hu).of_grows hg, fun u hu => (h.2 u hu).of_grows hg⟩

theorem ModChecks.checked {g0 g : G} {m : SkModule} (hm : Mid g0 g) (h : ModChecks g0 g m) : ModChecked g0 g m := by
  refine ⟨fun u hu => h.1 u hu, ?_⟩
  intro u hu
  obtain ⟨n, hn, hk⟩ := h.2 u hu
  obtain ⟨e1, e2, e3⟩ := hm.entries u n hn
  exact ⟨n, e1, e2, hk, e3⟩

theorem decodeModule_reused {g g' : G} {i : Nat} {m : SkModule} {v n : Nat}
    (h : decodeModule g i m = .ok (g', v)) (hc : g.cache i m.uuid = some n) : g.kind n = .module := by
  unfold decodeModule at h
  split at h
  · cases h
  · rename_i g1 v1 fresh hfp
    rcases fromProto_cases hfp with ⟨_, _, hcv, hkv⟩ | ⟨_, _, _, hno⟩
    · rw [hc] at hcv; cases hcv; exact hkv
    · rw [hc] at hno; cases hno

theorem decodeModules_grows (i : Nat) : ∀ (ms : List SkModule) (g g' : G), decodeModules i g ms = .ok g' → Grows g g' := by
  intro ms
  induction ms with
  | nil => intro g g' h; cases h; exact (Stable.refl _).grows
  | cons m ms ih =>
    intro g g' h
    simp only [decodeModules] at h
    split at h
    · cases h
    · rename_i g1 v hdm
      split at h
      · cases h
      · rename_i g2 happ
        exact (decodeModule_made hdm).1.trans ((modAppend_stable (liftE_ok happ)).grows.trans (ih g2 g' h))

/-- with pairwise distinct module UUIDs every module message is really decoded, so its checks were made -/
theorem decodeModules_checks {g0 : G} : ∀ (ms : List SkModule) (g g' : G) (done : List Nat), Mid g0 g → AllAtt g0 g →
    (∀ x, g0.n ≤ x → x < g.n → g.kind x = .module → g.uuid x ∈ done) → (∀ m, m ∈ ms → m.uuid ∉ done) →
    (ms.map (·.uuid)).Nodup → decodeModules g0.n g ms = .ok g' → ∀ m, m ∈ ms → ModChecked g0 g' m := by
  intro ms
  induction ms with
  | nil => intro g g' done _ _ _ _ _ _ m hm; cases hm
  | cons m ms ih =>
    intro g g' done hm ha hmods hnot hnd h md hmd
    simp only [decodeModules] at h
    split at h
    · cases h
    · rename_i g1 v hdm
      split at h
      · cases h
      · rename_i g2 happ
        have happ' := liftE_ok happ
        have hfresh : g.cache g0.n m.uuid = none := by
          cases hc : g.cache g0.n m.uuid with
          | none => rfl
          | some n =>
            obtain ⟨e1, e2, e3⟩ := hm.entries _ _ hc
            have := hmods n e1 e2 (decodeModule_reused hdm hc)
            rw [e3] at this
            exact absurd this (hnot m List.mem_cons_self)
        obtain ⟨d, hchk⟩ := decodeModule_spec _ g m g1 v hm (ha.cov hm) hdm
        have hmade := decodeModule_made hdm
        obtain ⟨m2, a2⟩ := modAppend_outer d.mid d.new d.lt d.kind d.cov happ'
        have hst := modAppend_stable happ'
        have hrest := decodeModules_grows g0.n ms g2 g' h
        rcases List.mem_cons.1 hmd with rfl | hmd
        · exact (((hchk hfresh).checked d.mid).of_grows hst.grows).of_grows hrest
        · rw [List.map_cons, List.nodup_cons] at hnd
          refine ih g2 g' (m.uuid :: done) m2 a2 ?_ ?_ hnd.2 h md hmd
          · intro x hx hlt hk
            rw [hst.n] at hlt; rw [hst.kind] at hk; rw [hst.uuid]
            by_cases hxg : x < g.n
            · rw [(hmade.1.2 x hxg).1] at hk; rw [(hmade.1.2 x hxg).2]
              exact List.mem_cons_of_mem _ (hmods x hx hxg hk)
            · rw [(hmade.2 x (by omega) hlt hk).2]; exact List.mem_cons_self
          · intro m' hm' hmem
            rcases List.mem_cons.1 hmem with e | e
            · exact hnd.1 (List.mem_map.2 ⟨m', hm', e⟩)
            · exact hnot m' (List.mem_cons_of_mem _ hm') e

theorem load_checks {g g' : G} {m : SkIR} {ir : Nat} (hf : ForestInv g) (hl : load g m = .ok (g', ir))
    (hnd : (m.modules.map (·.uuid)).Nodup) : ∀ md, md ∈ m.modules → ModChecked g g' md := by
  unfold load at hl
  simp only [] at hl
  split at hl
  · cases hl
  · rename_i g2 hdm
    split at hl
    · cases hl
    · cases hl
      obtain ⟨m1, a1⟩ := mid_mkIR hf m.uuid
      refine decodeModules_checks m.modules _ _ [] m1 a1 ?_ (fun _ _ h => by cases h) hnd hdm
      intro x hx hlt hk
      have : x = g.n := by have : (mkIR g m.uuid).n = g.n + 1 := rfl; omega
      subst this
      rw [m1.kind_ir] at hk; cases hk

/-! ## Part H: messages whose node UUIDs are pairwise distinct (no invariant needed) -/

def SkInterval.nodeUuids (x : SkInterval) : List Nat := x.uuid :: x.blocks.map (·.1)
def SkSection.nodeUuids (s : SkSection) : List Nat := s.uuid :: s.intervals.flatMap SkInterval.nodeUuids
def SkModule.nodeUuids (m : SkModule) : List Nat :=
  m.uuid :: (m.proxies ++ (m.sections.flatMap SkSection.nodeUuids ++ m.symbols.map (·.uuid)))
/-- the UUIDs of all nodes of the message, in decoding order -/
def SkIR.nodeUuids (m : SkIR) : List Nat := m.uuid :: m.modules.flatMap SkModule.nodeUuids

/-- the nodes created since `n0` have pairwise distinct UUIDs -/
def DistNew (n0 : Nat) (g : G) : Prop :=
  ∀ a b, n0 ≤ a → a < g.n → n0 ≤ b → b < g.n → g.uuid a = g.uuid b → a = b

/-- the step creates nodes with UUIDs from `L` only, at most one per element; so distinctness of the new
nodes' UUIDs is kept when `L` is duplicate-free and disjoint from the UUIDs `S` used so far -/
def Uq (n0 : Nat) (L : List Nat) (g g' : G) : Prop :=
  Grows g g' ∧ ∀ (S : Nat → Prop), (∀ x, n0 ≤ x → x < g.n → S (g.uuid x)) → (∀ u, u ∈ L → ¬ S u) → L.Nodup →
    DistNew n0 g → DistNew n0 g' ∧ ∀ x, n0 ≤ x → x < g'.n → S (g'.uuid x) ∨ g'.uuid x ∈ L

theorem Uq.of_stable {n0 : Nat} {g g' : G} (L : List Nat) (h : Stable g g') : Uq n0 L g g' := by
  refine ⟨h.grows, ?_⟩
  intro S hS _ _ hd
  refine ⟨?_, ?_⟩
  · intro a b ha hal hb hbl hab
    rw [h.n] at hal hbl; rw [h.uuid] at hab
    exact hd a b ha hal hb hbl hab
  · intro x hx hlt
    rw [h.n] at hlt; rw [h.uuid]
    exact .inl (hS x hx hlt)

theorem Uq.of_alloc {n0 : Nat} (g : G) (k : Kind) (u : Nat) : Uq n0 [u] g (alloc g k u).1 := by
  refine ⟨grows_alloc g k u, ?_⟩
  intro S hS hL _ hd
  have hu : ¬ S u := hL u List.mem_cons_self
  refine ⟨?_, ?_⟩
  · intro a b ha hal hb hbl hab
    simp only [alloc_n] at hal hbl
    simp only [alloc_uuid] at hab
    by_cases ha' : a = g.n <;> by_cases hb' : b = g.n
    · rw [ha', hb']
    · rw [if_pos ha', if_neg hb'] at hab
      exact absurd (hab ▸ hS b hb (by omega)) hu
    · rw [if_neg ha', if_pos hb'] at hab
      exact absurd (hab ▸ hS a ha (by omega)) hu
    · rw [if_neg ha', if_neg hb'] at hab
      exact hd a b ha (by omega) hb (by omega) hab
  · intro x hx hlt
    simp only [alloc_n] at hlt
    simp only [alloc_uuid]
    by_cases hx' : x = g.n
    · rw [if_pos hx']; exact .inr List.mem_cons_self
    · rw [if_neg hx']; exact .inl (hS x hx (by omega))

theorem Uq.append {n0 : Nat} {L1 L2 : List Nat} {g g1 g2 : G} (h1 : Uq n0 L1 g g1) (h2 : Uq n0 L2 g1 g2) :
    Uq n0 (L1 ++ L2) g g2 := by
  refine ⟨h1.1.trans h2.1, ?_⟩
  intro S hS hL hnd hd
  rw [List.nodup_append] at hnd
  obtain ⟨d1, s1⟩ := h1.2 S hS (fun u hu => hL u (List.mem_append_left _ hu)) hnd.1 hd
  obtain ⟨d2, s2⟩ := h2.2 (fun u => S u ∨ u ∈ L1) s1 (by
    intro u hu hh
    rcases hh with hh | hh
    · exact hL u (List.mem_append_right _ hu) hh
    · exact hnd.2.2 u hh u hu rfl) hnd.2.1 d1
  refine ⟨d2, ?_⟩
  intro x hx hlt
  rcases s2 x hx hlt with (h | h) | h
  · exact .inl h
  · exact .inr (List.mem_append_left _ h)
  · exact .inr (List.mem_append_right _ h)

theorem Uq.cons {n0 u : Nat} {L : List Nat} {g g1 g2 : G} (h1 : Uq n0 [u] g g1) (h2 : Uq n0 L g1 g2) :
    Uq n0 (u :: L) g g2 := h1.append h2

/-- nothing was created although the message part lists `L` -/
theorem Uq.skip {n0 : Nat} {g g' : G} (h : Uq n0 [] g g') (L : List Nat) : Uq n0 L g g' := by
  refine ⟨h.1, ?_⟩
  intro S hS _ _ hd
  obtain ⟨d, s⟩ := h.2 S hS (fun u hu => by cases hu) List.nodup_nil hd
  refine ⟨d, fun x hx hlt => ?_⟩
  rcases s x hx hlt with h | h
  · exact .inl h
  · cases h

theorem Uq.refl (n0 : Nat) (L : List Nat) (g : G) : Uq n0 L g g := Uq.of_stable L (Stable.refl g)

theorem Uq.then_stable {n0 : Nat} {L : List Nat} {g g1 g2 : G} (h1 : Uq n0 L g g1) (h2 : Stable g1 g2) :
    Uq n0 L g g2 := by
  have := h1.append (Uq.of_stable (n0 := n0) [] h2)
  rwa [List.append_nil] at this

theorem Uq.of_fromProto {n0 : Nat} {g g1 : G} {i : Nat} {k : Kind} {u v : Nat} {fresh : Bool}
    (h : fromProto g i k u = .ok (g1, v, fresh)) : Uq n0 [u] g g1 := by
  rcases fromProto_cases h with ⟨_, rfl, _, _⟩ | ⟨_, rfl, _, _⟩
  · exact Uq.refl _ _ _
  · exact Uq.of_alloc g k u

theorem decodeList_uq {α : Type} {f : G → α → Except LErr (G × Nat)} {n0 : Nat} {L : α → List Nat}
    (hf : ∀ g a g' v, f g a = .ok (g', v) → Uq n0 (L a) g g') :
    ∀ (as : List α) (g g' : G) (vs : List Nat), decodeList f g as = .ok (g', vs) → Uq n0 (as.flatMap L) g g' := by
  intro as
  induction as with
  | nil => intro g g' vs h; cases h; exact Uq.refl _ _ _
  | cons a as ih =>
    intro g g' vs h
    simp only [decodeList] at h
    split at h
    · cases h
    · rename_i g1 v h1
      split at h
      · cases h
      · rename_i g2 vs' h2
        have := (hf g a g1 v h1).append (ih g1 g2 vs' h2)
        cases h
        rw [List.flatMap_cons]
        exact this

theorem flatMap_single {α : Type} (f : α → Nat) (l : List α) : l.flatMap (fun a => [f a]) = l.map f := by
  induction l with
  | nil => rfl
  | cons a l ih => rw [List.flatMap_cons, ih]; rfl

theorem decodeBlock_uq {n0 : Nat} {g g' : G} {i : Nat} {b : Nat × Bool} {v : Nat}
    (h : decodeBlock g i b = .ok (g', v)) : Uq n0 [b.1] g g' := by
  unfold decodeBlock at h
  split at h
  · cases h
  · rename_i g1 v1 fresh hfp
    have h1 : Uq n0 [b.1] g g1 := Uq.of_fromProto hfp
    cases h
    split
    · exact h1.then_stable (stable_cacheSet _ _ _ _)
    · exact h1

theorem decodeProxy_uq {n0 : Nat} {g g' : G} {i u v : Nat} (h : decodeProxy g i u = .ok (g', v)) :
    Uq n0 [u] g g' := by
  unfold decodeProxy at h
  split at h
  · cases h
  · rename_i g1 v1 fresh hfp
    have h1 : Uq n0 [u] g g1 := Uq.of_fromProto hfp
    cases h
    split
    · exact h1.then_stable (stable_cacheSet _ _ _ _)
    · exact h1

theorem decodeInterval_uq {n0 : Nat} {g g' : G} {i : Nat} {x : SkInterval} {v : Nat}
    (h : decodeInterval g i x = .ok (g', v)) : Uq n0 x.nodeUuids g g' := by
  unfold decodeInterval at h
  split at h
  · cases h
  · rename_i g1 v1 fresh hfp
    have h1 : Uq n0 [x.uuid] g g1 := Uq.of_fromProto hfp
    split at h
    · cases h
      have := h1.append (Uq.refl n0 (x.blocks.map (·.1)) _)
      exact this
    · split at h
      · cases h
      · rename_i g2 bs hbs
        split at h
        · cases h
        · rename_i g3 hblk
          rw [decodeBlocks_eq] at hbs
          have h2 := decodeList_uq (n0 := n0) (L := fun b : Nat × Bool => [b.1])
            (fun _ _ _ _ hh => decodeBlock_uq hh) _ _ _ _ hbs
          rw [flatMap_single] at h2
          cases h
          exact h1.cons ((h2.then_stable (blkUpdate_stable (liftE_ok hblk))).then_stable
            (stable_of_onlyCache (onlyCache_cacheAddInterval _ _ _)))

theorem decodeAttach_uq {α : Type} {dec : G → Nat → α → Except LErr (G × Nat)} {i p : Nat} {s : Slot} {n0 : Nat}
    {L : α → List Nat} (hf : ∀ g a g' v, dec g i a = .ok (g', v) → Uq n0 (L a) g g') :
    ∀ (as : List α) (g g' : G), decodeAttach dec i p s g as = .ok g' → Uq n0 (as.flatMap L) g g' := by
  intro as
  induction as with
  | nil => intro g g' h; cases h; exact Uq.refl _ _ _
  | cons a as ih =>
    intro g g' h
    simp only [decodeAttach] at h
    split at h
    · cases h
    · rename_i g1 v h1
      split at h
      · cases h
      · rename_i g2 h2
        rw [List.flatMap_cons]
        exact ((hf g a g1 v h1).then_stable (setAdd_stable (liftE_ok h2))).append (ih g2 g' h)

theorem decodeSection_uq {n0 : Nat} {g g' : G} {i : Nat} {x : SkSection} {v : Nat}
    (h : decodeSection g i x = .ok (g', v)) : Uq n0 x.nodeUuids g g' := by
  unfold decodeSection at h
  split at h
  · cases h
  · rename_i g1 v1 fresh hfp
    have h1 : Uq n0 [x.uuid] g g1 := Uq.of_fromProto hfp
    split at h
    · cases h
      exact h1.append (Uq.refl n0 (x.intervals.flatMap SkInterval.nodeUuids) _)
    · simp only [] at h
      split at h
      · cases h
      · rename_i g4 hatt
        have h2 := decodeAttach_uq (n0 := n0) (L := SkInterval.nodeUuids)
          (fun _ _ _ _ hh => decodeInterval_uq hh) _ _ _ hatt
        cases h
        exact (h1.then_stable (stable_cacheSet _ _ _ _)).cons h2

theorem decodeSymbol_uq {n0 : Nat} {g g' : G} {i : Nat} {x : SkSymbol} {v : Nat}
    (h : decodeSymbol g i x = .ok (g', v)) : Uq n0 [x.uuid] g g' := by
  unfold decodeSymbol at h
  split at h
  · cases h
  · rename_i g1 v1 fresh hfp
    have h1 : Uq n0 [x.uuid] g g1 := Uq.of_fromProto hfp
    rcases fromProto_cases hfp with ⟨rfl, rfl, _, _⟩ | ⟨rfl, rfl, rfl, _⟩
    · simp only [Bool.not_false, if_true] at h
      cases h; exact h1
    · simp only [Bool.not_true, Bool.false_eq_true, if_false] at h
      split at h
      · cases h
      · cases h
        exact h1.then_stable ⟨rfl, rfl, rfl⟩

theorem decodeModule_uq {n0 : Nat} {g g' : G} {i : Nat} {m : SkModule} {v : Nat}
    (h : decodeModule g i m = .ok (g', v)) : Uq n0 m.nodeUuids g g' := by
  unfold decodeModule at h
  split at h
  · cases h
  · rename_i g1 v1 fresh hfp
    have h1 : Uq n0 [m.uuid] g g1 := Uq.of_fromProto hfp
    split at h
    · cases h
      exact h1.append (Uq.refl n0 _ _)
    · simp only [] at h
      split at h
      · cases h
      · rename_i g4 hat4
        split at h
        · cases h
        · rename_i g6 hat6
          split at h
          · cases h
          · split at h
            · cases h
            · rename_i g8 hat8
              split at h
              · cases h
              · have u24 := decodeAttach_uq (n0 := n0) (L := fun u : Nat => [u])
                  (fun _ _ _ _ hh => decodeProxy_uq hh) _ _ _ hat4
                rw [flatMap_single, List.map_id'] at u24
                have u46 := decodeAttach_uq (n0 := n0) (L := SkSection.nodeUuids)
                  (fun _ _ _ _ hh => decodeSection_uq hh) _ _ _ hat6
                have u68 := decodeAttach_uq (n0 := n0) (L := fun y : SkSymbol => [y.uuid])
                  (fun _ _ _ _ hh => decodeSymbol_uq hh) _ _ _ hat8
                rw [flatMap_single] at u68
                cases h
                exact (h1.then_stable (stable_cacheSet _ _ _ _)).cons (u24.append (u46.append u68))

theorem decodeModules_uq {n0 : Nat} (i : Nat) : ∀ (ms : List SkModule) (g g' : G), decodeModules i g ms = .ok g' →
    Uq n0 (ms.flatMap SkModule.nodeUuids) g g' := by
  intro ms
  induction ms with
  | nil => intro g g' h; cases h; exact Uq.refl _ _ _
  | cons m ms ih =>
    intro g g' h
    simp only [decodeModules] at h
    split at h
    · cases h
    · rename_i g1 v hdm
      split at h
      · cases h
      · rename_i g2 happ
        rw [List.flatMap_cons]
        exact ((decodeModule_uq hdm).then_stable (modAppend_stable (liftE_ok happ))).append (ih g2 g' h)

/-- pairwise distinct node UUIDs in the message: the nodes created by the load have pairwise distinct UUIDs -/
theorem load_distNew {g g' : G} {m : SkIR} {ir : Nat} (hl : load g m = .ok (g', ir)) (hnd : m.nodeUuids.Nodup) :
    DistNew g.n g' := by
  unfold load at hl
  simp only [] at hl
  split at hl
  · cases hl
  · rename_i g2 hdm
    split at hl
    · cases hl
    · cases hl
      have hu := decodeModules_uq (n0 := g.n) g.n m.modules _ _ hdm
      unfold SkIR.nodeUuids at hnd
      rw [List.nodup_cons] at hnd
      have hn1 : (mkIR g m.uuid).n = g.n + 1 := rfl
      have hu1 : (mkIR g m.uuid).uuid g.n = m.uuid := by
        show (alloc g .ir m.uuid).1.uuid g.n = _; simp
      refine (hu.2 (· = m.uuid) ?_ ?_ hnd.2 ?_).1
      · intro x hx hlt
        have : x = g.n := by omega
        subst this; exact hu1
      · intro u hu' he; subst he; exact hnd.1 hu'
      · intro a b ha hal hb hbl _
        omega

end Gtirb.Loader
