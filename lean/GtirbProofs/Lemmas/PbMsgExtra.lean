import GtirbModel.PbMsg
import GtirbProofs.Lemmas.PbWireProofs
import GtirbProofs.Lemmas.PbMsgLemmas
import GtirbProofs.Lemmas.PbMsgLower
/-! Layer 2, upper half of the message tree (Symbol, AuxData and its map entry,
ProxyBlock, EdgeLabel, Edge, CFG, Module, IR) and the byte-level round trip
`parseMIR_serMIR`. -/
namespace Gtirb.Pb
open Gtirb Gtirb.Msg

/-! ### the field numbers (regenerated schema) of the upper half -/

@[simp] theorem fno_Symbol_uuid : fno "Symbol" "uuid" = 1 := by decide
@[simp] theorem fno_Symbol_value : fno "Symbol" "value" = 2 := by decide
@[simp] theorem fno_Symbol_name : fno "Symbol" "name" = 3 := by decide
@[simp] theorem fno_Symbol_referent_uuid : fno "Symbol" "referent_uuid" = 5 := by decide
@[simp] theorem fno_Symbol_at_end : fno "Symbol" "at_end" = 6 := by decide
@[simp] theorem fno_AuxData_type_name : fno "AuxData" "type_name" = 1 := by decide
@[simp] theorem fno_AuxData_data : fno "AuxData" "data" = 2 := by decide
@[simp] theorem fno_ProxyBlock_uuid : fno "ProxyBlock" "uuid" = 1 := by decide
@[simp] theorem fno_Module_uuid : fno "Module" "uuid" = 1 := by decide
@[simp] theorem fno_Module_binary_path : fno "Module" "binary_path" = 2 := by decide
@[simp] theorem fno_Module_preferred_addr : fno "Module" "preferred_addr" = 3 := by decide
@[simp] theorem fno_Module_rebase_delta : fno "Module" "rebase_delta" = 4 := by decide
@[simp] theorem fno_Module_file_format : fno "Module" "file_format" = 5 := by decide
@[simp] theorem fno_Module_isa : fno "Module" "isa" = 6 := by decide
@[simp] theorem fno_Module_name : fno "Module" "name" = 7 := by decide
@[simp] theorem fno_Module_symbols : fno "Module" "symbols" = 9 := by decide
@[simp] theorem fno_Module_sections : fno "Module" "sections" = 12 := by decide
@[simp] theorem fno_Module_proxies : fno "Module" "proxies" = 16 := by decide
@[simp] theorem fno_Module_aux_data : fno "Module" "aux_data" = 17 := by decide
@[simp] theorem fno_Module_entry_point : fno "Module" "entry_point" = 18 := by decide
@[simp] theorem fno_Module_byte_order : fno "Module" "byte_order" = 19 := by decide
@[simp] theorem fno_EdgeLabel_conditional : fno "EdgeLabel" "conditional" = 1 := by decide
@[simp] theorem fno_EdgeLabel_direct : fno "EdgeLabel" "direct" = 2 := by decide
@[simp] theorem fno_EdgeLabel_type : fno "EdgeLabel" "type" = 3 := by decide
@[simp] theorem fno_Edge_source_uuid : fno "Edge" "source_uuid" = 1 := by decide
@[simp] theorem fno_Edge_target_uuid : fno "Edge" "target_uuid" = 2 := by decide
@[simp] theorem fno_Edge_label : fno "Edge" "label" = 5 := by decide
@[simp] theorem fno_CFG_edges : fno "CFG" "edges" = 2 := by decide
@[simp] theorem fno_CFG_vertices : fno "CFG" "vertices" = 3 := by decide
@[simp] theorem fno_IR_uuid : fno "IR" "uuid" = 1 := by decide
@[simp] theorem fno_IR_modules : fno "IR" "modules" = 3 := by decide
@[simp] theorem fno_IR_aux_data : fno "IR" "aux_data" = 5 := by decide
@[simp] theorem fno_IR_version : fno "IR" "version" = 6 := by decide
@[simp] theorem fno_IR_cfg : fno "IR" "cfg" = 7 := by decide

/-! ### Symbol -/

theorem wSymbol_wf (s : MSymbol) (h : wfWSymbol s = true) : (wSymbol s).wf = true := by
  obtain ⟨uuid, payload, name, atEnd⟩ := s
  simp only [wfWSymbol, Bool.and_eq_true] at h
  obtain ⟨⟨h1, h2⟩, h3⟩ := h
  rcases payload with _ | n | u
  · simp [wSymbol, wf_append, wf_fld, all_wf_vBytes _ h1, all_wf_vStr _ h2, all_wf_vBool]
  · simp [wSymbol, wf_append, wf_fld, all_wf_vBytes _ h1, all_wf_vStr _ h2, all_wf_vBool,
      wf_varint_single _ h3]
  · simp [wSymbol, wf_append, wf_fld, all_wf_vBytes _ h1, all_wf_vStr _ h2, all_wf_vBool,
      wf_len_single _ h3]

theorem parseSymbolW_wSymbol (s : MSymbol) (h : wfWSymbol s = true) :
    parseSymbolW (wSymbol s) = some s := by
  obtain ⟨uuid, payload, name, atEnd⟩ := s
  rcases payload with _ | n | u
  · have ho : oneofRun (fld 1 (vBytes uuid) ++ [] ++ fld 3 (vStr name) ++ [] ++ fld 6 (vBool atEnd))
        [2, 5] = none := by
      apply oneofRun_nil_of_filter
      simp only [List.filter_append, oneof_filter_fld]
      simp
    simp only [parseSymbolW, wSymbol, fno_Symbol_uuid, fno_Symbol_value, fno_Symbol_name,
      fno_Symbol_referent_uuid, fno_Symbol_at_end, ho]
    simp [getAll_append, getAll_fld, lastBytes_vBytes, lastStr_vStr, lastBool_vBool]
  · have ho : oneofRun (fld 1 (vBytes uuid) ++ fld 2 [.varint n] ++ fld 3 (vStr name) ++ []
        ++ fld 6 (vBool atEnd)) [2, 5] = some (2, [.varint n]) := by
      apply oneofRun_single_of_filter
      simp only [List.filter_append, oneof_filter_fld]
      simp [fld]
    simp only [parseSymbolW, wSymbol, fno_Symbol_uuid, fno_Symbol_value, fno_Symbol_name,
      fno_Symbol_referent_uuid, fno_Symbol_at_end, ho]
    simp [getAll_append, getAll_fld, lastBytes_vBytes, lastStr_vStr, lastBool_vBool]
  · have ho : oneofRun (fld 1 (vBytes uuid) ++ [] ++ fld 3 (vStr name) ++ fld 5 [.len u]
        ++ fld 6 (vBool atEnd)) [2, 5] = some (5, [.len u]) := by
      apply oneofRun_single_of_filter
      simp only [List.filter_append, oneof_filter_fld]
      simp [fld]
    simp only [parseSymbolW, wSymbol, fno_Symbol_uuid, fno_Symbol_value, fno_Symbol_name,
      fno_Symbol_referent_uuid, fno_Symbol_at_end, ho]
    simp [getAll_append, getAll_fld, lastBytes_vBytes, lastStr_vStr, lastBool_vBool]

/-! ### AuxData and the entry of `map<string, AuxData>` -/

theorem wAuxData_wf (a : MAuxData) (h : wfWAuxData a = true) : (wAuxData a).wf = true := by
  simp only [wfWAuxData, Bool.and_eq_true] at h
  simp [wAuxData, wf_append, wf_fld, all_wf_vStr _ h.1, all_wf_vBytes _ h.2]

theorem parseAuxDataW_wAuxData (a : MAuxData) (_h : wfWAuxData a = true) :
    parseAuxDataW (wAuxData a) = some a := by
  simp [parseAuxDataW, wAuxData, getAll_append, getAll_fld, lastStr_vStr, lastBytes_vBytes]

theorem wAuxEntry_wf (kv : String × MAuxData) (h : wfWAuxEntry kv = true) :
    (wAuxEntry kv).wf = true := by
  simp only [wfWAuxEntry, Bool.and_eq_true] at h
  obtain ⟨⟨h1, h2⟩, h3⟩ := h
  simp [wAuxEntry, wEntry, wf_append, wf_fld, wf_len_single _ h1, wf_len_single _ h3]

theorem parseAuxEntryW_wAuxEntry (kv : String × MAuxData) (h : wfWAuxEntry kv = true) :
    parseAuxEntryW (wAuxEntry kv) = some kv := by
  simp only [wfWAuxEntry, Bool.and_eq_true] at h
  obtain ⟨⟨h1, h2⟩, h3⟩ := h
  simp [parseAuxEntryW, wAuxEntry, wEntry, getAll_append, getAll_fld,
    subMsg_single _ _ (wAuxData_wf kv.2 h2), parseAuxDataW_wAuxData kv.2 h2]

/-! ### ProxyBlock -/

theorem wProxy_wf (u : Bytes) (h : lenOK u = true) : (wProxy u).wf = true := by
  simp [wProxy, wf_fld, all_wf_vBytes _ h]

theorem parseProxyW_wProxy (u : Bytes) : parseProxyW (wProxy u) = some u := by
  simp [parseProxyW, wProxy, getAll_fld, lastBytes_vBytes]

/-! ### EdgeLabel, Edge, CFG -/

theorem wEdgeLabel_wf (l : MEdgeLabel) (h : wfWEdgeLabel l = true) : (wEdgeLabel l).wf = true := by
  simp only [wfWEdgeLabel] at h
  simp [wEdgeLabel, wf_append, wf_fld, all_wf_vBool, all_wf_vUInt _ (u64OK_of_enumOK h)]

theorem parseEdgeLabelW_wEdgeLabel (l : MEdgeLabel) (h : wfWEdgeLabel l = true) :
    parseEdgeLabelW (wEdgeLabel l) = some l := by
  simp only [wfWEdgeLabel] at h
  simp [parseEdgeLabelW, wEdgeLabel, getAll_append, getAll_fld, lastBool_vBool, lastEnum_vUInt _ h]

theorem wEdge_wf (e : MEdge) (h : wfWEdge e = true) : (wEdge e).wf = true := by
  obtain ⟨src, dst, label⟩ := e
  simp only [wfWEdge, Bool.and_eq_true] at h
  obtain ⟨⟨h1, h2⟩, h3⟩ := h
  rcases label with _ | l
  · simp [wEdge, wf_append, wf_fld, all_wf_vBytes _ h1, all_wf_vBytes _ h2]
  · simp only [Bool.and_eq_true] at h3
    simp [wEdge, wf_append, wf_fld, all_wf_vBytes _ h1, all_wf_vBytes _ h2, wf_len_single _ h3.2]

theorem parseEdgeW_wEdge (e : MEdge) (h : wfWEdge e = true) : parseEdgeW (wEdge e) = some e := by
  obtain ⟨src, dst, label⟩ := e
  simp only [wfWEdge, Bool.and_eq_true] at h
  obtain ⟨⟨h1, h2⟩, h3⟩ := h
  rcases label with _ | l
  · simp [parseEdgeW, wEdge, getAll_append, getAll_fld, lastBytes_vBytes]
  · simp only [Bool.and_eq_true] at h3
    simp [parseEdgeW, wEdge, getAll_append, getAll_fld, lastBytes_vBytes,
      subMsg_single _ _ (wEdgeLabel_wf l h3.1), parseEdgeLabelW_wEdgeLabel l h3.1]

theorem wCFG_wf (c : MCFG) (h : wfWCFG c = true) : (wCFG c).wf = true := by
  simp only [wfWCFG, Bool.and_eq_true] at h
  obtain ⟨h1, h2⟩ := h
  have he : c.edges.all (fun e => lenOK (encodeW (wEdge e))) = true := by
    simp only [List.all_eq_true, Bool.and_eq_true] at h1 ⊢
    exact fun b hb => (h1 b hb).2
  simp [wCFG, wf_append, wf_fld, all_wf_vMsgs _ _ he, all_wf_vRep _ h2]

theorem parseCFGW_wCFG (c : MCFG) (h : wfWCFG c = true) : parseCFGW (wCFG c) = some c := by
  simp only [wfWCFG, Bool.and_eq_true] at h
  obtain ⟨h1, h2⟩ := h
  have he : repMsg parseEdgeW (vMsgs wEdge c.edges) = some c.edges := by
    apply repMsg_vMsgs_id
    simp only [List.all_eq_true, Bool.and_eq_true] at h1
    exact fun b hb => ⟨wEdge_wf b (h1 b hb).1, parseEdgeW_wEdge b (h1 b hb).1⟩
  simp [parseCFGW, wCFG, getAll_append, getAll_fld, he, allLen_vRep]

/-! ### Module -/

theorem all_snd {α : Type} {p q : α → Bool} {xs : List α}
    (h : xs.all (fun x => p x && q x) = true) : xs.all q = true := by
  simp only [List.all_eq_true, Bool.and_eq_true] at h ⊢
  exact fun b hb => (h b hb).2

theorem wModule_wf (m : MModule) (h : wfWModule m = true) : (wModule m).wf = true := by
  simp only [wfWModule, Bool.and_eq_true] at h
  obtain ⟨⟨⟨⟨⟨⟨⟨⟨⟨⟨⟨⟨h1, h2⟩, h3⟩, h4⟩, h5⟩, h6⟩, h7⟩, h8⟩, h9⟩, h10⟩, h11⟩, h12⟩, h13⟩ := h
  simp [wModule, wf_append, wf_fld, all_wf_vBytes _ h1, all_wf_vStr _ h2, all_wf_vUInt _ h3,
    all_wf_vInt, all_wf_vUInt _ (u64OK_of_enumOK h5), all_wf_vUInt _ (u64OK_of_enumOK h6),
    all_wf_vStr _ h7, all_wf_vMsgs _ _ (all_snd h8), all_wf_vMsgs _ _ (all_snd h9),
    all_wf_vMsgs _ _ (all_snd h10), all_wf_vMsgs _ _ (all_snd h11), all_wf_vBytes _ h12,
    all_wf_vUInt _ (u64OK_of_enumOK h13)]

theorem parseModuleW_wModule (m : MModule) (h : wfWModule m = true) :
    parseModuleW (wModule m) = some m := by
  simp only [wfWModule, Bool.and_eq_true] at h
  obtain ⟨⟨⟨⟨⟨⟨⟨⟨⟨⟨⟨⟨h1, h2⟩, h3⟩, h4⟩, h5⟩, h6⟩, h7⟩, h8⟩, h9⟩, h10⟩, h11⟩, h12⟩, h13⟩ := h
  have hsy : repMsg parseSymbolW (vMsgs wSymbol m.symbols) = some m.symbols := by
    apply repMsg_vMsgs_id
    simp only [List.all_eq_true, Bool.and_eq_true] at h8
    exact fun b hb => ⟨wSymbol_wf b (h8 b hb).1, parseSymbolW_wSymbol b (h8 b hb).1⟩
  have hse : repMsg parseSectionW (vMsgs wSection m.sections) = some m.sections := by
    apply repMsg_vMsgs_id
    simp only [List.all_eq_true, Bool.and_eq_true] at h9
    exact fun b hb => ⟨wSection_wf b (h9 b hb).1, parseSectionW_wSection b (h9 b hb).1⟩
  have hpx : repMsg parseProxyW (vMsgs wProxy m.proxies) = some m.proxies := by
    apply repMsg_vMsgs_id
    simp only [List.all_eq_true, Bool.and_eq_true] at h10
    exact fun b hb => ⟨wProxy_wf b (h10 b hb).1, parseProxyW_wProxy b⟩
  have hax : repMsg parseAuxEntryW (vMsgs wAuxEntry m.auxData) = some m.auxData := by
    apply repMsg_vMsgs_id
    simp only [List.all_eq_true, Bool.and_eq_true] at h11
    exact fun b hb => ⟨wAuxEntry_wf b (h11 b hb).1, parseAuxEntryW_wAuxEntry b (h11 b hb).1⟩
  simp [parseModuleW, wModule, getAll_append, getAll_fld, lastBytes_vBytes, lastStr_vStr,
    lastUInt_vUInt, lastInt_vInt _ h4, lastEnum_vUInt _ h5, lastEnum_vUInt _ h6,
    lastEnum_vUInt _ h13, hsy, hse, hpx, hax]

/-! ### IR -/

theorem wIR_wf (m : MIR) (h : wfWIR m = true) : (wIR m).wf = true := by
  simp only [wfWIR, Bool.and_eq_true] at h
  obtain ⟨⟨⟨⟨⟨h1, h2⟩, h3⟩, h4⟩, h5⟩, h6⟩ := h
  have h4' : u64OK m.version = true := by
    simp only [u32OK, u64OK, decide_eq_true_eq] at h4 ⊢
    exact Nat.lt_trans h4 (by decide)
  simp [wIR, wf_append, wf_fld, all_wf_vBytes _ h1, all_wf_vMsgs _ _ (all_snd h2),
    all_wf_vMsgs _ _ (all_snd h3), all_wf_vUInt _ h4', wf_len_single _ h6]

theorem parseIRW_wIR (m : MIR) (h : wfWIR m = true) : parseIRW (wIR m) = some m := by
  simp only [wfWIR, Bool.and_eq_true] at h
  obtain ⟨⟨⟨⟨⟨h1, h2⟩, h3⟩, h4⟩, h5⟩, h6⟩ := h
  have hm : repMsg parseModuleW (vMsgs wModule m.modules) = some m.modules := by
    apply repMsg_vMsgs_id
    simp only [List.all_eq_true, Bool.and_eq_true] at h2
    exact fun b hb => ⟨wModule_wf b (h2 b hb).1, parseModuleW_wModule b (h2 b hb).1⟩
  have hax : repMsg parseAuxEntryW (vMsgs wAuxEntry m.auxData) = some m.auxData := by
    apply repMsg_vMsgs_id
    simp only [List.all_eq_true, Bool.and_eq_true] at h3
    exact fun b hb => ⟨wAuxEntry_wf b (h3 b hb).1, parseAuxEntryW_wAuxEntry b (h3 b hb).1⟩
  simp [parseIRW, wIR, getAll_append, getAll_fld, lastBytes_vBytes, hm, hax, lastU32_vUInt _ h4,
    subMsg_single _ _ (wCFG_wf m.cfg h5), parseCFGW_wCFG m.cfg h5]

/-- the byte-level round trip of the message: what `serMIR` writes, `parseMIR` reads back -/
theorem parseMIR_serMIR (m : MIR) (h : wfW m = true) : parseMIR (serMIR m) = some m := by
  unfold parseMIR serMIR
  rw [asMsg_encodeW _ _ (wIR_wf m h)]
  exact parseIRW_wIR m h

/-- hence the serializer is injective on its range: different messages, different files -/
theorem serMIR_injective (a b : MIR) (ha : wfW a = true) (hb : wfW b = true)
    (h : serMIR a = serMIR b) : a = b := by
  have h1 := parseMIR_serMIR a ha
  rw [h, parseMIR_serMIR b hb] at h1
  exact (Option.some.inj h1).symm

/-- the field-number table: every number used exists, is legal, and the written order is
the ascending one (hence pairwise distinct per message) -/
theorem fnoTable_ok : fnoTableOK = true := by decide

end Gtirb.Pb
