import GtirbProofs.Lemmas.Codec
/-! Decode-side lemmas for the AuxData codec: `tyOfTree` is total, what `decode` returns has
the type it was decoded at (`decode_hasType`), and what it leaves is a suffix of its input
(`decode_suffix`). Used by `Props/C14Generations.lean`. -/
namespace Gtirb.Codec

/-- the node table and the nodes agree: a UUID that `get_by_uuid` resolves to a node is that
node's UUID (`lookup` is `ir.get_by_uuid`, `nu` is `node.uuid`) -/
def Coherent (lookup : Bytes → Option Nat) (nu : Nat → Bytes) : Prop :=
  ∀ u id, lookup u = some id → nu id = u

/-! ### `tyOfTree` is total (arity errors are `badArity` nodes) -/

mutual
theorem tyOfTree_isSome : ∀ tr : TypeName.Tree, ∃ ty, tyOfTree tr = some ty
  | .node n ks => by
    obtain ⟨args, ha⟩ := tysOfTrees_isSome ks
    simp only [tyOfTree, ha]
    split
    · split <;> exact ⟨_, rfl⟩
    · split
      · split <;> exact ⟨_, rfl⟩
      · split
        · split <;> exact ⟨_, rfl⟩
        · split
          · split <;> exact ⟨_, rfl⟩
          · split
            · exact ⟨_, rfl⟩
            · split <;> exact ⟨_, rfl⟩
theorem tysOfTrees_isSome : ∀ ks : List TypeName.Tree, ∃ tys, tysOfTrees ks = some tys
  | [] => ⟨[], rfl⟩
  | t :: ts => by
    obtain ⟨a, ha⟩ := tyOfTree_isSome t
    obtain ⟨b, hb⟩ := tysOfTrees_isSome ts
    exact ⟨a :: b, by simp [tysOfTrees, ha, hb]⟩
end

theorem tyOfTree_ne_none (tr : TypeName.Tree) : tyOfTree tr ≠ none := by
  obtain ⟨ty, h⟩ := tyOfTree_isSome tr
  simp [h]

/-- a type name has a `Ty` exactly when it parses -/
theorem tyOfName_isSome_iff (s : String) :
    (∃ ty, tyOfName s = some ty) ↔ ∃ tr, TypeName.parseType s.toList = some tr := by
  unfold tyOfName
  cases h : TypeName.parseType s.toList with
  | none => simp
  | some tr =>
    obtain ⟨ty, hty⟩ := tyOfTree_isSome tr
    simp [hty]

/-! ### `Res` inversion helpers -/

theorem splitAt?_eq_some {n : Nat} {bs a r : Bytes} (h : splitAt? n bs = some (a, r)) :
    bs = a ++ r ∧ a.length = n := by
  unfold splitAt? at h
  split at h
  · rename_i hle
    simp only [Option.some.injEq, Prod.mk.injEq] at h
    obtain ⟨rfl, rfl⟩ := h
    exact ⟨(List.take_append_drop n bs).symm, by simp [List.length_take]; omega⟩
  · cases h

theorem leNat_lt (bs : Bytes) : leNat bs < 256 ^ bs.length := by
  induction bs with
  | nil => simp [leNat]
  | cons b bs ih =>
    simp only [leNat, List.length_cons, Nat.pow_succ]
    have := b.toNat_lt
    omega

theorem leNat_lt_of_length {bs : Bytes} {w : Nat} (h : bs.length = w) : leNat bs < 256 ^ w := by
  subst h; exact leNat_lt bs

/-! ### what a decoder leaves is a suffix of what it was given -/

/-- `g` returns a suffix of its input -/
def Suf (g : Bytes → Res (Val × Bytes)) : Prop :=
  ∀ bs v rest, g bs = .ok (v, rest) → ∃ used, bs = used ++ rest

theorem decodeElem_suffix (lookup : Bytes → Option Nat) : Suf (decodeElem lookup) := by
  intro bs v rest h
  unfold decodeElem at h
  split at h
  · cases h
  · rename_i u r hs
    obtain ⟨rfl, _⟩ := splitAt?_eq_some hs
    split at h <;> (cases h; exact ⟨u, rfl⟩)

theorem decodeLeaf_suffix (lookup : Bytes → Option Nat) (l : Leaf) : Suf (decodeLeaf lookup l) := by
  intro bs v rest h
  cases l
  case bool =>
    simp only [decodeLeaf] at h
    split at h
    · cases h
    · cases h; exact ⟨[_], rfl⟩
  case f32 =>
    simp only [decodeLeaf] at h
    split at h
    · cases h
    · rename_i x r hs; cases h; exact ⟨x, (splitAt?_eq_some hs).1⟩
  case f64 =>
    simp only [decodeLeaf] at h
    split at h
    · cases h
    · rename_i x r hs; cases h; exact ⟨x, (splitAt?_eq_some hs).1⟩
  case string =>
    simp only [decodeLeaf] at h
    split at h
    · cases h
    · rename_i x r hs
      split at h
      · cases h
      · rename_i sb r' hs'
        split at h
        · cases h
          refine ⟨x ++ sb, ?_⟩
          rw [(splitAt?_eq_some hs).1, (splitAt?_eq_some hs').1, List.append_assoc]
        · cases h
  case uuid => exact decodeElem_suffix lookup bs v rest (by simpa [decodeLeaf] using h)
  case offset =>
    simp only [decodeLeaf] at h
    split at h
    · rename_i e r he
      obtain ⟨u, rfl⟩ := decodeElem_suffix lookup _ _ _ he
      split at h
      · cases h
      · rename_i x r' hs
        cases h
        refine ⟨u ++ x, ?_⟩
        rw [(splitAt?_eq_some hs).1, List.append_assoc]
    all_goals cases h
  all_goals
    rw [decodeLeaf_int lookup _ bs rfl] at h
    split at h
    · cases h
    · rename_i x r hs; cases h; exact ⟨x, (splitAt?_eq_some hs).1⟩

theorem decodeMany_suffix (g : Bytes → Res (Val × Bytes)) (hg : Suf g) :
    ∀ (n : Nat) (bs : Bytes) (vs : List Val) (rest : Bytes),
      decodeMany g n bs = .ok (vs, rest) → ∃ used, bs = used ++ rest
  | 0, bs, vs, rest, h => by
    simp only [decodeMany] at h; cases h; exact ⟨[], rfl⟩
  | n + 1, bs, vs, rest, h => by
    simp only [decodeMany] at h
    split at h
    · rename_i v r hv
      obtain ⟨u, rfl⟩ := hg _ _ _ hv
      split at h
      · rename_i vs' r' hvs
        obtain ⟨u', rfl⟩ := decodeMany_suffix g hg n _ _ _ hvs
        cases h
        exact ⟨u ++ u', by rw [List.append_assoc]⟩
      all_goals cases h
    all_goals cases h

theorem decodeManyPairs_suffix (f g : Bytes → Res (Val × Bytes)) (hf : Suf f) (hg : Suf g) :
    ∀ (n : Nat) (bs : Bytes) (ks vs : List Val) (rest : Bytes),
      decodeManyPairs f g n bs = .ok (ks, vs, rest) → ∃ used, bs = used ++ rest
  | 0, bs, ks, vs, rest, h => by
    simp only [decodeManyPairs] at h; cases h; exact ⟨[], rfl⟩
  | n + 1, bs, ks, vs, rest, h => by
    simp only [decodeManyPairs] at h
    split at h
    · rename_i k r hk
      obtain ⟨u, rfl⟩ := hf _ _ _ hk
      split at h
      · rename_i v r' hv
        obtain ⟨u', rfl⟩ := hg _ _ _ hv
        split at h
        · rename_i ks' vs' r'' hkv
          obtain ⟨u'', rfl⟩ := decodeManyPairs_suffix f g hf hg n _ _ _ _ hkv
          cases h
          exact ⟨u ++ (u' ++ u''), by simp [List.append_assoc]⟩
        all_goals cases h
      all_goals cases h
    all_goals cases h

section
variable (lookup : Bytes → Option Nat)

mutual
/-- what `decode` leaves is a suffix of its input -/
theorem decode_suffix : ∀ (t : Ty) (bs rest : Bytes) (v : Val),
    decode lookup t bs = .ok (v, rest) → ∃ used, bs = used ++ rest
  | .leaf l, bs, rest, v, h => decodeLeaf_suffix lookup l bs v rest (by simpa [decode] using h)
  | .seq t, bs, rest, v, h => by
    simp only [decode] at h
    split at h
    · cases h
    · rename_i x r hs
      split at h
      · rename_i vs r' hm
        obtain ⟨u, rfl⟩ := decodeMany_suffix _ (fun b v r h => decode_suffix t b r v h) _ _ _ _ hm
        cases h
        exact ⟨x ++ u, by rw [(splitAt?_eq_some hs).1, List.append_assoc]⟩
      all_goals cases h
  | .set t, bs, rest, v, h => by
    simp only [decode] at h
    split at h
    · cases h
    · rename_i x r hs
      split at h
      · rename_i vs r' hm
        obtain ⟨u, rfl⟩ := decodeMany_suffix _ (fun b v r h => decode_suffix t b r v h) _ _ _ _ hm
        cases h
        exact ⟨x ++ u, by rw [(splitAt?_eq_some hs).1, List.append_assoc]⟩
      all_goals cases h
  | .map kt vt, bs, rest, v, h => by
    simp only [decode] at h
    split at h
    · cases h
    · rename_i x r hs
      split at h
      · rename_i ks vs r' hm
        obtain ⟨u, rfl⟩ := decodeManyPairs_suffix _ _ (fun b v r h => decode_suffix kt b r v h)
          (fun b v r h => decode_suffix vt b r v h) _ _ _ _ _ hm
        cases h
        exact ⟨x ++ u, by rw [(splitAt?_eq_some hs).1, List.append_assoc]⟩
      all_goals cases h
  | .tuple ts, bs, rest, v, h => by
    simp only [decode] at h
    split at h
    · rename_i vs r hm
      cases h
      exact decodeTuple_suffix ts _ _ _ hm
    all_goals cases h
  | .variant ts, bs, rest, v, h => by
    simp only [decode] at h
    split at h
    · cases h
    · rename_i x r hs
      split at h
      · rename_i w r' hm
        obtain ⟨u, rfl⟩ := decodeNth_suffix ts _ _ _ _ hm
        cases h
        exact ⟨x ++ u, by rw [(splitAt?_eq_some hs).1, List.append_assoc]⟩
      all_goals cases h
  | .unknown _ _, bs, rest, v, h => by simp [decode] at h
  | .badArity _ _, bs, rest, v, h => by simp [decode] at h
theorem decodeTuple_suffix : ∀ (ts : List Ty) (bs rest : Bytes) (vs : List Val),
    decodeTuple lookup ts bs = .ok (vs, rest) → ∃ used, bs = used ++ rest
  | [], bs, rest, vs, h => by
    simp only [decodeTuple] at h; cases h; exact ⟨[], rfl⟩
  | t :: ts, bs, rest, vs, h => by
    simp only [decodeTuple] at h
    split at h
    · rename_i v r hv
      obtain ⟨u, rfl⟩ := decode_suffix t _ _ _ hv
      split at h
      · rename_i vs' r' hvs
        obtain ⟨u', rfl⟩ := decodeTuple_suffix ts _ _ _ hvs
        cases h
        exact ⟨u ++ u', by rw [List.append_assoc]⟩
      all_goals cases h
    all_goals cases h
theorem decodeNth_suffix : ∀ (ts : List Ty) (i : Nat) (bs rest : Bytes) (v : Val),
    decodeNth lookup ts i bs = .ok (v, rest) → ∃ used, bs = used ++ rest
  | [], i, bs, rest, v, h => by simp [decodeNth] at h
  | t :: _, 0, bs, rest, v, h => decode_suffix t bs rest v (by simpa [decodeNth] using h)
  | _ :: ts, i + 1, bs, rest, v, h => decodeNth_suffix ts i bs rest v (by simpa [decodeNth] using h)
end
end

/-! ### what a decoder returns has the type it was decoded at -/

theorem decodeIntBytes_inRange (s : Bool) (w : Nat) (x : Bytes) (hw : 0 < w) (hx : x.length = w) :
    intInRange s w (decodeIntBytes s w x) = true := by
  obtain ⟨w', rfl⟩ : ∃ w', w = w' + 1 := ⟨w - 1, by omega⟩
  have hlt := leNat_lt_of_length hx
  unfold decodeIntBytes intInRange
  have hP : (256 : Int) ^ (w' + 1) = ((256 ^ w' : Nat) : Int) * 256 := by
    rw [Int.pow_succ]; simp
  have hP' : (256 : Nat) ^ (w' + 1) = 256 ^ w' * 256 := Nat.pow_succ _ _
  rw [hP]
  rw [hP'] at hlt ⊢
  generalize 256 ^ w' = P at *
  generalize leNat x = n at *
  cases s
  · simp; omega
  · by_cases hn : P * 256 / 2 ≤ n
    · simp [hn]; omega
    · simp [hn]; omega

theorem decodeElem_elemOk (lookup : Bytes → Option Nat) (nu : Nat → Bytes)
    (hc : Coherent lookup nu) (bs rest : Bytes) (e : Val)
    (h : decodeElem lookup bs = .ok (e, rest)) : elemOk lookup nu e = true := by
  unfold decodeElem at h
  split at h
  · cases h
  · rename_i u r hs
    have hl := (splitAt?_eq_some hs).2
    split at h
    · rename_i id hid
      cases h
      have := hc u id hid
      simp [elemOk, this, hl, hid]
    · rename_i hid
      cases h
      simp [elemOk, hl, hid]

theorem fromUTF8?_toUTF8 {b : ByteArray} {s : String} (h : String.fromUTF8? b = some s) :
    s.toUTF8 = b := by
  unfold String.fromUTF8? at h
  split at h
  · cases h; rfl
  · cases h

theorem decodeLeaf_int_hasType (lookup : Bytes → Option Nat) (nu : Nat → Bytes) (l : Leaf)
    (hl : l.isInt = true) (bs rest : Bytes) (v : Val)
    (h : decodeLeaf lookup l bs = .ok (v, rest)) : leafHasType lookup nu l v = true := by
  rw [decodeLeaf_int lookup l bs hl] at h
  split at h
  · cases h
  · rename_i x r hs
    cases h
    have := decodeIntBytes_inRange l.signed l.width x (Leaf.width_pos_of_isInt l hl)
      (splitAt?_eq_some hs).2
    cases l <;> simp [Leaf.isInt] at hl <;> simpa [leafHasType, Leaf.isInt] using this

theorem decodeLeaf_hasType (lookup : Bytes → Option Nat) (nu : Nat → Bytes)
    (hc : Coherent lookup nu) (l : Leaf) (bs rest : Bytes) (v : Val)
    (h : decodeLeaf lookup l bs = .ok (v, rest)) : leafHasType lookup nu l v = true := by
  cases l
  case bool =>
    simp only [decodeLeaf] at h
    split at h
    · cases h
    · cases h; rfl
  case f32 =>
    simp only [decodeLeaf] at h
    split at h
    · cases h
    · rename_i x r hs
      cases h
      have := leNat_lt_of_length (splitAt?_eq_some hs).2
      simpa [leafHasType] using this
  case f64 =>
    simp only [decodeLeaf] at h
    split at h
    · cases h
    · rename_i x r hs
      cases h
      have := leNat_lt_of_length (splitAt?_eq_some hs).2
      simpa [leafHasType] using this
  case string =>
    simp only [decodeLeaf] at h
    split at h
    · cases h
    · rename_i x r hs
      split at h
      · cases h
      · rename_i sb r' hs'
        split at h
        · rename_i s hs''
          cases h
          have h1 := leNat_lt_of_length (splitAt?_eq_some hs).2
          have h2 := (splitAt?_eq_some hs').2
          have h3 := fromUTF8?_toUTF8 hs''
          simp only [leafHasType, decide_eq_true_eq, h3, byteArray_toList, h2]
          simpa using h1
        · cases h
  case uuid =>
    have := decodeElem_elemOk lookup nu hc bs rest v (by simpa [decodeLeaf] using h)
    simpa [leafHasType] using this
  case offset =>
    simp only [decodeLeaf] at h
    split at h
    · rename_i e r he
      have hee := decodeElem_elemOk lookup nu hc _ _ _ he
      split at h
      · cases h
      · rename_i x r' hs
        cases h
        have := leNat_lt_of_length (splitAt?_eq_some hs).2
        simp only [leafHasType, hee, Bool.true_and, decide_eq_true_eq]
        simpa using this
    all_goals cases h
  all_goals exact decodeLeaf_int_hasType lookup nu _ rfl bs rest v h

theorem decodeMany_all (g : Bytes → Res (Val × Bytes)) (p : Val → Bool)
    (hg : ∀ bs v rest, g bs = .ok (v, rest) → p v = true) :
    ∀ (n : Nat) (bs : Bytes) (vs : List Val) (rest : Bytes),
      decodeMany g n bs = .ok (vs, rest) → allMany p vs = true ∧ vs.length = n
  | 0, bs, vs, rest, h => by
    simp only [decodeMany] at h; cases h; exact ⟨rfl, rfl⟩
  | n + 1, bs, vs, rest, h => by
    simp only [decodeMany] at h
    split at h
    · rename_i v r hv
      split at h
      · rename_i vs' r' hvs
        obtain ⟨h1, h2⟩ := decodeMany_all g p hg n _ _ _ hvs
        cases h
        exact ⟨by simp [allMany, hg _ _ _ hv, h1], by simp [h2]⟩
      all_goals cases h
    all_goals cases h

theorem decodeManyPairs_all (f g : Bytes → Res (Val × Bytes)) (p q : Val → Bool)
    (hf : ∀ bs v rest, f bs = .ok (v, rest) → p v = true)
    (hg : ∀ bs v rest, g bs = .ok (v, rest) → q v = true) :
    ∀ (n : Nat) (bs : Bytes) (ks vs : List Val) (rest : Bytes),
      decodeManyPairs f g n bs = .ok (ks, vs, rest) →
        allMany p ks = true ∧ allMany q vs = true ∧ ks.length = n ∧ vs.length = n
  | 0, bs, ks, vs, rest, h => by
    simp only [decodeManyPairs] at h; cases h; exact ⟨rfl, rfl, rfl, rfl⟩
  | n + 1, bs, ks, vs, rest, h => by
    simp only [decodeManyPairs] at h
    split at h
    · rename_i k r hk
      split at h
      · rename_i v r' hv
        split at h
        · rename_i ks' vs' r'' hkv
          obtain ⟨h1, h2, h3, h4⟩ := decodeManyPairs_all f g p q hf hg n _ _ _ _ hkv
          cases h
          exact ⟨by simp [allMany, hf _ _ _ hk, h1], by simp [allMany, hg _ _ _ hv, h2],
            by simp [h3], by simp [h4]⟩
        all_goals cases h
      all_goals cases h
    all_goals cases h

/-! #### `set` / `dict` construction keeps types, yields distinct elements / keys -/

theorem allMany_append (p : Val → Bool) (a b : List Val) :
    allMany p (a ++ b) = (allMany p a && allMany p b) := by
  induction a with
  | nil => simp [allMany]
  | cons x a ih => simp [allMany, ih, Bool.and_assoc]

theorem pairwiseDistinct_snoc (acc : List Val) (x : Val) (hd : pairwiseDistinct acc = true)
    (hm : memVal x acc = false) : pairwiseDistinct (acc ++ [x]) = true := by
  induction acc with
  | nil => simp [pairwiseDistinct, memVal]
  | cons a acc ih =>
    simp only [pairwiseDistinct, Bool.and_eq_true, Bool.not_eq_true'] at hd
    simp only [memVal, Bool.or_eq_false_iff] at hm
    simp only [List.cons_append, pairwiseDistinct, memVal_append, memVal, Bool.or_false,
      Bool.and_eq_true, Bool.not_eq_true', Bool.or_eq_false_iff]
    exact ⟨⟨hd.1, by rw [Val.beq_symm]; exact hm.1⟩, ih hd.2 hm.2⟩

theorem setInsert_inv (p : Val → Bool) (acc : List Val) (x : Val)
    (ha : allMany p acc = true) (hx : p x = true) (hd : pairwiseDistinct acc = true) :
    allMany p (setInsert acc x) = true ∧ pairwiseDistinct (setInsert acc x) = true ∧
      (setInsert acc x).length ≤ acc.length + 1 := by
  unfold setInsert
  cases hm : memVal x acc with
  | true => simp [ha, hd]
  | false =>
    simp only [Bool.false_eq_true, if_false]
    exact ⟨by simp [allMany_append, ha, allMany, hx], pairwiseDistinct_snoc acc x hd hm, by simp⟩

theorem foldl_setInsert_inv (p : Val → Bool) (xs : List Val) : ∀ (acc : List Val),
    allMany p acc = true → allMany p xs = true → pairwiseDistinct acc = true →
    allMany p (xs.foldl setInsert acc) = true ∧ pairwiseDistinct (xs.foldl setInsert acc) = true ∧
      (xs.foldl setInsert acc).length ≤ acc.length + xs.length := by
  induction xs with
  | nil => intro acc ha _ hd; exact ⟨ha, hd, by simp⟩
  | cons x xs ih =>
    intro acc ha hx hd
    simp only [allMany, Bool.and_eq_true] at hx
    obtain ⟨h1, h2, h3⟩ := setInsert_inv p acc x ha hx.1 hd
    obtain ⟨i1, i2, i3⟩ := ih (setInsert acc x) h1 hx.2 h2
    refine ⟨i1, i2, ?_⟩
    simp only [List.foldl_cons, List.length_cons]
    omega

theorem dedup_inv (p : Val → Bool) (xs : List Val) (h : allMany p xs = true) :
    allMany p (dedup xs) = true ∧ pairwiseDistinct (dedup xs) = true ∧
      (dedup xs).length ≤ xs.length := by
  have := foldl_setInsert_inv p xs [] rfl h rfl
  simpa [dedup] using this

/-- the invariant of the `dict` under construction -/
def MapInv (p q : Val → Bool) (ks vs : List Val) : Prop :=
  allMany p ks = true ∧ allMany q vs = true ∧ ks.length = vs.length ∧ pairwiseDistinct ks = true

theorem mapInsert_inv (p q : Val → Bool) (k v : Val) (hk : p k = true) (hv : q v = true) :
    ∀ (ks vs : List Val), MapInv p q ks vs →
      MapInv p q (mapInsert ks vs k v).1 (mapInsert ks vs k v).2 ∧
        (mapInsert ks vs k v).1.length ≤ ks.length + 1 ∧
        (∀ y, memVal y (mapInsert ks vs k v).1 = (memVal y ks || Val.beq k y) ∨
              (mapInsert ks vs k v).1 = ks)
  | [], vs, h => by
    obtain ⟨_, _, hl, _⟩ := h
    cases vs with
    | cons _ _ => simp at hl
    | nil =>
      refine ⟨⟨by simp [mapInsert, allMany, hk], by simp [mapInsert, allMany, hv], rfl,
        by simp [mapInsert, pairwiseDistinct, memVal]⟩, by simp [mapInsert], fun y => .inl ?_⟩
      simp [mapInsert, memVal]
  | k' :: ks, vs, h => by
    obtain ⟨h1, h2, hl, h4⟩ := h
    cases vs with
    | nil => simp at hl
    | cons v' vs =>
      simp only [allMany, Bool.and_eq_true] at h1 h2
      simp only [List.length_cons, Nat.add_right_cancel_iff] at hl
      simp only [pairwiseDistinct, Bool.and_eq_true, Bool.not_eq_true'] at h4
      by_cases hb : Val.beq k' k = true
      · simp only [mapInsert, hb, if_true]
        refine ⟨⟨by simp [allMany, h1], by simp [allMany, hv, h2], by simp [hl],
          by simp [pairwiseDistinct, h4]⟩, by simp, fun y => .inr (by trivial)⟩
      · obtain ⟨⟨i1, i2, i3, i4⟩, i5, i6⟩ := mapInsert_inv p q k v hk hv ks vs ⟨h1.2, h2.2, hl, h4.2⟩
        simp only [mapInsert, hb]
        simp only [Bool.false_eq_true, if_false]
        refine ⟨⟨by simp [allMany, h1.1, i1], by simp [allMany, h2.1, i2], by simp [i3], ?_⟩,
          by simp; omega, fun y => ?_⟩
        · simp only [pairwiseDistinct, Bool.and_eq_true, Bool.not_eq_true', i4, and_true]
          rcases i6 k' with e | e
          · rw [e, h4.1]
            simp only [Bool.false_or]
            rw [Val.beq_symm]
            simpa using hb
          · rw [e]; exact h4.1
        · rcases i6 y with e | e
          · left
            simp only [memVal, e]
            cases Val.beq k' y <;> simp
          · right; rw [e]

theorem foldl_mapInsert_inv (p q : Val → Bool) : ∀ (kvs : List (Val × Val)) (aks avs : List Val),
    MapInv p q aks avs → (∀ kv ∈ kvs, p kv.1 = true ∧ q kv.2 = true) →
    MapInv p q (kvs.foldl (fun acc kv => mapInsert acc.1 acc.2 kv.1 kv.2) (aks, avs)).1
      (kvs.foldl (fun acc kv => mapInsert acc.1 acc.2 kv.1 kv.2) (aks, avs)).2 ∧
    (kvs.foldl (fun acc kv => mapInsert acc.1 acc.2 kv.1 kv.2) (aks, avs)).1.length
      ≤ aks.length + kvs.length
  | [], aks, avs, h, _ => ⟨h, by simp⟩
  | kv :: kvs, aks, avs, h, hkv => by
    obtain ⟨hk, hv⟩ := hkv kv (List.mem_cons_self ..)
    obtain ⟨i1, i2, _⟩ := mapInsert_inv p q kv.1 kv.2 hk hv aks avs h
    obtain ⟨j1, j2⟩ := foldl_mapInsert_inv p q kvs _ _ i1
      (fun kv' h' => hkv kv' (List.mem_cons_of_mem _ h'))
    have e : (kv :: kvs).foldl (fun acc kv => mapInsert acc.1 acc.2 kv.1 kv.2) (aks, avs) =
        kvs.foldl (fun acc kv => mapInsert acc.1 acc.2 kv.1 kv.2)
          ((mapInsert aks avs kv.1 kv.2).1, (mapInsert aks avs kv.1 kv.2).2) := rfl
    rw [e]
    refine ⟨j1, ?_⟩
    simp only [List.length_cons]
    omega

theorem allMany_iff (p : Val → Bool) (xs : List Val) :
    allMany p xs = true ↔ ∀ x ∈ xs, p x = true := by
  induction xs with
  | nil => simp [allMany]
  | cons x xs ih => simp [allMany, ih]

theorem mapBuild_inv (p q : Val → Bool) (ks vs : List Val)
    (hk : allMany p ks = true) (hv : allMany q vs = true) :
    MapInv p q (mapBuild ks vs).1 (mapBuild ks vs).2 ∧ (mapBuild ks vs).1.length ≤ ks.length := by
  have hkv : ∀ kv ∈ ks.zip vs, p kv.1 = true ∧ q kv.2 = true := by
    intro kv hm
    obtain ⟨a, b⟩ := kv
    have := List.of_mem_zip hm
    exact ⟨(allMany_iff p ks).1 hk a this.1, (allMany_iff q vs).1 hv b this.2⟩
  obtain ⟨h1, h2⟩ := foldl_mapInsert_inv p q (ks.zip vs) [] [] ⟨rfl, rfl, rfl, rfl⟩ hkv
  refine ⟨h1, ?_⟩
  have : (ks.zip vs).length ≤ ks.length := by simp [List.length_zip]; omega
  simp only [mapBuild]
  simp only [List.length_nil, Nat.zero_add] at h2
  omega

/-! #### the mutual induction over `Ty` / `List Ty` -/

section
variable (lookup : Bytes → Option Nat) (nu : Nat → Bytes) (hc : Coherent lookup nu)
include hc
set_option linter.unusedSectionVars false

mutual
/-- decode-side typing: whatever `decode` returns at `t` (from ANY bytes: non-canonical
encodings, duplicate set elements / mapping keys, any bool byte) is a value of `t`.  In
particular sets / mappings come back de-duplicated, UUIDs naming nodes come back as nodes. -/
theorem decode_hasType : ∀ (t : Ty) (bs rest : Bytes) (v : Val),
    decode lookup t bs = .ok (v, rest) → hasType lookup nu t v = true
  | .leaf l, bs, rest, v, h => by
    have := decodeLeaf_hasType lookup nu hc l bs rest v (by simpa [decode] using h)
    simpa [hasType] using this
  | .seq t, bs, rest, v, h => by
    simp only [decode] at h
    split at h
    · cases h
    · rename_i x r hs
      split at h
      · rename_i vs r' hm
        obtain ⟨h1, h2⟩ := decodeMany_all _ (hasType lookup nu t)
          (fun b v r h => decode_hasType t b r v h) _ _ _ _ hm
        cases h
        have := leNat_lt_of_length (splitAt?_eq_some hs).2
        simp only [hasType, h1, Bool.true_and, decide_eq_true_eq, h2]
        simpa using this
      all_goals cases h
  | .set t, bs, rest, v, h => by
    simp only [decode] at h
    split at h
    · cases h
    · rename_i x r hs
      split at h
      · rename_i vs r' hm
        obtain ⟨h1, h2⟩ := decodeMany_all _ (hasType lookup nu t)
          (fun b v r h => decode_hasType t b r v h) _ _ _ _ hm
        obtain ⟨d1, d2, d3⟩ := dedup_inv (hasType lookup nu t) vs h1
        cases h
        have := leNat_lt_of_length (splitAt?_eq_some hs).2
        simp only [hasType, d1, d2, Bool.true_and, Bool.and_true, decide_eq_true_eq]
        have h8 : (256 : Nat) ^ 8 = 2 ^ 64 := by decide
        omega
      all_goals cases h
  | .map kt vt, bs, rest, v, h => by
    simp only [decode] at h
    split at h
    · cases h
    · rename_i x r hs
      split at h
      · rename_i ks vs r' hm
        obtain ⟨h1, h2, h3, _⟩ := decodeManyPairs_all _ _ (hasType lookup nu kt) (hasType lookup nu vt)
          (fun b v r h => decode_hasType kt b r v h) (fun b v r h => decode_hasType vt b r v h)
          _ _ _ _ _ hm
        obtain ⟨⟨m1, m2, m3, m4⟩, m5⟩ := mapBuild_inv (hasType lookup nu kt) (hasType lookup nu vt)
          ks vs h1 h2
        have := leNat_lt_of_length (splitAt?_eq_some hs).2
        have h8 : (256 : Nat) ^ 8 = 2 ^ 64 := by decide
        generalize mapBuild ks vs = kv at *
        obtain ⟨ks', vs'⟩ := kv
        cases h
        simp only [hasType, m1, m2, m4, Bool.true_and, Bool.and_true, Bool.and_eq_true,
          beq_iff_eq, decide_eq_true_eq]
        simp only at m3 m5
        exact ⟨m3, by omega⟩
      all_goals cases h
  | .tuple ts, bs, rest, v, h => by
    simp only [decode] at h
    split at h
    · rename_i vs r hm
      cases h
      simpa [hasType] using decodeTuple_hasType ts _ _ _ hm
    all_goals cases h
  | .variant ts, bs, rest, v, h => by
    simp only [decode] at h
    split at h
    · cases h
    · rename_i x r hs
      split at h
      · rename_i w r' hm
        have hn := decodeNth_hasType ts _ _ _ _ hm
        cases h
        have := leNat_lt_of_length (splitAt?_eq_some hs).2
        simp only [hasType, hn, Bool.and_true, decide_eq_true_eq]
        simpa using this
      all_goals cases h
  | .unknown _ _, bs, rest, v, h => by simp [decode] at h
  | .badArity _ _, bs, rest, v, h => by simp [decode] at h
theorem decodeTuple_hasType : ∀ (ts : List Ty) (bs rest : Bytes) (vs : List Val),
    decodeTuple lookup ts bs = .ok (vs, rest) → hasTypeTuple lookup nu ts vs = true
  | [], bs, rest, vs, h => by
    simp only [decodeTuple] at h; cases h; rfl
  | t :: ts, bs, rest, vs, h => by
    simp only [decodeTuple] at h
    split at h
    · rename_i v r hv
      split at h
      · rename_i vs' r' hvs
        cases h
        simp [hasTypeTuple, decode_hasType t _ _ _ hv, decodeTuple_hasType ts _ _ _ hvs]
      all_goals cases h
    all_goals cases h
theorem decodeNth_hasType : ∀ (ts : List Ty) (i : Nat) (bs rest : Bytes) (v : Val),
    decodeNth lookup ts i bs = .ok (v, rest) → hasTypeNth lookup nu ts i v = true
  | [], i, bs, rest, v, h => by simp [decodeNth] at h
  | t :: _, 0, bs, rest, v, h => by
    simpa [hasTypeNth] using decode_hasType t bs rest v (by simpa [decodeNth] using h)
  | _ :: ts, i + 1, bs, rest, v, h => by
    simpa [hasTypeNth] using decodeNth_hasType ts i bs rest v (by simpa [decodeNth] using h)
end
end

/-! ### corollaries and non-vacuity -/

mutual
theorem arityOk_of_noUnknown : ∀ t : Ty, noUnknown t = true → arityOk t = true
  | .leaf _, _ => rfl
  | .seq t, h => by simpa [arityOk] using arityOk_of_noUnknown t (by simpa [noUnknown] using h)
  | .set t, h => by simpa [arityOk] using arityOk_of_noUnknown t (by simpa [noUnknown] using h)
  | .map k v, h => by
    simp only [noUnknown, Bool.and_eq_true] at h
    simp [arityOk, arityOk_of_noUnknown k h.1, arityOk_of_noUnknown v h.2]
  | .tuple ts, h => by
    simpa [arityOk] using arityOkList_of_noUnknownList ts (by simpa [noUnknown] using h)
  | .variant ts, h => by
    simpa [arityOk] using arityOkList_of_noUnknownList ts (by simpa [noUnknown] using h)
  | .unknown _ _, h => by simp [noUnknown] at h
  | .badArity _ _, h => by simp [noUnknown] at h
theorem arityOkList_of_noUnknownList : ∀ ts : List Ty, noUnknownList ts = true → arityOkList ts = true
  | [], _ => rfl
  | t :: ts, h => by
    simp only [noUnknownList, Bool.and_eq_true] at h
    simp [arityOkList, arityOk_of_noUnknown t h.1, arityOkList_of_noUnknownList ts h.2]
end

/-- nothing has a `badArity` (or `unknown`) type, and nothing encodes under one -/
theorem hasType_badArity (lookup : Bytes → Option Nat) (nu : Nat → Bytes) (n : String)
    (args : List Ty) (v : Val) : hasType lookup nu (.badArity n args) v = false := by
  cases v <;> simp [hasType]

theorem encode_badArity (nu : Nat → Bytes) (n : String) (args : List Ty) (v : Val) :
    encode nu (.badArity n args) v = none := by
  cases v <;> simp [encode]

/-- decoding that reaches a known head with a rejected arity fails there, whatever the bytes -/
theorem decode_badArity (lookup : Bytes → Option Nat) (n : String) (args : List Ty) (bs : Bytes) :
    decode lookup (.badArity n args) bs = .badArity := by
  simp [decode]

/-- ... and only there: behind an empty sequence it is never reached -/
example : decode (fun _ => none) (.seq (.badArity "string" [.leaf .i8])) (u64 0) =
    .ok (.seq [], []) := by rfl
example : decode (fun _ => none) (.seq (.badArity "string" [.leaf .i8])) (u64 1) = .badArity := by rfl
/-- an unknown head in front of it wins -/
example : decode (fun _ => none) (.tuple [.unknown "foo" [], .badArity "string" [.leaf .i8]]) [1, 2] =
    .unknownCodec "foo" := by rfl
example : encode (fun _ => []) (.variant [.leaf .i8, .badArity "string" [.leaf .i8]])
    (.variant 0 (.int 5)) = some [0, 0, 0, 0, 0, 0, 0, 0, 5] := by decide
example : encode (fun _ => []) (.variant [.leaf .i8, .badArity "string" [.leaf .i8]])
    (.variant 1 (.str "a")) = none := by decide

/-- `decode_hasType` on non-canonical bytes: a set listing 5 twice, a bool byte 2 -/
example : decode (fun _ => none) (.tuple [.set (.leaf .u8), .leaf .bool]) (u64 2 ++ [5, 5] ++ [2]) =
    .ok (.tuple [.set [.int 5], .bool true], []) := by rfl
example : hasType (fun _ => none) (fun _ => []) (.tuple [.set (.leaf .u8), .leaf .bool])
    (.tuple [.set [.int 5], .bool true]) = true :=
  decode_hasType (fun _ => none) (fun _ => []) (fun _ _ h => by cases h) _
    (u64 2 ++ [5, 5] ++ [2]) [] _ (by rfl)
/-- `decode_suffix` with trailing bytes -/
example : ∃ used, (u64 2 ++ [5, 5] ++ [2, 9, 9] : Bytes) = used ++ [9, 9] :=
  decode_suffix (fun _ => none) (.tuple [.set (.leaf .u8), .leaf .bool]) _ _
    (.tuple [.set [.int 5], .bool true]) (by rfl)

end Gtirb.Codec
