import GtirbProofs.Lemmas.ProtoProofs
import GtirbProofs.Lemmas.DeepEqProofs
/-! From the precondition of C01 (`wfir`, GtirbModel/ProtoWF.lean) to the two
hypotheses of the `deep_eq` theorems (`SelfContained`, `DistinctSiblings`,
Lemmas/DeepEqProofs.lean).

* every per-parent key list and the IR-wide block / symbol UUID lists are
  sub-lists of `IRV.nodeUuids`, which `wfir` states to be duplicate-free;
* a UUID that is visible in the staged sense (`moduleOK`) is the UUID of a
  block / proxy / symbol of some module of the IR, so `findBlock` /
  `findSymbol` succeed on it. -/
namespace Gtirb.Msg

/-! ### sub-lists of `flatMap` -/
section Sub
variable {α β : Type}

theorem sublist_flatMap_congr {f g : α → List β} : ∀ (l : List α),
    (∀ a ∈ l, (f a).Sublist (g a)) → (l.flatMap f).Sublist (l.flatMap g)
  | [], _ => by simp
  | a :: l, h => by
    rw [List.flatMap_cons, List.flatMap_cons]
    exact (h a List.mem_cons_self).append
      (sublist_flatMap_congr l (fun b hb => h b (List.mem_cons_of_mem _ hb)))

theorem sublist_flatMap_of_mem {f : α → List β} : ∀ {l : List α} {a : α}, a ∈ l →
    (f a).Sublist (l.flatMap f)
  | b :: l, a, h => by
    rw [List.flatMap_cons]
    rcases List.mem_cons.1 h with rfl | h
    · exact List.sublist_append_left _ _
    · exact (sublist_flatMap_of_mem h).trans (List.sublist_append_right _ _)

theorem map_sublist_flatMap {f : α → β} {g : α → List β} (l : List α)
    (h : ∀ a ∈ l, [f a].Sublist (g a)) : (l.map f).Sublist (l.flatMap g) := by
  have e : ∀ l : List α, l.map f = l.flatMap (fun a => [f a]) := by
    intro l
    induction l with
    | nil => rfl
    | cons a l ih => simp [ih]
  rw [e]
  exact sublist_flatMap_congr l h

end Sub

/-! ### the key lists inside `nodeUuids` -/

theorem interval_blocks_sub {s : SectionV} {x : IntervalV} (hx : x ∈ s.intervals) :
    (x.blocks.map (·.uuid)).Sublist s.nodeUuids := by
  have h1 : (x.blocks.map (·.uuid)).Sublist (x.blockUuids ++ [x.uuid]) :=
    List.sublist_append_left _ _
  have h2 := sublist_flatMap_of_mem (f := fun x : IntervalV => x.blockUuids ++ [x.uuid]) hx
  exact (h1.trans h2).trans (List.sublist_cons_self _ _)

theorem section_intervals_sub (s : SectionV) :
    (s.intervals.map (·.uuid)).Sublist s.nodeUuids := by
  refine (map_sublist_flatMap (g := fun x : IntervalV => x.blockUuids ++ [x.uuid]) _ ?_).trans
    (List.sublist_cons_self _ _)
  intro x _
  exact List.sublist_append_right _ _

theorem module_proxies_sub (m : ModuleV) : m.proxies.Sublist m.nodeUuids := by
  unfold ModuleV.nodeUuids
  rw [List.cons_append, List.cons_append, List.append_assoc]
  exact (List.sublist_append_left _ _).trans (List.sublist_cons_self _ _)

theorem module_sectionNodes_sub (m : ModuleV) :
    (m.sections.flatMap (·.nodeUuids)).Sublist m.nodeUuids := by
  unfold ModuleV.nodeUuids
  rw [List.cons_append, List.cons_append]
  exact ((List.sublist_append_right _ _).trans (List.sublist_append_left _ _)).trans
    (List.sublist_cons_self _ _)

theorem module_symbols_sub (m : ModuleV) : (m.symbols.map (·.uuid)).Sublist m.nodeUuids := by
  unfold ModuleV.nodeUuids
  rw [List.cons_append, List.cons_append]
  exact (List.sublist_append_right _ _).trans (List.sublist_cons_self _ _)

theorem module_sections_sub (m : ModuleV) : (m.sections.map (·.uuid)).Sublist m.nodeUuids := by
  refine (map_sublist_flatMap (g := SectionV.nodeUuids) _ ?_).trans (module_sectionNodes_sub m)
  intro s _
  unfold SectionV.nodeUuids
  exact (List.nil_sublist _).cons_cons _

theorem module_section_sub {m : ModuleV} {s : SectionV} (hs : s ∈ m.sections) :
    s.nodeUuids.Sublist m.nodeUuids :=
  (sublist_flatMap_of_mem (f := SectionV.nodeUuids) hs).trans (module_sectionNodes_sub m)

theorem module_blocks_sub (m : ModuleV) :
    (m.sections.flatMap fun s => s.intervals.flatMap fun x => x.blocks.map (·.uuid)).Sublist
      m.nodeUuids := by
  refine (sublist_flatMap_congr (g := SectionV.nodeUuids) _ ?_).trans (module_sectionNodes_sub m)
  intro s _
  refine (sublist_flatMap_congr (g := fun x : IntervalV => x.blockUuids ++ [x.uuid]) _ ?_).trans
    (List.sublist_cons_self _ _)
  intro x _
  exact List.sublist_append_left _ _

theorem ir_module_sub {v : IRV} {m : ModuleV} (hm : m ∈ v.modules) :
    m.nodeUuids.Sublist v.nodeUuids :=
  (sublist_flatMap_of_mem (f := ModuleV.nodeUuids) hm).trans (List.sublist_cons_self _ _)

theorem ir_modules_sub (v : IRV) : (v.modules.map (·.uuid)).Sublist v.nodeUuids := by
  refine (map_sublist_flatMap (g := ModuleV.nodeUuids) _ ?_).trans (List.sublist_cons_self _ _)
  intro m _
  unfold ModuleV.nodeUuids
  rw [List.cons_append, List.cons_append]
  exact (List.nil_sublist _).cons_cons _

theorem ir_blocks_sub (v : IRV) : (v.blocks.map (·.uuid)).Sublist v.nodeUuids := by
  have e : v.blocks.map (·.uuid) = v.modules.flatMap fun m =>
      m.sections.flatMap fun s => s.intervals.flatMap fun x => x.blocks.map (·.uuid) := by
    simp only [IRV.blocks, List.map_flatMap]
  rw [e]
  exact (sublist_flatMap_congr (g := ModuleV.nodeUuids) _ (fun m _ => module_blocks_sub m)).trans
    (List.sublist_cons_self _ _)

theorem ir_symbols_sub (v : IRV) : (v.symbols.map (·.uuid)).Sublist v.nodeUuids := by
  have e : v.symbols.map (·.uuid) = v.modules.flatMap fun m => m.symbols.map (·.uuid) := by
    simp only [IRV.symbols, List.map_flatMap]
  rw [e]
  exact (sublist_flatMap_congr (g := ModuleV.nodeUuids) _ (fun m _ => module_symbols_sub m)).trans
    (List.sublist_cons_self _ _)

/-! ### unpacking `wfir` -/

/-- every module of the list passes `moduleOK` with some list of earlier modules,
all of which belong to the IR -/
theorem modulesOK_mem : ∀ (ms earlier : List ModuleV), modulesOK earlier ms = true →
    ∀ m ∈ ms, ∃ E, moduleOK E m = true ∧ ∀ m' ∈ E ++ [m], m' ∈ earlier ++ ms
  | [], _, _, m, hm => by cases hm
  | m0 :: ms, earlier, h, m, hm => by
    simp only [modulesOK, Bool.and_eq_true] at h
    rcases List.mem_cons.1 hm with rfl | hm
    · refine ⟨earlier, h.1, ?_⟩
      intro m' hm'
      simp only [List.mem_append, List.mem_cons, List.not_mem_nil, or_false] at hm' ⊢
      rcases hm' with h' | h'
      · exact .inl h'
      · exact .inr (.inl h')
    · obtain ⟨E, hE, hsub⟩ := modulesOK_mem ms (earlier ++ [m0]) h.2 m hm
      refine ⟨E, hE, ?_⟩
      intro m' hm'
      have := hsub m' hm'
      simpa using this

structure WfParts (v : IRV) : Prop where
  nodup : v.nodeUuids.Nodup
  aux : (v.aux.map (·.key)).Nodup
  edges : v.edges.Nodup
  mods : ∀ m ∈ v.modules, ∃ E, moduleOK E m = true ∧ ∀ m' ∈ E ++ [m], m' ∈ v.modules
  cfg : ∀ e ∈ v.edges,
    e.src ∈ (v.modules.flatMap fun m => m.codeUuids ++ m.proxies) ∧
    e.dst ∈ (v.modules.flatMap fun m => m.codeUuids ++ m.proxies)

theorem wfParts_of_wfir {v : IRV} (h : wfir v = true) : WfParts v := by
  simp only [wfir, Bool.and_eq_true, List.all_eq_true, beq_iff_eq, nodupB_iff,
    decide_eq_true_eq] at h
  obtain ⟨⟨⟨⟨⟨⟨_, hnd⟩, _⟩, hmods⟩, haux⟩, hen⟩, hedges⟩ := h
  refine ⟨hnd, haux, hen, ?_, fun e he => (hedges e he).1⟩
  intro m hm
  obtain ⟨E, hE, hsub⟩ := modulesOK_mem v.modules [] hmods m hm
  exact ⟨E, hE, fun m' hm' => by simpa using hsub m' hm'⟩

/-! ### visible UUIDs resolve -/

theorem findBlock_isSome_of_block {v : IRV} {u : U} {b : BlockV} (hb : b ∈ v.blocks)
    (hu : b.uuid = u) : (v.findBlock u).isSome = true := by
  unfold IRV.findBlock
  split
  · rfl
  · rename_i hnone
    rw [List.find?_eq_none] at hnone
    exact absurd (by simpa using hu) (hnone b hb)

theorem findBlock_isSome_of_proxy {v : IRV} {u : U} (hp : u ∈ v.proxies) :
    (v.findBlock u).isSome = true := by
  unfold IRV.findBlock
  split
  · rfl
  · simp [hp]

theorem findSymbol_isSome_of_mem {v : IRV} {u : U} {s : SymbolV} (hs : s ∈ v.symbols)
    (hu : s.uuid = u) : (v.findSymbol u).isSome = true := by
  unfold IRV.findSymbol
  rw [List.find?_isSome]
  exact ⟨s, hs, by simpa using hu⟩

theorem findBlock_of_codeUuids {v : IRV} {m : ModuleV} {u : U} (hm : m ∈ v.modules)
    (h : u ∈ m.codeUuids) : (v.findBlock u).isSome = true := by
  simp only [ModuleV.codeUuids, List.mem_flatMap, List.mem_filterMap] at h
  obtain ⟨s, hs, x, hx, b, hb, hbu⟩ := h
  have hmem : b ∈ v.blocks := by
    simp only [IRV.blocks, List.mem_flatMap]
    exact ⟨m, hm, s, hs, x, hx, hb⟩
  cases b with
  | code u' off sz dm =>
    simp only [Option.some.injEq] at hbu
    exact findBlock_isSome_of_block hmem hbu
  | data u' off sz => simp at hbu

theorem findBlock_of_proxies {v : IRV} {m : ModuleV} {u : U} (hm : m ∈ v.modules)
    (h : u ∈ m.proxies) : (v.findBlock u).isSome = true :=
  findBlock_isSome_of_proxy (List.mem_flatMap.2 ⟨m, hm, h⟩)

theorem findBlock_of_blockUuids {v : IRV} {m : ModuleV} {u : U} (hm : m ∈ v.modules)
    (h : u ∈ m.blockUuids) : (v.findBlock u).isSome = true := by
  simp only [ModuleV.blockUuids, List.mem_append, List.mem_flatMap, IntervalV.blockUuids,
    List.mem_map] at h
  rcases h with ⟨s, hs, x, hx, b, hb, hbu⟩ | hp
  · refine findBlock_isSome_of_block (b := b) ?_ hbu
    simp only [IRV.blocks, List.mem_flatMap]
    exact ⟨m, hm, s, hs, x, hx, hb⟩
  · exact findBlock_of_proxies hm hp

theorem findSymbol_of_symUuids {v : IRV} {m : ModuleV} {u : U} (hm : m ∈ v.modules)
    (h : u ∈ m.symbols.map (·.uuid)) : (v.findSymbol u).isSome = true := by
  obtain ⟨s, hs, hu⟩ := List.mem_map.1 h
  exact findSymbol_isSome_of_mem (List.mem_flatMap.2 ⟨m, hm, hs⟩) hu

/-! ### the two hypotheses -/

theorem moduleOk_of_moduleOK {v : IRV} {E : List ModuleV} {m : ModuleV}
    (h : moduleOK E m = true) (hsub : ∀ m' ∈ E ++ [m], m' ∈ v.modules) : ModuleOk v m := by
  simp only [moduleOK, Bool.and_eq_true, List.all_eq_true, decide_eq_true_eq, nodupB_iff] at h
  obtain ⟨⟨⟨⟨_, hentry⟩, hrefs⟩, _⟩, hsecs⟩ := h
  refine ⟨?_, ?_, ?_⟩
  · intro s hs x hx e he u hu
    have hall := ((hsecs s hs).2 x hx).2 e he
    have hu' : u ∈ exprSyms e.expr := by
      revert hu; cases e.expr <;> exact id
    obtain ⟨m', hm', hc⟩ := mem_vis (f := fun e => e.symbols.map (·.uuid)) (hall.2 u hu')
    exact findSymbol_of_symUuids (hsub m' hm') hc
  · intro s hs u hu
    have := hrefs s hs
    cases hp : s.payload with
    | none => rw [hp] at hu; cases hu
    | value n => rw [hp] at hu; cases hu
    | referent r =>
      rw [hp] at hu this
      have hur : u = r := by simpa [PayloadV.refs] using hu
      subst hur
      have := of_decide_eq_true this
      obtain ⟨m', hm', hc⟩ := mem_vis (f := ModuleV.blockUuids) this
      exact findBlock_of_blockUuids (hsub m' hm') hc
  · intro u hu
    cases he : m.entryPoint with
    | none => rw [he] at hu; cases hu
    | some r =>
      rw [he] at hu hentry
      have hur : u = r := by simpa using hu
      subst hur
      have := of_decide_eq_true hentry
      obtain ⟨m', hm', hc⟩ := mem_vis (f := ModuleV.codeUuids) this
      exact findBlock_of_codeUuids (hsub m' hm') hc

theorem distinctModule_of_moduleOK {E : List ModuleV} {m : ModuleV}
    (h : moduleOK E m = true) (hn : m.nodeUuids.Nodup) : DistinctModule m := by
  simp only [moduleOK, Bool.and_eq_true, List.all_eq_true, decide_eq_true_eq, nodupB_iff] at h
  obtain ⟨⟨_, haux⟩, hsecs⟩ := h
  refine ⟨(module_proxies_sub m).nodup hn, (module_sections_sub m).nodup hn,
    (module_symbols_sub m).nodup hn, haux, ?_⟩
  intro s hs
  have hns : s.nodeUuids.Nodup := (module_section_sub hs).nodup hn
  refine ⟨(hsecs s hs).1.2, (section_intervals_sub s).nodup hns, ?_⟩
  intro x hx
  have hxk := (hsecs s hs).2 x hx
  exact ⟨(interval_blocks_sub hx).nodup hns, hxk.1.2, fun e he => (hxk.2 e he).1⟩

theorem selfContained_of_wfParts {v : IRV} (p : WfParts v) : SelfContained v := by
  refine ⟨(ir_blocks_sub v).nodup p.nodup, (ir_symbols_sub v).nodup p.nodup, ?_, ?_⟩
  · intro m hm
    obtain ⟨E, hE, hsub⟩ := p.mods m hm
    exact moduleOk_of_moduleOK hE hsub
  · intro e he
    have cfg : ∀ u, u ∈ (v.modules.flatMap fun m => m.codeUuids ++ m.proxies) →
        (v.findBlock u).isSome = true := by
      intro u hu
      obtain ⟨m, hm, hu⟩ := List.mem_flatMap.1 hu
      rcases List.mem_append.1 hu with hc | hp
      · exact findBlock_of_codeUuids hm hc
      · exact findBlock_of_proxies hm hp
    exact ⟨cfg _ (p.cfg e he).1, cfg _ (p.cfg e he).2⟩

theorem distinctSiblings_of_wfParts {v : IRV} (p : WfParts v) : DistinctSiblings v := by
  refine ⟨(ir_modules_sub v).nodup p.nodup, p.edges, p.aux, ?_⟩
  intro m hm
  obtain ⟨E, hE, _⟩ := p.mods m hm
  exact distinctModule_of_moduleOK hE ((ir_module_sub hm).nodup p.nodup)

end Gtirb.Msg
