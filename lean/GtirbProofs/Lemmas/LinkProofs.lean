import GtirbModel.Skel
import GtirbProofs.Lemmas.ProtoProofs
import GtirbProofs.Lemmas.LoaderProofs
/-! Lemmas for the link between the two models of the reader (C01Link):
`Proto.fromMsg` (values) and `Loader.load` (object graph), through `Loader.skelOf`.

Part 1: `natOfBytes` is injective on byte strings of equal length; a message accepted by
        `fromMsg` has a skeleton.
Part 2: what the forest operations do on freshly allocated, detached nodes (they do not raise).
Part 3: the invariant relating the value-level environment and the graph-level table, and the
        decoders one by one. -/
namespace Gtirb.Loader
open Gtirb.Forest
open Gtirb.Msg (Env KindTag U MIR MModule MSection MByteInterval MBlock MSymbol MSymExpr MEdge All2
  checkUuid fresh)

/-! ## Part 1a: `natOfBytes` -/

theorem natOfBytes_foldl (b : Bytes) (a : Nat) :
    b.foldl (fun acc x => acc * 256 + x.toNat) a = a * 256 ^ b.length + natOfBytes b := by
  induction b generalizing a with
  | nil => simp [natOfBytes]
  | cons x xs ih =>
    simp only [List.foldl_cons, List.length_cons, natOfBytes]
    rw [ih, ih (0 * 256 + x.toNat)]
    simp only [Nat.zero_mul, Nat.zero_add, Nat.pow_succ]
    rw [Nat.add_mul, Nat.mul_assoc, Nat.mul_comm (256 ^ xs.length) 256, Nat.add_assoc]

theorem natOfBytes_cons (x : UInt8) (xs : Bytes) :
    natOfBytes (x :: xs) = x.toNat * 256 ^ xs.length + natOfBytes xs := by
  have := natOfBytes_foldl xs (0 * 256 + x.toNat)
  simp only [Nat.zero_mul, Nat.zero_add] at this
  simpa [natOfBytes] using this

theorem natOfBytes_lt (b : Bytes) : natOfBytes b < 256 ^ b.length := by
  induction b with
  | nil => simp [natOfBytes]
  | cons x xs ih =>
    rw [natOfBytes_cons, List.length_cons, Nat.pow_succ]
    have hx : x.toNat < 256 := x.toNat_lt
    have h1 : x.toNat * 256 ^ xs.length + 256 ^ xs.length ≤ 256 * 256 ^ xs.length := by
      have : (x.toNat + 1) * 256 ^ xs.length ≤ 256 * 256 ^ xs.length :=
        Nat.mul_le_mul_right _ (by omega)
      rw [Nat.add_mul, Nat.one_mul] at this
      exact this
    rw [Nat.mul_comm (256 ^ xs.length) 256]
    omega

/-- `uuid.UUID(bytes=b).int` determines `b` among byte strings of one length -/
theorem natOfBytes_inj : ∀ (a b : Bytes), a.length = b.length → natOfBytes a = natOfBytes b → a = b
  | [], [], _, _ => rfl
  | [], _ :: _, h, _ => by simp at h
  | _ :: _, [], h, _ => by simp at h
  | x :: xs, y :: ys, hl, h => by
    have hl' : xs.length = ys.length := by simpa using hl
    rw [natOfBytes_cons, natOfBytes_cons, hl'] at h
    have hP : 0 < 256 ^ ys.length := Nat.pow_pos (by omega)
    have h1 := natOfBytes_lt xs
    have h2 := natOfBytes_lt ys
    rw [hl'] at h1
    have hq : x.toNat = y.toNat := by
      have e1 : (x.toNat * 256 ^ ys.length + natOfBytes xs) / 256 ^ ys.length = x.toNat := by
        rw [Nat.add_comm, Nat.add_mul_div_right _ _ hP, Nat.div_eq_of_lt h1, Nat.zero_add]
      have e2 : (y.toNat * 256 ^ ys.length + natOfBytes ys) / 256 ^ ys.length = y.toNat := by
        rw [Nat.add_comm, Nat.add_mul_div_right _ _ hP, Nat.div_eq_of_lt h2, Nat.zero_add]
      rw [← e1, ← e2, h]
    have hr : natOfBytes xs = natOfBytes ys := by rw [hq] at h; omega
    have hxy : x = y := UInt8.toNat_inj.1 hq
    rw [hxy, natOfBytes_inj xs ys hl' hr]

theorem natOfBytes_inj16 {a b : Bytes} (ha : a.length = 16) (hb : b.length = 16)
    (h : natOfBytes a = natOfBytes b) : a = b := natOfBytes_inj a b (ha.trans hb.symm) h

theorem uOk_iff (b : Bytes) : uOk b = true ↔ b.length = 16 := by simp [uOk]

/-! ## Part 1b: `allSome` -/

theorem allSome_map_exists {α β : Type} (f : α → Option β) :
    ∀ (l : List α), (∀ a, a ∈ l → ∃ b, f a = some b) → ∃ bs, allSome (l.map f) = some bs
  | [], _ => ⟨[], rfl⟩
  | a :: l, h => by
    obtain ⟨b, hb⟩ := h a List.mem_cons_self
    obtain ⟨bs, hbs⟩ := allSome_map_exists f l (fun a' ha' => h a' (List.mem_cons_of_mem _ ha'))
    exact ⟨b :: bs, by simp [allSome, hb, hbs]⟩

theorem allSome_map_all2 {α β : Type} (f : α → Option β) :
    ∀ (l : List α) (bs : List β), allSome (l.map f) = some bs → All2 (fun a b => f a = some b) l bs
  | [], bs, h => by simp [allSome] at h; subst h; exact .nil
  | a :: l, bs, h => by
    simp only [List.map_cons] at h
    cases ha : f a with
    | none => rw [ha] at h; simp [allSome] at h
    | some b =>
      rw [ha] at h
      simp only [allSome, Option.map_eq_some_iff] at h
      obtain ⟨bs', hbs', rfl⟩ := h
      exact .cons ha (allSome_map_all2 f l bs' hbs')

theorem all2_map_eq {α β γ : Type} {R : α → β → Prop} {f : α → γ} {g : β → γ} {as : List α} {bs : List β}
    (h : All2 R as bs) (hfg : ∀ a b, R a b → f a = g b) : as.map f = bs.map g := by
  induction h with
  | nil => rfl
  | cons hr _ ih => simp [hfg _ _ hr, ih]

/-! ## Part 1c: the value-level decoders as chains of single steps -/

/-- `E env a env'` for every element in turn, threading the environment -/
inductive Chain {α : Type} (E : Env → α → Env → Prop) : Env → List α → Env → Prop
  | nil (env : Env) : Chain E env [] env
  | cons {env env1 env' : Env} {a : α} {as : List α} : E env a env1 → Chain E env1 as env' →
      Chain E env (a :: as) env'

theorem Chain.each {α : Type} {E : Env → α → Env → Prop} {env env' : Env} {as : List α}
    (h : Chain E env as env') : ∀ a, a ∈ as → ∃ e e', E e a e' := by
  induction h with
  | nil => intro a ha; cases ha
  | cons h1 _ ih =>
    intro a ha
    rcases List.mem_cons.1 ha with rfl | ha
    · exact ⟨_, _, h1⟩
    · exact ih a ha

def EBlock (env : Env) (b : MBlock) (env' : Env) : Prop := ∃ v, Msg.decodeBlock env b = .ok (v, env')
def EInterval (env : Env) (x : MByteInterval) (env' : Env) : Prop := ∃ v, Msg.decodeInterval env x = .ok (v, env')
def ESection (env : Env) (s : MSection) (env' : Env) : Prop := ∃ v, Msg.decodeSection env s = .ok (v, env')
def EProxy (env : Env) (p : Bytes) (env' : Env) : Prop :=
  p.length = 16 ∧ env.find p = none ∧ env' = (p, KindTag.proxy) :: env
def ESymbol (env : Env) (s : MSymbol) (env' : Env) : Prop := ∃ v, Msg.decodeSymbol env s = .ok (v, env')
def EModule (env : Env) (m : MModule) (env' : Env) : Prop := ∃ v, Msg.decodeModule env m = .ok (v, env')

theorem fresh_find {env : Env} {u : Bytes} {k : KindTag} {r : Unit} (h : fresh env u k = .ok r) :
    u.length = 16 ∧ env.find u = none := by
  obtain ⟨h1, h2⟩ := Msg.fresh_ok h
  exact ⟨h1, Msg.Env.find_none_iff.2 h2⟩

theorem decodeBlocks_chain : ∀ (bs : List MBlock) {env env' : Env} {vs : List Msg.BlockV},
    Msg.decodeBlocks env bs = .ok (vs, env') → Chain EBlock env bs env'
  | [], env, env', vs, h => by
    simp [Msg.decodeBlocks] at h; obtain ⟨_, rfl⟩ := h; exact .nil _
  | b :: bs, env, env', vs, h => by
    unfold Msg.decodeBlocks at h
    split at h
    · cases h
    · next v env1 h1 =>
      split at h
      · cases h
      · next vs' env2 h2 =>
        cases h
        exact .cons ⟨v, h1⟩ (decodeBlocks_chain bs h2)

theorem decodeIntervals_chain : ∀ (xs : List MByteInterval) {env env' : Env} {vs : List Msg.IntervalV},
    Msg.decodeIntervals env xs = .ok (vs, env') → Chain EInterval env xs env'
  | [], env, env', vs, h => by
    simp [Msg.decodeIntervals] at h; obtain ⟨_, rfl⟩ := h; exact .nil _
  | b :: bs, env, env', vs, h => by
    unfold Msg.decodeIntervals at h
    split at h
    · cases h
    · next v env1 h1 =>
      split at h
      · cases h
      · next vs' env2 h2 =>
        cases h
        exact .cons ⟨v, h1⟩ (decodeIntervals_chain bs h2)

theorem decodeSections_chain : ∀ (xs : List MSection) {env env' : Env} {vs : List Msg.SectionV},
    Msg.decodeSections env xs = .ok (vs, env') → Chain ESection env xs env'
  | [], env, env', vs, h => by
    simp [Msg.decodeSections] at h; obtain ⟨_, rfl⟩ := h; exact .nil _
  | b :: bs, env, env', vs, h => by
    unfold Msg.decodeSections at h
    split at h
    · cases h
    · next v env1 h1 =>
      split at h
      · cases h
      · next vs' env2 h2 =>
        cases h
        exact .cons ⟨v, h1⟩ (decodeSections_chain bs h2)

theorem decodeSymbols_chain : ∀ (xs : List MSymbol) {env env' : Env} {vs : List Msg.SymbolV},
    Msg.decodeSymbols env xs = .ok (vs, env') → Chain ESymbol env xs env'
  | [], env, env', vs, h => by
    simp [Msg.decodeSymbols] at h; obtain ⟨_, rfl⟩ := h; exact .nil _
  | b :: bs, env, env', vs, h => by
    unfold Msg.decodeSymbols at h
    split at h
    · cases h
    · next v env1 h1 =>
      split at h
      · cases h
      · next vs' env2 h2 =>
        cases h
        exact .cons ⟨v, h1⟩ (decodeSymbols_chain bs h2)

theorem decodeModules_chain : ∀ (xs : List MModule) {env env' : Env} {vs : List Msg.ModuleV},
    Msg.decodeModules env xs = .ok (vs, env') → Chain EModule env xs env'
  | [], env, env', vs, h => by
    simp [Msg.decodeModules] at h; obtain ⟨_, rfl⟩ := h; exact .nil _
  | b :: bs, env, env', vs, h => by
    unfold Msg.decodeModules at h
    split at h
    · cases h
    · next v env1 h1 =>
      split at h
      · cases h
      · next vs' env2 h2 =>
        cases h
        exact .cons ⟨v, h1⟩ (decodeModules_chain bs h2)

theorem decodeProxies_chain : ∀ (ps : List Bytes) {env env' : Env} {vs : List U},
    Msg.decodeProxies env ps = .ok (vs, env') → Chain EProxy env ps env'
  | [], env, env', vs, h => by
    simp [Msg.decodeProxies] at h; obtain ⟨_, rfl⟩ := h; exact .nil _
  | p :: ps, env, env', vs, h => by
    unfold Msg.decodeProxies at h
    split at h
    · cases h
    · next r hf =>
      split at h
      · cases h
      · next vs' env2 h2 =>
        cases h
        obtain ⟨a, b⟩ := fresh_find hf
        exact .cons ⟨a, b, rfl⟩ (decodeProxies_chain ps h2)

/-! ### one-step inversions -/

theorem decodeBlock_inv {env env' : Env} {b : MBlock} (h : EBlock env b env') :
    ∃ (u : Bytes) (k : KindTag), (k = .code ∨ k = .data) ∧ u.length = 16 ∧ env.find u = none ∧
      env' = (u, k) :: env ∧ skBlock b = some (natOfBytes u, decide (k = .code)) := by
  obtain ⟨v, h⟩ := h
  obtain ⟨off, val⟩ := b
  unfold Msg.decodeBlock at h
  simp only at h
  split at h
  · cases h
  · next _ c =>
    split at h
    · cases h
    · next r hf =>
      obtain ⟨a, b⟩ := fresh_find hf
      split at h
      · cases h
        exact ⟨c.uuid, .code, .inl rfl, a, b, rfl, by simp [skBlock, uOk, a]⟩
      · cases h
  · next _ d =>
    split at h
    · cases h
    · next r hf =>
      obtain ⟨a, b⟩ := fresh_find hf
      cases h
      exact ⟨d.uuid, .data, .inr rfl, a, b, rfl, by simp [skBlock, uOk, a]⟩

theorem decodeInterval_inv {env env' : Env} {x : MByteInterval} (h : EInterval env x env') :
    x.uuid.length = 16 ∧ env.find x.uuid = none ∧ x.contents.length ≤ x.size ∧
    ∃ env1, Chain EBlock env x.blocks env1 ∧ env' = (x.uuid, KindTag.interval) :: env1 := by
  obtain ⟨v, h⟩ := h
  unfold Msg.decodeInterval at h
  split at h
  · cases h
  · next r hf =>
    obtain ⟨a, b⟩ := fresh_find hf
    split at h
    · cases h
    · next hlen =>
      split at h
      · cases h
      · next blocks env1 hb =>
        cases h
        exact ⟨a, b, by omega, env1, decodeBlocks_chain _ hb, rfl⟩

theorem decodeSection_inv {env env' : Env} {s : MSection} (h : ESection env s env') :
    s.uuid.length = 16 ∧ env.find s.uuid = none ∧
    Chain EInterval ((s.uuid, KindTag.section) :: env) s.byteIntervals env' := by
  obtain ⟨v, h⟩ := h
  unfold Msg.decodeSection at h
  split at h
  · cases h
  · next r hf =>
    obtain ⟨a, b⟩ := fresh_find hf
    split at h
    · split at h
      · cases h
      · next ivs env1 hb =>
        cases h
        exact ⟨a, b, decodeIntervals_chain _ hb⟩
    · cases h

theorem decodeSymbol_inv {env env' : Env} {s : MSymbol} (h : ESymbol env s env') :
    s.uuid.length = 16 ∧ env.find s.uuid = none ∧ env' = (s.uuid, KindTag.symbol) :: env ∧
    ∀ u, s.payload = some (.referentUuid u) →
      u.length = 16 ∧ ∃ k, env.find u = some k ∧ Msg.isBlockKind k = true := by
  obtain ⟨v, h⟩ := h
  obtain ⟨mu, mp, mn, ma⟩ := s
  unfold Msg.decodeSymbol at h
  simp only at h
  split at h
  · cases h
  · next r hf =>
    obtain ⟨a, b⟩ := fresh_find hf
    split at h
    · cases h
    · next pl hpl =>
      cases h
      refine ⟨a, b, rfl, ?_⟩
      intro u hu
      simp only at hu
      subst hu
      simp only at hpl
      split at hpl
      · cases hpl
      · next r' hc =>
        split at hpl
        · next k hk =>
          split at hpl
          · next hbk => exact ⟨Msg.checkUuid_ok hc, k, hk, hbk⟩
          · cases hpl
        · cases hpl

/-- the symbols an accepted expression names are symbols of the table -/
def SymU (env : Env) (n : Nat) : Prop := ∃ u : Bytes, u.length = 16 ∧ n = natOfBytes u ∧ env.find u = some KindTag.symbol

theorem decodeExpr_sk {env : Env} {kv : Nat × MSymExpr} {e : Msg.ExprEntryV} (h : Msg.decodeExpr env kv = .ok e) :
    ∃ l, skExprSyms kv.2 = some l ∧ ∀ n, n ∈ l → SymU env n := by
  obtain ⟨k, mv, fl⟩ := kv
  unfold Msg.decodeExpr at h
  simp only at h
  split at h
  · cases h
  · next hv off s =>
    split at h
    · cases h
    · next r hs =>
      obtain ⟨a, b⟩ := Msg.symRef_ok hs
      refine ⟨[natOfBytes s], by simp [skExprSyms, uOk, a], ?_⟩
      intro n hn
      simp at hn
      exact ⟨s, a, hn, b⟩
  · next hv sc off s1 s2 =>
    split at h
    · cases h
    · next r hs1 =>
      split at h
      · cases h
      · next r' hs2 =>
        obtain ⟨a1, b1⟩ := Msg.symRef_ok hs1
        obtain ⟨a2, b2⟩ := Msg.symRef_ok hs2
        refine ⟨[natOfBytes s1, natOfBytes s2], by simp [skExprSyms, uOk, a1, a2], ?_⟩
        intro n hn
        simp at hn
        rcases hn with hn | hn
        · exact ⟨s1, a1, hn, b1⟩
        · exact ⟨s2, a2, hn, b2⟩

theorem decodeExprs_sk {env : Env} : ∀ (kvs : List (Nat × MSymExpr)) {es : List Msg.ExprEntryV},
    Msg.decodeExprs env kvs = .ok es →
    ∃ ls, allSome (kvs.map fun kv => skExprSyms kv.2) = some ls ∧ ∀ n, n ∈ ls.flatten → SymU env n
  | [], _, _ => ⟨[], rfl, by simp⟩
  | kv :: kvs, es, h => by
    unfold Msg.decodeExprs at h
    split at h
    · cases h
    · next v h1 =>
      split at h
      · cases h
      · next vs h2 =>
        obtain ⟨l, hl, hl'⟩ := decodeExpr_sk h1
        obtain ⟨ls, hls, hls'⟩ := decodeExprs_sk kvs h2
        refine ⟨l :: ls, by simp [allSome, hl, hls], ?_⟩
        intro n hn
        simp only [List.flatten_cons, List.mem_append] at hn
        rcases hn with hn | hn
        · exact hl' n hn
        · exact hls' n hn

/-- the second pass succeeded on every interval of every section -/
def ExprsOK (env : Env) (ss : List MSection) : Prop :=
  ∀ s, s ∈ ss → ∀ x, x ∈ s.byteIntervals → ∃ es, Msg.decodeExprs env x.symbolicExpressions = .ok es

theorem fillExprsIntervals_each {env : Env} : ∀ (vs : List Msg.IntervalV) (xs : List MByteInterval)
    {rs : List Msg.IntervalV}, vs.length = xs.length → Msg.fillExprsIntervals env vs xs = .ok rs →
    ∀ x, x ∈ xs → ∃ es, Msg.decodeExprs env x.symbolicExpressions = .ok es
  | [], [], _, _, _ => by intro x hx; cases hx
  | [], _ :: _, _, hl, _ => by simp at hl
  | _ :: _, [], _, hl, _ => by simp at hl
  | v :: vs, x :: xs, rs, hl, h => by
    unfold Msg.fillExprsIntervals at h
    split at h
    · cases h
    · next es he =>
      split at h
      · cases h
      · next rest hr =>
        intro y hy
        rcases List.mem_cons.1 hy with rfl | hy
        · exact ⟨es, he⟩
        · exact fillExprsIntervals_each vs xs (by simpa using hl) hr y hy

theorem fillExprsSections_each {env : Env} {vs : List Msg.SectionV} {ss : List MSection}
    (hl : All2 (fun v x => v.intervals.length = x.byteIntervals.length) vs ss) :
    ∀ {rs : List Msg.SectionV}, Msg.fillExprsSections env vs ss = .ok rs → ExprsOK env ss := by
  induction hl with
  | nil => intro rs _ s hs; cases hs
  | cons hab _ ih =>
    intro rs h
    unfold Msg.fillExprsSections at h
    split at h
    · cases h
    · next ivs hi =>
      split at h
      · cases h
      · next rest hr =>
        intro s hs
        rcases List.mem_cons.1 hs with rfl | hs
        · exact fillExprsIntervals_each _ _ hab hi
        · exact ih hr s hs

/-- what an accepted module message went through, step by step -/
theorem decodeModule_inv {env env' : Env} {m : MModule} (h : EModule env m env') :
    m.uuid.length = 16 ∧ env.find m.uuid = none ∧
    ∃ env1 env2, Chain EProxy ((m.uuid, KindTag.module) :: env) m.proxies env1 ∧
      Chain ESection env1 m.sections env2 ∧
      (m.entryPoint.isEmpty = true ∨ (m.entryPoint.length = 16 ∧ env2.find m.entryPoint = some KindTag.code)) ∧
      Chain ESymbol env2 m.symbols env' ∧ ExprsOK env' m.sections := by
  obtain ⟨v, h⟩ := h
  unfold Msg.decodeModule at h
  split at h
  · cases h
  · next r hf =>
    obtain ⟨a, b⟩ := fresh_find hf
    split at h
    · cases h
    · split at h
      · cases h
      · next proxies env1 hp =>
        split at h
        · cases h
        · next secs env2 hs =>
          split at h
          · cases h
          · next entry hentry =>
            split at h
            · cases h
            · next syms env3 hsy =>
              split at h
              · cases h
              · next secs' hfill =>
                cases h
                refine ⟨a, b, env1, env2, decodeProxies_chain _ hp, decodeSections_chain _ hs, ?_,
                  decodeSymbols_chain _ hsy, ?_⟩
                · split at hentry
                  · next he => exact .inl he
                  · split at hentry
                    · cases hentry
                    · next r' hc =>
                      split at hentry
                      · next hk => exact .inr ⟨Msg.checkUuid_ok hc, hk⟩
                      · cases hentry
                · obtain ⟨s1, _⟩ := Msg.decodeSections_ok hs
                  exact fillExprsSections_each (s1.imp fun a b hab => hab.2.2.2.2.1.length_eq) hfill

/-! ## Part 1d: an accepted message has a skeleton; what the skeleton of a part consists of -/

theorem skInterval_inv {x : MByteInterval} {sx : SkInterval} {es : List Nat} (h : skInterval x = some (sx, es)) :
    ∃ bs ls, allSome (x.blocks.map skBlock) = some bs ∧
      allSome (x.symbolicExpressions.map fun kv => skExprSyms kv.2) = some ls ∧
      sx = ⟨natOfBytes x.uuid, bs⟩ ∧ es = ls.flatten := by
  unfold skInterval at h
  split at h
  · cases h
  · split at h
    · next bs ls hb hl =>
      cases h
      exact ⟨bs, ls, hb, hl, rfl, rfl⟩
    · cases h

theorem skInterval_exists {env env' env3 : Env} {x : MByteInterval} (h : EInterval env x env')
    (he : ∃ es, Msg.decodeExprs env3 x.symbolicExpressions = .ok es) : ∃ p, skInterval x = some p := by
  obtain ⟨h16, _, hlen, env1, hch, _⟩ := decodeInterval_inv h
  obtain ⟨bs, hbs⟩ := allSome_map_exists skBlock x.blocks (fun b hb => by
    obtain ⟨e, e', hE⟩ := hch.each b hb
    obtain ⟨u, k, _, _, _, _, hsk⟩ := decodeBlock_inv hE
    exact ⟨_, hsk⟩)
  obtain ⟨es, hes⟩ := he
  obtain ⟨ls, hls, _⟩ := decodeExprs_sk _ hes
  refine ⟨(⟨natOfBytes x.uuid, bs⟩, ls.flatten), ?_⟩
  unfold skInterval
  rw [if_neg (by simp [uOk, h16]; omega), hbs, hls]

theorem skSection_inv {s : MSection} {ss : SkSection} {es : List Nat} (h : skSection s = some (ss, es)) :
    ∃ xs, allSome (s.byteIntervals.map skInterval) = some xs ∧
      ss = ⟨natOfBytes s.uuid, xs.map (·.1)⟩ ∧ es = (xs.map (·.2)).flatten := by
  unfold skSection at h
  split at h
  · cases h
  · split at h
    · next xs hx => cases h; exact ⟨xs, hx, rfl, rfl⟩
    · cases h

theorem skSection_exists {env env' env3 : Env} {s : MSection} (h : ESection env s env')
    (he : ∀ x, x ∈ s.byteIntervals → ∃ es, Msg.decodeExprs env3 x.symbolicExpressions = .ok es) :
    ∃ p, skSection s = some p := by
  obtain ⟨h16, _, hch⟩ := decodeSection_inv h
  obtain ⟨xs, hxs⟩ := allSome_map_exists skInterval s.byteIntervals (fun x hx => by
    obtain ⟨e, e', hE⟩ := hch.each x hx
    exact skInterval_exists hE (he x hx))
  refine ⟨(⟨natOfBytes s.uuid, xs.map (·.1)⟩, (xs.map (·.2)).flatten), ?_⟩
  unfold skSection
  rw [if_neg (by simp [uOk, h16]), hxs]

theorem skSymbol_exists {env env' : Env} (names : List String) {y : MSymbol} (h : ESymbol env y env') :
    ∃ p, skSymbol names y = some p := by
  obtain ⟨h16, _, _, href⟩ := decodeSymbol_inv h
  unfold skSymbol
  rw [if_neg (by simp [uOk, h16])]
  cases hp : y.payload with
  | none => exact ⟨_, rfl⟩
  | some pl =>
    cases pl with
    | value n => exact ⟨_, rfl⟩
    | referentUuid u =>
      obtain ⟨hu, _⟩ := href u hp
      simp only []
      rw [if_pos (by simp [uOk, hu])]
      exact ⟨_, rfl⟩

theorem skModule_inv {names : List String} {m : MModule} {sm : SkModule} (h : skModule names m = some sm) :
    ∃ ss ys, allSome (m.sections.map skSection) = some ss ∧ allSome (m.symbols.map (skSymbol names)) = some ys ∧
      sm = { uuid := natOfBytes m.uuid, proxies := m.proxies.map natOfBytes,
             sections := ss.map (·.1), symbols := ys,
             entry := if m.entryPoint.isEmpty then none else some (natOfBytes m.entryPoint),
             exprSyms := (ss.map (·.2)).flatten } := by
  unfold skModule at h
  split at h
  · cases h
  · split at h
    · next ss ys hs hy => cases h; exact ⟨ss, ys, hs, hy, rfl⟩
    · cases h

theorem Chain_EProxy_len {env env' : Env} {ps : List Bytes} (h : Chain EProxy env ps env') :
    ∀ p, p ∈ ps → p.length = 16 := by
  intro p hp
  obtain ⟨e, e', h1, _⟩ := h.each p hp
  exact h1

theorem skModule_exists {env env' : Env} (names : List String) {m : MModule} (h : EModule env m env') :
    ∃ p, skModule names m = some p := by
  obtain ⟨h16, _, env1, env2, hpx, hsec, hentry, hsym, hex⟩ := decodeModule_inv h
  obtain ⟨ss, hss⟩ := allSome_map_exists skSection m.sections (fun s hs => by
    obtain ⟨e, e', hE⟩ := hsec.each s hs
    exact skSection_exists hE (hex s hs))
  obtain ⟨ys, hys⟩ := allSome_map_exists (skSymbol names) m.symbols (fun y hy => by
    obtain ⟨e, e', hE⟩ := hsym.each y hy
    exact skSymbol_exists names hE)
  have hcond : (!uOk m.uuid || !(m.entryPoint.isEmpty || uOk m.entryPoint) || !(m.proxies.all uOk)) = false := by
    have h1 : uOk m.uuid = true := (uOk_iff _).2 h16
    have h2 : (m.entryPoint.isEmpty || uOk m.entryPoint) = true := by
      rcases hentry with he | ⟨he, _⟩
      · simp [he]
      · simp [(uOk_iff _).2 he]
    have h3 : m.proxies.all uOk = true := by
      rw [List.all_eq_true]
      intro p hp
      exact (uOk_iff _).2 (Chain_EProxy_len hpx p hp)
    simp [h1, h2, h3]
  unfold skModule
  rw [hcond, hss, hys]
  exact ⟨_, rfl⟩

theorem skelOf_inv {m : MIR} {sk : SkIR} (h : skelOf m = some sk) :
    ∃ ms, allSome (m.modules.map (skModule (m.modules.flatMap fun md => md.symbols.map (·.name)))) = some ms ∧
      sk = ⟨natOfBytes m.uuid, ms, m.cfg.edges.map fun e => (natOfBytes e.sourceUuid, natOfBytes e.targetUuid)⟩ := by
  unfold skelOf at h
  simp only [] at h
  split at h
  · cases h
  · split at h
    · next ms hms => cases h; exact ⟨ms, hms, rfl⟩
    · cases h

/-- what an accepted message went through -/
theorem fromMsg_inv {m : MIR} {v : Msg.IRV} (h : Msg.fromMsg m = .ok v) :
    m.uuid.length = 16 ∧ ∃ env, Chain EModule [(m.uuid, KindTag.ir)] m.modules env ∧
      ∀ e, e ∈ m.cfg.edges →
        (e.sourceUuid.length = 16 ∧ (env.find e.sourceUuid = some .code ∨ env.find e.sourceUuid = some .proxy)) ∧
        (e.targetUuid.length = 16 ∧ (env.find e.targetUuid = some .code ∨ env.find e.targetUuid = some .proxy)) := by
  unfold Msg.fromMsg at h
  split at h
  · cases h
  · next r hc =>
    split at h
    · cases h
    · split at h
      · cases h
      · next mods env hm =>
        split at h
        · cases h
        · next edges he =>
          refine ⟨Msg.checkUuid_ok hc, env, decodeModules_chain _ hm, ?_⟩
          obtain ⟨e1, e2⟩ := Msg.decodeEdges_ok he
          intro e hmem
          have hmem' : Msg.edgeOfMsg e ∈ edges := by rw [e1]; exact List.mem_map_of_mem hmem
          obtain ⟨a, b, _⟩ := e2 _ hmem'
          exact ⟨a, b⟩

/-- stage 1: a message the value-level reader accepts has a skeleton -/
theorem skelOf_exists {m : MIR} {v : Msg.IRV} (h : Msg.fromMsg m = .ok v) : ∃ sk, skelOf m = some sk := by
  obtain ⟨h16, env, hch, hed⟩ := fromMsg_inv h
  obtain ⟨ms, hms⟩ := allSome_map_exists
    (skModule (m.modules.flatMap fun md => md.symbols.map (·.name))) m.modules (fun md hmd => by
      obtain ⟨e, e', hE⟩ := hch.each md hmd
      exact skModule_exists _ hE)
  have hcond : (!uOk m.uuid || !(m.cfg.edges.all fun e => uOk e.sourceUuid && uOk e.targetUuid)) = false := by
    have h1 : uOk m.uuid = true := (uOk_iff _).2 h16
    have h2 : (m.cfg.edges.all fun e => uOk e.sourceUuid && uOk e.targetUuid) = true := by
      rw [List.all_eq_true]
      intro e he
      obtain ⟨⟨a, _⟩, ⟨b, _⟩⟩ := hed e he
      simp [(uOk_iff _).2 a, (uOk_iff _).2 b]
    simp [h1, h2]
  unfold skelOf
  simp only []
  rw [hcond, hms]
  exact ⟨_, rfl⟩

/-! ## Part 2: the forest operations on freshly allocated, detached nodes -/

theorem fromProto_miss {g : G} {ir u : Nat} (k : Kind) (h : g.cache ir u = none) :
    fromProto g ir k u = .ok ((alloc g k u).1, g.n, true) := by
  unfold fromProto
  rw [h]
  rfl

/-- the nodes `xs` were appended to collection `s` of `p`; nothing else changed but the symbol indexes -/
structure Attached (g g' : G) (p : Nat) (s : Slot) (xs : List Nat) : Prop where
  n : g'.n = g.n
  kind : g'.kind = g.kind
  uuid : g'.uuid = g.uuid
  name : g'.name = g.name
  payload : g'.payload = g.payload
  cache : g'.cache = g.cache
  par : ∀ x, g'.par x = if x ∈ xs then some p else g.par x
  kids : ∀ q s', g'.kids q s' = if q = p ∧ s' = s then g.kids p s ++ xs else g.kids q s'

theorem Attached.nil (g : G) (p : Nat) (s : Slot) : Attached g g p s [] :=
  ⟨rfl, rfl, rfl, rfl, rfl, rfl, fun x => by simp, fun q s' => by
    split
    · next h => rw [h.1, h.2]; simp
    · rfl⟩

theorem Attached.trans {a b c : G} {p : Nat} {s : Slot} {x : Nat} {xs : List Nat}
    (h1 : Attached a b p s [x]) (h2 : Attached b c p s xs) : Attached a c p s (x :: xs) := by
  refine ⟨h2.n.trans h1.n, h2.kind.trans h1.kind, h2.uuid.trans h1.uuid, h2.name.trans h1.name,
    h2.payload.trans h1.payload, h2.cache.trans h1.cache, ?_, ?_⟩
  · intro y
    rw [h2.par, h1.par]
    by_cases hy : y ∈ xs
    · simp [hy]
    · by_cases hyx : y = x
      · simp [hyx]
      · simp [hy, hyx]
  · intro q s'
    rw [h2.kids, h1.kids p s, h1.kids q s']
    by_cases h : q = p ∧ s' = s
    · simp [h]
    · simp [h]

theorem setAdd_fresh {g : G} {p v : Nat} {s : Slot} (hv : g.par v = none) (hp : g.par p = none)
    (hk : g.kind p ≠ .ir) (hne : p ≠ v) (hnm : v ∉ g.kids p s) :
    ∃ g', setAdd g p s v = .ok g' ∧ Attached g g' p s [v] := by
  have key : ∀ g3 : G, OnlyIdx (setPar g v (some p)) g3 →
      ∃ g', (Except.ok (kidsInsert (match irOf g3 p with
        | some i => cacheAdd g3 i v
        | none => g3) p s v) : Except Exc G) = .ok g' ∧ Attached g g' p s [v] := by
    intro g3 h3
    have hir : irOf g3 p = none := by
      rw [irOf_congr h3.core]
      have : (setPar g v (some p)).par p = none := by simp [hne, hp]
      rw [cache_irOf_root this]
      simp [hk]
    rw [hir]
    refine ⟨_, rfl, ?_⟩
    refine ⟨by simp [h3.n], by simp [h3.kind], by simp [h3.uuid], by simp [h3.name], by simp [h3.payload],
      by simp [h3.cache], ?_, ?_⟩
    · intro x; simp [h3.par]
    · intro q s'
      simp only [kidsInsert_kids, h3.kids, setPar_kids]
      have : setInsertNat (g.kids p s) v = g.kids p s ++ [v] := by
        unfold setInsertNat; rw [if_neg hnm]
      rw [this]
  unfold setAdd
  rw [hv]
  simp only []
  have h3 : OnlyIdx (setPar g v (some p)) (if s = Slot.secs ∨ s = Slot.syms ∨ s = Slot.proxies
      then symIndexAdd (setPar g v (some p)) p v else setPar g v (some p)) := by
    split
    · exact onlyIdx_symIndexAdd _ _ _
    · exact OnlyIdx.refl _
  exact key _ h3

/-- `for x in xs: p.<coll>.add(x)` on detached nodes does not raise and appends in order -/
theorem attach_all {p : Nat} {s : Slot} : ∀ (xs : List Nat) (g : G), g.par p = none → g.kind p ≠ .ir →
    (∀ x, x ∈ xs → g.par x = none ∧ x ≠ p ∧ x ∉ g.kids p s) → xs.Nodup →
    ∃ g', foldE (fun g x => setAdd g p s x) xs g = .ok g' ∧ Attached g g' p s xs
  | [], g, _, _, _, _ => ⟨g, rfl, Attached.nil g p s⟩
  | x :: xs, g, hp, hk, hxs, hnd => by
    obtain ⟨hx1, hx2, hx3⟩ := hxs x List.mem_cons_self
    obtain ⟨g1, h1, a1⟩ := setAdd_fresh (s := s) hx1 hp hk (Ne.symm hx2) hx3
    rw [List.nodup_cons] at hnd
    obtain ⟨g2, h2, a2⟩ := attach_all (p := p) (s := s) xs g1 (by rw [a1.par]; simp [Ne.symm hx2, hp]) (by rw [a1.kind]; exact hk)
      (fun y hy => by
        obtain ⟨hy1, hy2, hy3⟩ := hxs y (List.mem_cons_of_mem _ hy)
        have hyx : y ≠ x := fun e => hnd.1 (e ▸ hy)
        refine ⟨by rw [a1.par]; simp [hyx, hy1], hy2, ?_⟩
        rw [a1.kids]; simp [hy3, hyx]) hnd.2
    refine ⟨g2, ?_, a1.trans a2⟩
    simp only [foldE]
    rw [h1]
    exact h2

theorem eraseDups_of_nodup : ∀ (l : List Nat), l.Nodup → l.eraseDups = l
  | [], _ => by simp
  | a :: l, h => by
    rw [List.nodup_cons] at h
    rw [List.eraseDups_cons]
    have : l.filter (fun b => !b == a) = l := by
      rw [List.filter_eq_self]
      intro b hb
      have : b ≠ a := fun e => h.1 (e ▸ hb)
      simp [this]
    rw [this, eraseDups_of_nodup l h.2]

theorem foldl_kidsInsert_fresh (p : Nat) (s : Slot) : ∀ (xs : List Nat) (g : G), xs.Nodup →
    (∀ x, x ∈ xs → x ∉ g.kids p s) →
    (xs.foldl (fun g v => kidsInsert g p s v) g) = kidsSet g p s (g.kids p s ++ xs)
  | [], g, _, _ => by
    show g = _
    cases g
    simp only [kidsSet, List.append_nil]
    congr
    funext q s'
    split
    · next h => rw [h.1, h.2]
    · rfl
  | x :: xs, g, hnd, hx => by
    rw [List.nodup_cons] at hnd
    rw [List.foldl_cons, foldl_kidsInsert_fresh p s xs _ hnd.2]
    · have hxi : setInsertNat (g.kids p s) x = g.kids p s ++ [x] := by
        unfold setInsertNat; rw [if_neg (hx x List.mem_cons_self)]
      cases g
      simp only [kidsSet, kidsInsert]
      congr
      funext q s'
      by_cases h : q = p ∧ s' = s
      · simp only [h, and_self, if_true]
        simp only [] at hxi
        rw [hxi]; simp
      · simp [h]
    · intro y hy
      simp only [kidsInsert_kids, and_self, if_true]
      rw [mem_setInsertNat]
      rintro (h | h)
      · exact hx y (List.mem_cons_of_mem _ hy) h
      · exact hnd.1 (h ▸ hy)

theorem blkLoop_fresh (p : Nat) : ∀ (L : List Nat) (g1 : G), L.Nodup → (∀ v, v ∈ L → g1.par v = none) →
    ∃ g2, foldE (cache_blkStep none p) L g1 = .ok g2 ∧ g2.n = g1.n ∧ g2.kind = g1.kind ∧ g2.uuid = g1.uuid ∧
      g2.name = g1.name ∧ g2.payload = g1.payload ∧ g2.cache = g1.cache ∧ g2.kids = g1.kids ∧
      ∀ x, g2.par x = if x ∈ L then some p else g1.par x
  | [], g1, _, _ => ⟨g1, rfl, rfl, rfl, rfl, rfl, rfl, rfl, rfl, fun x => by simp⟩
  | a :: L, g1, hnd, hL => by
    rw [List.nodup_cons] at hnd
    have hstep : cache_blkStep none p g1 a = .ok (setPar g1 a (some p)) := by
      unfold cache_blkStep
      rw [hL a List.mem_cons_self]
      rfl
    obtain ⟨g2, e, h1, h2, h3, h4, h5, h6, h7, h8⟩ := blkLoop_fresh p L (setPar g1 a (some p)) hnd.2 (fun v hv => by
      have hva : v ≠ a := fun e => hnd.1 (e ▸ hv)
      simp only [setPar_par, if_neg hva]
      exact hL v (List.mem_cons_of_mem _ hv))
    refine ⟨g2, ?_, h1, h2, h3, h4, h5, h6, h7, ?_⟩
    · simp only [foldE]; rw [hstep]; exact e
    · intro x
      rw [h8]
      simp only [setPar_par, List.mem_cons]
      by_cases hx : x ∈ L
      · simp [hx]
      · by_cases hxa : x = a
        · simp [hxa]
        · simp [hx, hxa]

/-- `blocks.update(vs)` on a detached interval with detached new blocks does not raise -/
theorem blkUpdate_fresh {g : G} {p : Nat} {vs : List Nat} (hp : g.par p = none) (hk : g.kind p ≠ .ir)
    (hvs : ∀ v, v ∈ vs → g.par v = none) (hnd : vs.Nodup) (hkids : g.kids p .blocks = []) :
    ∃ g', blkUpdate g p vs = .ok g' ∧ Attached g g' p .blocks vs := by
  have hir : irOf g p = none := by rw [cache_irOf_root hp]; simp [hk]
  have hnew : cache_blkNew g p vs = vs := by
    unfold cache_blkNew
    rw [eraseDups_of_nodup vs hnd, hkids]; simp
  obtain ⟨g2, e, h1, h2, h3, h4, h5, h6, h7, h8⟩ := blkLoop_fresh p vs g hnd hvs
  rw [cache_blkUpdate_eq, hnew, hir, e]
  refine ⟨_, rfl, ?_⟩
  rw [foldl_kidsInsert_fresh p .blocks vs g2 hnd (by rw [h7, hkids]; simp)]
  refine ⟨h1, h2, h3, h4, h5, h6, h8, ?_⟩
  intro q s'
  simp only [kidsSet_kids, h7]

theorem pyInsert_end (l : List Nat) (v : Nat) : pyInsert l (l.length : Int) v = l ++ [v] := by
  unfold pyInsert
  have h1 : ¬ ((l.length : Int) < 0) := by omega
  simp only [h1, if_false, Int.lt_irrefl, Int.toNat_natCast, List.take_length, List.drop_length]

/-- `ir.modules.append(v)` for a detached module does not raise -/
theorem modAppend_fresh {g : G} {i v : Nat} (hv : g.par v = none) :
    modAppend g i v = .ok (kidsSet (cacheAdd (setPar g v (some i)) i v) i .mods (g.kids i .mods ++ [v])) := by
  unfold modAppend modInsert modHookAdd
  rw [hv]
  simp only []
  rw [(onlyCache_cacheAdd _ _ _).kids]
  simp only [setPar_kids, pyInsert_end]

/-! ## Part 3: the invariant between the value-level environment and the graph-level table -/

def kindOf : KindTag → Kind
  | .ir => .ir | .module => .module | .section => .section | .interval => .interval
  | .code => .code | .data => .data | .proxy => .proxy | .symbol => .symbol

/-- the kinds references may name -/
def leafTag : KindTag → Bool
  | .code | .data | .proxy | .symbol => true
  | _ => false

theorem find_cons (env : Env) (u : Bytes) (k : KindTag) (u' : Bytes) :
    Env.find ((u, k) :: env) u' = if u = u' then some k else env.find u' := by
  unfold Msg.Env.find
  by_cases h : u = u'
  · simp [h]
  · simp [h]

/-- The table of the new IR and the environment of the value-level reader: a 16-byte UUID the
environment does not know has no entry, and a UUID the environment knows as a block, proxy or symbol
has an entry of that kind.  (An interval may share its UUID with one of its own blocks: the
value-level reader checks the interval's freshness before, and registers it after, its blocks;
the environment then says `interval`, the table names the block. Hence leaf kinds only.) -/
structure Inv (ir : Nat) (env : Env) (g : G) : Prop where
  dom : ∀ u : Bytes, u.length = 16 → env.find u = none → g.cache ir (natOfBytes u) = none
  leafs : ∀ (u : Bytes) (k : KindTag), u.length = 16 → env.find u = some k → leafTag k = true →
    ∃ n, g.cache ir (natOfBytes u) = some n ∧ n < g.n ∧ g.kind n = kindOf k ∧ g.uuid n = natOfBytes u

/-- node `y` carries a UUID of the environment, with the kind the environment says (leaf kinds) -/
def NodeOK (env : Env) (g : G) (y : Nat) : Prop :=
  ∃ u : Bytes, u.length = 16 ∧ g.uuid y = natOfBytes u ∧
    ∃ k, env.find u = some k ∧ (leafTag k = true → g.kind y = kindOf k)

/-- later environments know the same UUIDs, with the same leaf kinds -/
def EnvExt (env env' : Env) : Prop :=
  ∀ u k, env.find u = some k → ∃ k', env'.find u = some k' ∧ (leafTag k' = true → k' = k)

theorem EnvExt.refl (env : Env) : EnvExt env env := fun _ k h => ⟨k, h, fun _ => rfl⟩

theorem EnvExt.trans {a b c : Env} (h1 : EnvExt a b) (h2 : EnvExt b c) : EnvExt a c := by
  intro u k h
  obtain ⟨k1, e1, l1⟩ := h1 u k h
  obtain ⟨k2, e2, l2⟩ := h2 u k1 e1
  refine ⟨k2, e2, fun hl => ?_⟩
  have := l2 hl
  subst this
  exact l1 hl

theorem EnvExt.push_fresh {env : Env} {u : Bytes} (k : KindTag) (h : env.find u = none) :
    EnvExt env ((u, k) :: env) := by
  intro u' k' h'
  rw [find_cons]
  by_cases e : u = u'
  · subst e; rw [h] at h'; cases h'
  · rw [if_neg e]; exact ⟨k', h', fun _ => rfl⟩

theorem EnvExt.push_nonleaf {env : Env} (u : Bytes) {k : KindTag} (h : leafTag k = false) :
    EnvExt env ((u, k) :: env) := by
  intro u' k' h'
  rw [find_cons]
  by_cases e : u = u'
  · rw [if_pos e]; exact ⟨k, rfl, fun hl => by rw [h] at hl; cases hl⟩
  · rw [if_neg e]; exact ⟨k', h', fun _ => rfl⟩

theorem Chain.ext {α : Type} {E : Env → α → Env → Prop} (hE : ∀ env a env', E env a env' → EnvExt env env')
    {env env' : Env} {as : List α} (h : Chain E env as env') : EnvExt env env' := by
  induction h with
  | nil => exact EnvExt.refl _
  | cons h1 _ ih => exact (hE _ _ _ h1).trans ih

theorem NodeOK.mono {env env' : Env} {g g' : G} {y : Nat} (h : NodeOK env g y) (he : EnvExt env env')
    (hk : g'.kind y = g.kind y) (hu : g'.uuid y = g.uuid y) : NodeOK env' g' y := by
  obtain ⟨u, h16, huu, k, hf, hl⟩ := h
  obtain ⟨k', hf', hl'⟩ := he u k hf
  refine ⟨u, h16, by rw [hu]; exact huu, k', hf', fun hh => ?_⟩
  have := hl' hh
  subst this
  rw [hk]; exact hl hh

theorem Inv.of_eq {ir : Nat} {env : Env} {g g' : G} (h : Inv ir env g) (hc : g'.cache = g.cache)
    (hn : g.n ≤ g'.n) (hold : ∀ x, x < g.n → g'.kind x = g.kind x ∧ g'.uuid x = g.uuid x) : Inv ir env g' := by
  refine ⟨fun u h16 hf => by rw [hc]; exact h.dom u h16 hf, ?_⟩
  intro u k h16 hf hl
  obtain ⟨n, h1, h2, h3, h4⟩ := h.leafs u k h16 hf hl
  exact ⟨n, by rw [hc]; exact h1, by omega, by rw [(hold n h2).1]; exact h3, by rw [(hold n h2).2]; exact h4⟩

theorem Inv.alloc {ir : Nat} {env : Env} {g : G} (h : Inv ir env g) (k : Kind) (u : Nat) :
    Inv ir env (alloc g k u).1 :=
  h.of_eq rfl (Nat.le_succ _) (fun x hx => by simp [Nat.ne_of_lt hx])

theorem Inv.push_set {ir : Nat} {env : Env} {g : G} (h : Inv ir env g) {u : Bytes} {k : KindTag} {v : Nat}
    (h16 : u.length = 16) (hv : v < g.n) (hk : g.kind v = kindOf k) (hu : g.uuid v = natOfBytes u) :
    Inv ir ((u, k) :: env) (cacheSet g ir (natOfBytes u) v) := by
  refine ⟨?_, ?_⟩
  · intro u' h16' hf
    rw [find_cons] at hf
    by_cases e : u = u'
    · rw [if_pos e] at hf; cases hf
    · rw [if_neg e] at hf
      have hne : natOfBytes u' ≠ natOfBytes u := fun hh => e (natOfBytes_inj16 h16' h16 hh).symm
      simp only [cacheSet_cache, hne, and_false, if_false]
      exact h.dom u' h16' hf
  · intro u' k' h16' hf hl
    rw [find_cons] at hf
    by_cases e : u = u'
    · rw [if_pos e] at hf; cases hf; subst e
      exact ⟨v, by simp, hv, hk, hu⟩
    · rw [if_neg e] at hf
      have hne : natOfBytes u' ≠ natOfBytes u := fun hh => e (natOfBytes_inj16 h16' h16 hh).symm
      obtain ⟨n, h1, h2, h3, h4⟩ := h.leafs u' k' h16' hf hl
      exact ⟨n, by simp only [cacheSet_cache, hne, and_false, if_false]; exact h1, h2, h3, h4⟩

theorem Inv.push_nonleaf {ir : Nat} {env : Env} {g : G} (h : Inv ir env g) (u : Bytes) {k : KindTag}
    (hk : leafTag k = false) : Inv ir ((u, k) :: env) g := by
  refine ⟨?_, ?_⟩
  · intro u' h16' hf
    rw [find_cons] at hf
    by_cases e : u = u'
    · rw [if_pos e] at hf; cases hf
    · rw [if_neg e] at hf; exact h.dom u' h16' hf
  · intro u' k' h16' hf hl
    rw [find_cons] at hf
    by_cases e : u = u'
    · rw [if_pos e] at hf; cases hf; rw [hk] at hl; cases hl
    · rw [if_neg e] at hf; exact h.leafs u' k' h16' hf hl

/-- registering nodes that carry UUIDs of the environment, with the kinds the environment says -/
theorem Inv.setAll {ir : Nat} {env : Env} {g : G} (h : Inv ir env g) (L : List Nat)
    (hL : ∀ y, y ∈ L → y < g.n ∧ NodeOK env g y) : Inv ir env (cache_setAll g ir L) := by
  have ho := cache_setAll_only ir L g
  refine ⟨?_, ?_⟩
  · intro u h16 hf
    rcases setAll_cases ir L g ir (natOfBytes u) with ⟨y, hy, hyu, _, _⟩ | ⟨hc, _⟩
    · obtain ⟨_, u', h16', hu', k, hf', _⟩ := hL y hy
      have : u' = u := natOfBytes_inj16 h16' h16 (hu'.symm.trans hyu)
      subst this
      rw [hf] at hf'; cases hf'
    · rw [hc]; exact h.dom u h16 hf
  · intro u k h16 hf hl
    rcases setAll_cases ir L g ir (natOfBytes u) with ⟨y, hy, hyu, _, hc⟩ | ⟨hc, _⟩
    · obtain ⟨hyn, u', h16', hu', k', hf', hk'⟩ := hL y hy
      have : u' = u := natOfBytes_inj16 h16' h16 (hu'.symm.trans hyu)
      subst this
      rw [hf] at hf'; cases hf'
      exact ⟨y, hc, by rw [ho.n]; exact hyn, by rw [ho.kind]; exact hk' hl, by rw [ho.uuid]; exact hyu⟩
    · obtain ⟨n, h1, h2, h3, h4⟩ := h.leafs u k h16 hf hl
      exact ⟨n, by rw [hc]; exact h1, by rw [ho.n]; exact h2, by rw [ho.kind]; exact h3, by rw [ho.uuid]; exact h4⟩

/-- owning collections and referents name allocated nodes only -/
structure WF (g : G) : Prop where
  kids : ∀ y s c, c ∈ g.kids y s → c < g.n
  refs : ∀ y b, g.payload y = .block b → b < g.n

theorem WF.alloc {g : G} (h : WF g) (k : Kind) (u : Nat) : WF (alloc g k u).1 := by
  refine ⟨?_, ?_⟩
  · intro y s c hc
    simp only [alloc_kids] at hc
    split at hc
    · cases hc
    · exact Nat.lt_succ_of_lt (h.kids y s c hc)
  · intro y b hb
    exact Nat.lt_succ_of_lt (h.refs y b hb)

theorem WF.of_cache {g g' : G} (h : WF g) (hn : g'.n = g.n) (hk : g'.kids = g.kids) (hp : g'.payload = g.payload) :
    WF g' :=
  ⟨fun y s c hc => by rw [hn]; rw [hk] at hc; exact h.kids y s c hc,
   fun y b hb => by rw [hn]; rw [hp] at hb; exact h.refs y b hb⟩

theorem WF.attached {g g' : G} {p : Nat} {s : Slot} {xs : List Nat} (h : WF g) (a : Attached g g' p s xs)
    (hxs : ∀ x, x ∈ xs → x < g.n) : WF g' := by
  refine ⟨?_, fun y b hb => by rw [a.n]; rw [a.payload] at hb; exact h.refs y b hb⟩
  intro y s' c hc
  rw [a.n]
  rw [a.kids] at hc
  split at hc
  · rcases List.mem_append.1 hc with hc | hc
    · exact h.kids _ _ c hc
    · exact hxs c hc
  · exact h.kids _ _ c hc

/-- the nodes below `N` are untouched (everything but the table and the symbol indexes) -/
def Same (N : Nat) (g g' : G) : Prop :=
  ∀ x, x < N → g'.kind x = g.kind x ∧ g'.uuid x = g.uuid x ∧ g'.par x = g.par x ∧ g'.name x = g.name x ∧
    g'.payload x = g.payload x ∧ ∀ s, g'.kids x s = g.kids x s

theorem Same.refl (N : Nat) (g : G) : Same N g g := fun _ _ => ⟨rfl, rfl, rfl, rfl, rfl, fun _ => rfl⟩

theorem Same.trans {N M : Nat} {a b c : G} (h1 : Same N a b) (h2 : Same M b c) (hNM : N ≤ M) : Same N a c := by
  intro x hx
  obtain ⟨a1, a2, a3, a4, a5, a6⟩ := h1 x hx
  obtain ⟨b1, b2, b3, b4, b5, b6⟩ := h2 x (by omega)
  exact ⟨b1.trans a1, b2.trans a2, b3.trans a3, b4.trans a4, b5.trans a5, fun s => (b6 s).trans (a6 s)⟩

theorem Same.alloc (g : G) (k : Kind) (u : Nat) : Same g.n g (alloc g k u).1 := by
  intro x hx
  have : x ≠ g.n := Nat.ne_of_lt hx
  simp [this]

theorem Same.of_only {N : Nat} {g g' : G} (hk : g'.kind = g.kind) (hu : g'.uuid = g.uuid) (hp : g'.par = g.par)
    (hn : g'.name = g.name) (hpl : g'.payload = g.payload) (hkids : g'.kids = g.kids) : Same N g g' :=
  fun _ _ => ⟨by rw [hk], by rw [hu], by rw [hp], by rw [hn], by rw [hpl], fun _ => by rw [hkids]⟩

theorem Same.attached {N : Nat} {g g' : G} {p : Nat} {s : Slot} {xs : List Nat} (a : Attached g g' p s xs)
    (hp : N ≤ p) (hxs : ∀ x, x ∈ xs → N ≤ x) : Same N g g' := by
  intro x hx
  refine ⟨by rw [a.kind], by rw [a.uuid], ?_, by rw [a.name], by rw [a.payload], ?_⟩
  · rw [a.par, if_neg]
    intro hm; have := hxs x hm; omega
  · intro s'
    rw [a.kids, if_neg]
    intro hh; omega

/-! ### reading the structure back from the graph -/

def readBlock (g : G) (b : Nat) : Nat × Bool := (g.uuid b, g.kind b == Kind.code)
def readBlocks (g : G) (x : Nat) : List (Nat × Bool) := (g.kids x .blocks).map (readBlock g)
def readInterval (g : G) (x : Nat) : SkInterval := ⟨g.uuid x, readBlocks g x⟩
def readSection (g : G) (s : Nat) : SkSection := ⟨g.uuid s, (g.kids s .bis).map (readInterval g)⟩
def readPayload (g : G) (y : Nat) : SkPayload :=
  match g.payload y with
  | .none => .none
  | .int n => .int n
  | .block b => .ref (g.uuid b)
def readSymbol (g : G) (y : Nat) : SkSymbol := ⟨g.uuid y, g.name y, readPayload g y⟩
/-- a module as read back from the graph; entry point and expression symbols are not part of the
graph model -/
def readModule (g : G) (m : Nat) : Nat × List Nat × List SkSection × List SkSymbol :=
  (g.uuid m, (g.kids m .proxies).map g.uuid, (g.kids m .secs).map (readSection g),
   (g.kids m .syms).map (readSymbol g))
def skShape (m : SkModule) : Nat × List Nat × List SkSection × List SkSymbol :=
  (m.uuid, m.proxies, m.sections, m.symbols)

/-- `g` and `g'` agree on the nodes `P`, a set closed under the owning collections -/
structure Agree (P : Nat → Prop) (g g' : G) : Prop where
  closed : ∀ y, P y → ∀ s c, c ∈ g.kids y s → P c
  eq : ∀ y, P y → g'.kind y = g.kind y ∧ g'.uuid y = g.uuid y ∧ g'.name y = g.name y ∧
    g'.payload y = g.payload y ∧ ∀ s, g'.kids y s = g.kids y s
  ref : ∀ y b, P y → g.payload y = .block b → g'.uuid b = g.uuid b

theorem readBlock_agree {P : Nat → Prop} {g g' : G} (h : Agree P g g') {b : Nat} (hb : P b) :
    readBlock g' b = readBlock g b := by
  unfold readBlock; rw [(h.eq b hb).1, (h.eq b hb).2.1]

theorem readBlocks_agree {P : Nat → Prop} {g g' : G} (h : Agree P g g') {x : Nat} (hx : P x) :
    readBlocks g' x = readBlocks g x := by
  unfold readBlocks
  rw [(h.eq x hx).2.2.2.2 .blocks]
  exact List.map_congr_left (fun b hb => readBlock_agree h (h.closed x hx _ b hb))

theorem readInterval_agree {P : Nat → Prop} {g g' : G} (h : Agree P g g') {x : Nat} (hx : P x) :
    readInterval g' x = readInterval g x := by
  unfold readInterval; rw [(h.eq x hx).2.1, readBlocks_agree h hx]

theorem readSection_agree {P : Nat → Prop} {g g' : G} (h : Agree P g g') {x : Nat} (hx : P x) :
    readSection g' x = readSection g x := by
  unfold readSection
  rw [(h.eq x hx).2.1, (h.eq x hx).2.2.2.2 .bis]
  congr 1
  exact List.map_congr_left (fun b hb => readInterval_agree h (h.closed x hx _ b hb))

theorem readSymbol_agree {P : Nat → Prop} {g g' : G} (h : Agree P g g') {x : Nat} (hx : P x) :
    readSymbol g' x = readSymbol g x := by
  unfold readSymbol readPayload
  rw [(h.eq x hx).2.1, (h.eq x hx).2.2.1, (h.eq x hx).2.2.2.1]
  cases hp : g.payload x with
  | none => rfl
  | int n => rfl
  | block b => simp only []; rw [h.ref x b hx hp]

theorem readModule_agree {P : Nat → Prop} {g g' : G} (h : Agree P g g') {x : Nat} (hx : P x) :
    readModule g' x = readModule g x := by
  unfold readModule
  rw [(h.eq x hx).2.1, (h.eq x hx).2.2.2.2 .proxies, (h.eq x hx).2.2.2.2 .secs, (h.eq x hx).2.2.2.2 .syms]
  congr 2
  · exact List.map_congr_left (fun b hb => (h.eq b (h.closed x hx _ b hb)).2.1)
  · congr 1
    · exact List.map_congr_left (fun b hb => readSection_agree h (h.closed x hx _ b hb))
    · exact List.map_congr_left (fun b hb => readSymbol_agree h (h.closed x hx _ b hb))

theorem Agree.of_same {g g' : G} (hw : WF g) (h : Same g.n g g') : Agree (· < g.n) g g' :=
  ⟨fun y _ s c hc => hw.kids y s c hc,
   fun y hy => by obtain ⟨a1, a2, _, a4, a5, a6⟩ := h y hy; exact ⟨a1, a2, a4, a5, a6⟩,
   fun y b _ hb => (h b (hw.refs y b hb)).2.1⟩

theorem Agree.of_attached {g g' : G} {p : Nat} {s : Slot} {xs : List Nat} {N : Nat} (hw : WF g)
    (a : Attached g g' p s xs) (hp : p < N)
    (hup : ∀ y, N ≤ y → y < g.n → ∀ s c, c ∈ g.kids y s → y < c) :
    Agree (fun y => N ≤ y ∧ y < g.n) g g' := by
  refine ⟨?_, ?_, fun y b _ _ => by rw [a.uuid]⟩
  · intro y hy s' c hc
    have := hup y hy.1 hy.2 s' c hc
    exact ⟨by omega, hw.kids y s' c hc⟩
  · intro y hy
    refine ⟨by rw [a.kind], by rw [a.uuid], by rw [a.name], by rw [a.payload], fun s' => ?_⟩
    rw [a.kids, if_neg]
    intro hh; omega

/-! ### what the decoder of one element / of a list of elements guarantees -/

structure Elem (ir : Nat) (env' : Env) (g g' : G) (v : Nat) : Prop where
  inv : Inv ir env' g'
  wf : WF g'
  v_eq : v = g.n
  lt : g.n < g'.n
  same : Same g.n g g'
  par : g'.par v = none
  nodes : ∀ y, g.n ≤ y → y < g'.n → NodeOK env' g' y
  up : ∀ y, g.n ≤ y → y < g'.n → ∀ s c, c ∈ g'.kids y s → y < c

structure Elems (ir : Nat) (env' : Env) (g g' : G) (vs : List Nat) : Prop where
  inv : Inv ir env' g'
  wf : WF g'
  le : g.n ≤ g'.n
  same : Same g.n g g'
  mem : ∀ v, v ∈ vs → g.n ≤ v ∧ v < g'.n ∧ g'.par v = none
  nodup : vs.Nodup
  nodes : ∀ y, g.n ≤ y → y < g'.n → NodeOK env' g' y
  up : ∀ y, g.n ≤ y → y < g'.n → ∀ s c, c ∈ g'.kids y s → y < c

/-- decoding a list: element by element -/
theorem list_link {α β : Type} {ir : Nat} {f : G → β → Except LErr (G × Nat)} {E : Env → α → Env → Prop}
    {S : α → β → Prop} {rd : G → Nat → β}
    (hE : ∀ env a env', E env a env' → EnvExt env env')
    (hrd : ∀ g g' v, WF g → Same g.n g g' → v < g.n → rd g' v = rd g v)
    (hf : ∀ env a env' b g, E env a env' → S a b → Inv ir env g → WF g →
      ∃ g' v, f g b = .ok (g', v) ∧ Elem ir env' g g' v ∧ rd g' v = b) :
    ∀ (as : List α) (bs : List β) (env env' : Env) (g : G), Chain E env as env' → All2 S as bs →
      Inv ir env g → WF g →
      ∃ g' vs, decodeList f g bs = .ok (g', vs) ∧ Elems ir env' g g' vs ∧ vs.map (rd g') = bs := by
  intro as
  induction as with
  | nil =>
    intro bs env env' g hch hS hI hW
    cases hS
    cases hch
    exact ⟨g, [], rfl, ⟨hI, hW, Nat.le_refl _, Same.refl _ _, fun v hv => (by cases hv), List.nodup_nil,
      fun y h1 h2 => (by omega), fun y h1 h2 => (by omega)⟩, rfl⟩
  | cons a as ih =>
    intro bs env env' g hch hS hI hW
    cases hS with
    | cons hab hrest =>
      rename_i b bs'
      cases hch with
      | cons h1 hch' =>
        rename_i env1
        obtain ⟨g1, v, e1, el, r1⟩ := hf env a env1 b g h1 hab hI hW
        obtain ⟨g2, vs, e2, els, r2⟩ := ih bs' env1 env' g1 hch' hrest el.inv el.wf
        have hext : EnvExt env1 env' := hch'.ext hE
        have hvlt : v < g1.n := by rw [el.v_eq]; exact el.lt
        refine ⟨g2, v :: vs, ?_, ?_, ?_⟩
        · simp only [decodeList]; rw [e1]; simp only []; rw [e2]
        · refine ⟨els.inv, els.wf, Nat.le_trans (Nat.le_of_lt el.lt) els.le,
            el.same.trans els.same (Nat.le_of_lt el.lt), ?_, ?_, ?_, ?_⟩
          · intro w hw
            rcases List.mem_cons.1 hw with rfl | hw
            · refine ⟨by rw [el.v_eq]; exact Nat.le_refl _, Nat.lt_of_lt_of_le hvlt els.le, ?_⟩
              rw [(els.same w hvlt).2.2.1]; exact el.par
            · obtain ⟨m1, m2, m3⟩ := els.mem w hw
              exact ⟨Nat.le_trans (Nat.le_of_lt el.lt) m1, m2, m3⟩
          · rw [List.nodup_cons]
            refine ⟨fun hv => ?_, els.nodup⟩
            have := (els.mem v hv).1
            omega
          · intro y h1 h2
            by_cases hy : y < g1.n
            · exact (el.nodes y h1 hy).mono hext (els.same y hy).1 (els.same y hy).2.1
            · exact els.nodes y (by omega) h2
          · intro y h1 h2 s c hc
            by_cases hy : y < g1.n
            · rw [(els.same y hy).2.2.2.2.2 s] at hc
              exact el.up y h1 hy s c hc
            · exact els.up y (by omega) h2 s c hc
        · rw [List.map_cons, r2, hrd g1 g2 v el.wf els.same hvlt, r1]

/-! ### the decoders, one by one -/

theorem EBlock.ext {env env' : Env} {b : MBlock} (h : EBlock env b env') : EnvExt env env' := by
  obtain ⟨u, k, _, _, hf, rfl, _⟩ := decodeBlock_inv h
  exact EnvExt.push_fresh k hf

theorem EProxy.ext {env env' : Env} {p : Bytes} (h : EProxy env p env') : EnvExt env env' := by
  obtain ⟨_, hf, rfl⟩ := h
  exact EnvExt.push_fresh _ hf

/-- a fresh node that registers itself at once (block, proxy; first step of section, module) -/
theorem reg_elem {ir : Nat} {env : Env} {g : G} (hI : Inv ir env g) (hW : WF g) {u : Bytes} (k : KindTag)
    (h16 : u.length = 16) (_hf : env.find u = none) :
    Elem ir ((u, k) :: env) g (cacheSet (alloc g (kindOf k) (natOfBytes u)).1 ir (natOfBytes u) g.n) g.n := by
  refine ⟨?_, ?_, rfl, Nat.lt_succ_self _, ?_, ?_, ?_, ?_⟩
  · exact (hI.alloc _ _).push_set h16 (v := g.n) (Nat.lt_succ_self _) (by simp) (by simp)
  · exact (hW.alloc (kindOf k) (natOfBytes u)).of_cache rfl rfl rfl
  · exact Same.alloc g _ _
  · show (alloc g (kindOf k) (natOfBytes u)).1.par g.n = none; simp
  · intro y h1 h2
    have : y = g.n := by
      have : y < g.n + 1 := h2
      omega
    subst this
    refine ⟨u, h16, ?_, k, by rw [find_cons, if_pos rfl], fun _ => ?_⟩
    · show (alloc g (kindOf k) (natOfBytes u)).1.uuid g.n = _; simp
    · show (alloc g (kindOf k) (natOfBytes u)).1.kind g.n = _; simp
  · intro y h1 h2 s c hc
    have : y = g.n := by
      have : y < g.n + 1 := h2
      omega
    subst this
    have : (alloc g (kindOf k) (natOfBytes u)).1.kids g.n s = [] := by simp
    have hc' : c ∈ (alloc g (kindOf k) (natOfBytes u)).1.kids g.n s := hc
    rw [this] at hc'; cases hc'

theorem block_link {ir : Nat} (env : Env) (b : MBlock) (env' : Env) (p : Nat × Bool) (g : G)
    (hE : EBlock env b env') (hS : skBlock b = some p) (hI : Inv ir env g) (hW : WF g) :
    ∃ g' v, Loader.decodeBlock g ir p = .ok (g', v) ∧ Elem ir env' g g' v ∧ readBlock g' v = p := by
  obtain ⟨u, k, hk, h16, hf, rfl, hsk⟩ := decodeBlock_inv hE
  rw [hS] at hsk
  cases hsk
  have hkind : (if decide (k = KindTag.code) = true then Kind.code else Kind.data) = kindOf k := by
    rcases hk with rfl | rfl <;> rfl
  refine ⟨_, g.n, ?_, reg_elem hI hW k h16 hf, ?_⟩
  · unfold Loader.decodeBlock
    simp only [hkind]
    rw [fromProto_miss _ (hI.dom u h16 hf)]
    rfl
  · unfold readBlock
    show ((alloc g (kindOf k) (natOfBytes u)).1.uuid g.n, (alloc g (kindOf k) (natOfBytes u)).1.kind g.n == Kind.code) = _
    simp only [alloc_uuid, alloc_kind, if_true]
    rcases hk with rfl | rfl <;> rfl

theorem proxy_link {ir : Nat} (env : Env) (b : Bytes) (env' : Env) (p : Nat) (g : G)
    (hE : EProxy env b env') (hS : p = natOfBytes b) (hI : Inv ir env g) (hW : WF g) :
    ∃ g' v, Loader.decodeProxy g ir p = .ok (g', v) ∧ Elem ir env' g g' v ∧ g'.uuid v = p := by
  obtain ⟨h16, hf, rfl⟩ := hE
  subst hS
  refine ⟨_, g.n, ?_, reg_elem hI hW .proxy h16 hf, ?_⟩
  · unfold Loader.decodeProxy
    rw [fromProto_miss _ (hI.dom b h16 hf)]
    rfl
  · show (alloc g Kind.proxy (natOfBytes b)).1.uuid g.n = _
    simp

theorem readBlock_same {g g' : G} {v : Nat} (hW : WF g) (h : Same g.n g g') (hv : v < g.n) :
    readBlock g' v = readBlock g v := readBlock_agree (Agree.of_same hW h) hv

theorem interval_link {ir : Nat} (env : Env) (x : MByteInterval) (env' : Env) (sx : SkInterval) (g : G)
    (hE : EInterval env x env') (hS : ∃ es, skInterval x = some (sx, es)) (hI : Inv ir env g) (hW : WF g) :
    ∃ g' v, Loader.decodeInterval g ir sx = .ok (g', v) ∧ Elem ir env' g g' v ∧ readInterval g' v = sx := by
  obtain ⟨h16, hf, _, env1, hch, rfl⟩ := decodeInterval_inv hE
  obtain ⟨es, hS⟩ := hS
  obtain ⟨bs, ls, hbs, _, rfl, _⟩ := skInterval_inv hS
  -- the blocks
  obtain ⟨g2, vs, e2, els, r2⟩ := list_link (ir := ir) (f := fun g b => Loader.decodeBlock g ir b)
    (E := EBlock) (S := fun b p => skBlock b = some p) (rd := readBlock)
    (fun _ _ _ h => h.ext) (fun g g' v hw hs hv => readBlock_same hw hs hv)
    (fun env a env' b g h1 h2 h3 h4 => block_link env a env' b g h1 h2 h3 h4)
    x.blocks bs env env1 (alloc g .interval (natOfBytes x.uuid)).1 hch (allSome_map_all2 _ _ _ hbs)
    (hI.alloc _ _) (hW.alloc _ _)
  have hn1 : (alloc g .interval (natOfBytes x.uuid)).1.n = g.n + 1 := rfl
  have hvlt : g.n < (alloc g .interval (natOfBytes x.uuid)).1.n := Nat.lt_succ_self _
  obtain ⟨k2, u2, p2, _, _, kd2⟩ := els.same g.n hvlt
  simp only [alloc_kind, alloc_uuid, alloc_par, alloc_kids, if_true] at k2 u2 p2 kd2
  have hvs : ∀ w, w ∈ vs → g.n + 1 ≤ w ∧ w < g2.n ∧ g2.par w = none := els.mem
  -- blocks.update
  obtain ⟨g3, e3, a3⟩ := blkUpdate_fresh (g := g2) (p := g.n) (vs := vs) p2 (by rw [k2]; decide)
    (fun w hw => (hvs w hw).2.2) els.nodup (kd2 .blocks)
  have hnv : g.n ∉ vs := fun hm => by have := (hvs _ hm).1; omega
  have hkids3 : g3.kids g.n .blocks = vs := by rw [a3.kids]; simp [kd2 .blocks]
  -- the interval registers itself and its blocks
  have ho := cache_setAll_only ir (cache_walkI g3.kids g.n) g3
  refine ⟨cacheAddInterval g3 ir g.n, g.n, ?_, ?_, ?_⟩
  · unfold Loader.decodeInterval
    rw [fromProto_miss _ (hI.dom x.uuid h16 hf)]
    simp only [Bool.not_true, Bool.false_eq_true, if_false]
    rw [decodeBlocks_eq, e2]
    simp only []
    rw [e3]
    rfl
  · rw [cache_addInterval_eq]
    have hle12 : g.n + 1 ≤ g2.n := els.le
    have hn3 : g3.n = g2.n := a3.n
    have hnodes : ∀ y, g.n ≤ y → y < g3.n → NodeOK ((x.uuid, KindTag.interval) :: env1) g3 y := by
      intro y h1 h2
      by_cases hy : y = g.n
      · subst hy
        exact ⟨x.uuid, h16, by rw [a3.uuid]; exact u2, .interval, by rw [find_cons, if_pos rfl],
          fun hl => by cases hl⟩
      · exact (els.nodes y (by show g.n + 1 ≤ y; omega) (by rw [← hn3]; exact h2)).mono
          (EnvExt.push_nonleaf _ rfl) (by rw [a3.kind]) (by rw [a3.uuid])
    refine ⟨?_, ?_, rfl, ?_, ?_, ?_, ?_, ?_⟩
    · refine ((els.inv.of_eq a3.cache (by rw [hn3]; exact Nat.le_refl _)
        (fun y _ => ⟨by rw [a3.kind], by rw [a3.uuid]⟩)).push_nonleaf x.uuid rfl).setAll _ ?_
      intro y hy
      unfold cache_walkI at hy
      rw [hkids3] at hy
      rcases List.mem_cons.1 hy with rfl | hy
      · exact ⟨by omega, hnodes _ (Nat.le_refl _) (by omega)⟩
      · obtain ⟨m1, m2, _⟩ := hvs y hy
        exact ⟨by omega, hnodes y (by omega) (by omega)⟩
    · exact (els.wf.attached a3 (fun w hw => (hvs w hw).2.1)).of_cache ho.n ho.kids ho.payload
    · rw [ho.n, hn3]; omega
    · refine ((Same.alloc g _ _).trans els.same (Nat.le_succ _)).trans
        ((Same.attached (N := g.n) a3 (Nat.le_refl _) (fun w hw => by have := (hvs w hw).1; omega)).trans
          (Same.of_only (N := g.n) ho.kind ho.uuid ho.par ho.name ho.payload ho.kids) (Nat.le_refl _))
        (Nat.le_refl _)
    · rw [ho.par, a3.par, if_neg hnv]; exact p2
    · intro y h1 h2
      rw [ho.n] at h2
      exact (hnodes y h1 h2).mono (EnvExt.refl _) (by rw [ho.kind]) (by rw [ho.uuid])
    · intro y h1 h2 s c hc
      rw [ho.n, hn3] at h2
      rw [ho.kids, a3.kids] at hc
      by_cases hy : y = g.n
      · subst hy
        split at hc
        · rw [kd2] at hc
          simp only [List.nil_append] at hc
          have := (hvs c hc).1; omega
        · rw [kd2] at hc; cases hc
      · rw [if_neg (fun hh => hy hh.1)] at hc
        exact els.up y (by show g.n + 1 ≤ y; omega) h2 s c hc
  · rw [cache_addInterval_eq]
    unfold readInterval readBlocks
    rw [ho.uuid, ho.kids, a3.uuid, u2, hkids3]
    congr 1
    rw [← r2]
    apply List.map_congr_left
    intro w _
    unfold readBlock
    rw [ho.uuid, ho.kind, a3.uuid, a3.kind]

theorem all2_map_right {α β γ : Type} {R : α → β → Prop} {R' : α → γ → Prop} {f : β → γ} {as : List α}
    {bs : List β} (h : All2 R as bs) (hf : ∀ a b, R a b → R' a (f b)) : All2 R' as (bs.map f) := by
  induction h with
  | nil => exact .nil
  | cons hr _ ih => exact .cons (hf _ _ hr) ih

theorem EInterval.ext {env env' : Env} {x : MByteInterval} (h : EInterval env x env') : EnvExt env env' := by
  obtain ⟨_, _, _, env1, hch, rfl⟩ := decodeInterval_inv h
  exact (hch.ext (fun _ _ _ h => h.ext)).trans (EnvExt.push_nonleaf _ rfl)

theorem ESection.ext {env env' : Env} {x : MSection} (h : ESection env x env') : EnvExt env env' := by
  obtain ⟨_, hf, hch⟩ := decodeSection_inv h
  exact (EnvExt.push_fresh _ hf).trans (hch.ext (fun _ _ _ h => h.ext))

theorem ESymbol.ext {env env' : Env} {x : MSymbol} (h : ESymbol env x env') : EnvExt env env' := by
  obtain ⟨_, hf, rfl, _⟩ := decodeSymbol_inv h
  exact EnvExt.push_fresh _ hf

/-- what a reader needs to be carried along: it only looks at a node's subtree -/
def Local {β : Type} (rd : G → Nat → β) : Prop :=
  ∀ (P : Nat → Prop) (g g' : G) (x : Nat), Agree P g g' → P x → rd g' x = rd g x

theorem Local.same {β : Type} {rd : G → Nat → β} (h : Local rd) {g g' : G} {v : Nat} (hW : WF g)
    (hs : Same g.n g g') (hv : v < g.n) : rd g' v = rd g v := h _ g g' v (Agree.of_same hW hs) hv

theorem local_uuid : Local (fun g v => g.uuid v) := fun _ _ _ x h hx => (h.eq x hx).2.1
theorem local_readBlock : Local readBlock := fun _ _ _ _ h hx => readBlock_agree h hx
theorem local_readInterval : Local readInterval := fun _ _ _ _ h hx => readInterval_agree h hx
theorem local_readSection : Local readSection := fun _ _ _ _ h hx => readSection_agree h hx
theorem local_readSymbol : Local readSymbol := fun _ _ _ _ h hx => readSymbol_agree h hx
theorem local_readModule : Local readModule := fun _ _ _ _ h hx => readModule_agree h hx

/-- children `xs` decoded from `gc` to `g3` are added to collection `s` of the node `p` under
construction (`Elem … g gc p` is the state of the construction so far) -/
theorem phase_link {ir : Nat} {env env' : Env} {g gc g3 : G} {p : Nat} {s : Slot} {xs : List Nat}
    (el : Elem ir env g gc p) (hk : gc.kind p ≠ .ir)
    (els : Elems ir env' gc g3 xs) (hext : EnvExt env env') :
    ∃ g4, foldE (fun g x => setAdd g p s x) xs g3 = .ok g4 ∧ Elem ir env' g g4 p ∧
      g4.uuid p = gc.uuid p ∧ g4.kind p = gc.kind p ∧
      (∀ {β : Type} (rd : G → Nat → β), Local rd →
        (g4.kids p s).map (rd g4) = (gc.kids p s).map (rd gc) ++ xs.map (rd g3)) ∧
      (∀ {β : Type} (rd : G → Nat → β), Local rd → ∀ s0, s0 ≠ s →
        (g4.kids p s0).map (rd g4) = (gc.kids p s0).map (rd gc)) := by
  have hpn : p < gc.n := by rw [el.v_eq]; exact el.lt
  have hpg : p = g.n := el.v_eq
  obtain ⟨k3, u3, p3, _, _, kd3⟩ := els.same p hpn
  have hxs : ∀ x, x ∈ xs → gc.n ≤ x ∧ x < g3.n ∧ g3.par x = none := els.mem
  obtain ⟨g4, e4, a4⟩ := attach_all (p := p) (s := s) xs g3 (by rw [p3]; exact el.par) (by rw [k3]; exact hk)
    (fun x hx => by
      obtain ⟨m1, m2, m3⟩ := hxs x hx
      refine ⟨m3, by omega, ?_⟩
      rw [kd3]
      intro hm
      have := el.wf.kids p s x hm
      omega) els.nodup
  have hpx : p ∉ xs := fun hm => by have := (hxs p hm).1; omega
  -- owning collections lead upwards, in `g3`
  have hup3 : ∀ y, p + 1 ≤ y → y < g3.n → ∀ s' c, c ∈ g3.kids y s' → y < c := by
    intro y h1 h2 s' c hc
    by_cases hy : y < gc.n
    · rw [(els.same y hy).2.2.2.2.2 s'] at hc
      exact el.up y (by omega) hy s' c hc
    · exact els.up y (by omega) h2 s' c hc
  have hag : Agree (fun y => p + 1 ≤ y ∧ y < g3.n) g3 g4 := Agree.of_attached els.wf a4 (Nat.lt_succ_self _) hup3
  -- the children `p` had before are read as before
  have hold : ∀ {β : Type} (rd : G → Nat → β), Local rd → ∀ s0 x, x ∈ gc.kids p s0 → rd g4 x = rd gc x := by
    intro β rd hrd s0 x hx
    have hx1 : p < x := el.up p (by omega) hpn s0 x hx
    have hx2 : x < gc.n := el.wf.kids p s0 x hx
    rw [hrd _ g3 g4 x hag ⟨by omega, Nat.lt_of_lt_of_le hx2 els.le⟩]
    exact hrd.same el.wf els.same hx2
  refine ⟨g4, e4, ?_, by rw [a4.uuid, u3], by rw [a4.kind, k3], ?_, ?_⟩
  · refine ⟨els.inv.of_eq a4.cache (by rw [a4.n]; exact Nat.le_refl _) (fun y _ => ⟨by rw [a4.kind], by rw [a4.uuid]⟩),
      els.wf.attached a4 (fun x hx => (hxs x hx).2.1), hpg, ?_, ?_, ?_, ?_, ?_⟩
    · rw [a4.n]; exact Nat.lt_of_lt_of_le el.lt els.le
    · exact (el.same.trans els.same (Nat.le_of_lt el.lt)).trans
        (Same.attached (N := g.n) a4 (by omega) (fun x hx => by have := (hxs x hx).1; omega)) (Nat.le_refl _)
    · rw [a4.par, if_neg hpx, p3]; exact el.par
    · intro y h1 h2
      rw [a4.n] at h2
      by_cases hy : y < gc.n
      · exact (el.nodes y h1 hy).mono hext (by rw [a4.kind, (els.same y hy).1])
          (by rw [a4.uuid, (els.same y hy).2.1])
      · exact (els.nodes y (by omega) h2).mono (EnvExt.refl _) (by rw [a4.kind]) (by rw [a4.uuid])
    · intro y h1 h2 s' c hc
      rw [a4.n] at h2
      rw [a4.kids] at hc
      by_cases hy : y = p
      · subst hy
        by_cases hs : s' = s
        · subst hs
          rw [if_pos ⟨rfl, rfl⟩, kd3] at hc
          rcases List.mem_append.1 hc with hc | hc
          · exact el.up y h1 hpn s' c hc
          · have := (hxs c hc).1; omega
        · rw [if_neg (fun hh => hs hh.2), kd3] at hc
          exact el.up y h1 hpn s' c hc
      · rw [if_neg (fun hh => hy hh.1)] at hc
        exact hup3 y (by omega) h2 s' c hc
  · intro β rd hrd
    rw [a4.kids, if_pos ⟨rfl, rfl⟩, kd3, List.map_append]
    congr 1
    · apply List.map_congr_left
      intro x hx
      exact hold rd hrd s x hx
    · apply List.map_congr_left
      intro x hx
      obtain ⟨m1, m2, _⟩ := hxs x hx
      exact hrd _ g3 g4 x hag ⟨by omega, m2⟩
  · intro β rd hrd s0 hs0
    rw [a4.kids, if_neg (fun hh => hs0 hh.2), kd3]
    apply List.map_congr_left
    intro x hx
    exact hold rd hrd s0 x hx

theorem elems_single {ir : Nat} {env' : Env} {g g' : G} {v : Nat} (el : Elem ir env' g g' v) :
    Elems ir env' g g' [v] := by
  refine ⟨el.inv, el.wf, Nat.le_of_lt el.lt, el.same, ?_, by simp, el.nodes, el.up⟩
  intro w hw
  simp only [List.mem_singleton] at hw
  subst hw
  exact ⟨by rw [el.v_eq]; exact Nat.le_refl _, by rw [el.v_eq]; exact el.lt, el.par⟩

/-- `p.<coll>.update(dec(c) for c in children)` (`decodeAttach`) for the node `p` under construction:
every child is decoded (fresh, detached) and added at once; nothing raises, the children are appended
in message order -/
theorem attach_link {α β : Type} {ir : Nat} {f : G → Nat → β → Except LErr (G × Nat)}
    {E : Env → α → Env → Prop} {S : α → β → Prop} {rd : G → Nat → β} {g : G} {p : Nat} {s : Slot}
    (hE : ∀ env a env', E env a env' → EnvExt env env') (hrd : Local rd)
    (hf : ∀ env a env' b g, E env a env' → S a b → Inv ir env g → WF g →
      ∃ g' v, f g ir b = .ok (g', v) ∧ Elem ir env' g g' v ∧ rd g' v = b) :
    ∀ (as : List α) (bs : List β) (env env' : Env) (gc : G), Chain E env as env' → All2 S as bs →
      Elem ir env g gc p → gc.kind p ≠ .ir →
      ∃ g4, decodeAttach f ir p s gc bs = .ok g4 ∧ Elem ir env' g g4 p ∧
        g4.uuid p = gc.uuid p ∧ g4.kind p = gc.kind p ∧
        (g4.kids p s).map (rd g4) = (gc.kids p s).map (rd gc) ++ bs ∧
        (∀ {γ : Type} (rd' : G → Nat → γ), Local rd' → ∀ s0, s0 ≠ s →
          (g4.kids p s0).map (rd' g4) = (gc.kids p s0).map (rd' gc)) := by
  intro as
  induction as with
  | nil =>
    intro bs env env' gc hch hS el hk
    cases hS
    cases hch
    exact ⟨gc, rfl, el, rfl, rfl, by simp, fun _ _ _ _ => rfl⟩
  | cons a as ih =>
    intro bs env env' gc hch hS el hk
    cases hS with
    | cons hab hrest =>
      rename_i b bs'
      cases hch with
      | cons h1 hch' =>
        rename_i env1
        obtain ⟨g1, v, e1, el1, r1⟩ := hf env a env1 b gc h1 hab el.inv el.wf
        obtain ⟨g2, e2, el2, u2, k2, new2, keep2⟩ := phase_link (s := s) el hk (elems_single el1) (hE _ _ _ h1)
        obtain ⟨gm, em, em2⟩ := foldE_cons_ok e2
        cases em2
        obtain ⟨g4, e4, el4, u4, k4, new4, keep4⟩ := ih bs' env1 env' g2 hch' hrest el2 (by rw [k2]; exact hk)
        refine ⟨g4, ?_, el4, u4.trans u2, k4.trans k2, ?_, ?_⟩
        · simp only [decodeAttach]
          rw [e1]
          simp only []
          rw [em]
          simp only [liftE]
          exact e4
        · rw [new4, new2 rd hrd, List.map_cons, List.map_nil, r1, List.append_assoc]
          rfl
        · intro γ rd' hrd' s0 hs0
          rw [keep4 rd' hrd' s0 hs0, keep2 rd' hrd' s0 hs0]

theorem section_link {ir : Nat} (env : Env) (s : MSection) (env' : Env) (ss : SkSection) (g : G)
    (hE : ESection env s env') (hS : ∃ es, skSection s = some (ss, es)) (hI : Inv ir env g) (hW : WF g) :
    ∃ g' v, Loader.decodeSection g ir ss = .ok (g', v) ∧ Elem ir env' g g' v ∧ readSection g' v = ss := by
  obtain ⟨h16, hf, hch⟩ := decodeSection_inv hE
  obtain ⟨es, hS⟩ := hS
  obtain ⟨xs', hxs', rfl, _⟩ := skSection_inv hS
  have reg := reg_elem (ir := ir) hI hW .section h16 hf
  obtain ⟨g4, e4, el4, u4, _, new4, _⟩ := attach_link (ir := ir) (f := Loader.decodeInterval)
    (E := EInterval) (S := fun x sx => ∃ es, skInterval x = some (sx, es)) (rd := readInterval) (s := .bis)
    (fun _ _ _ h => h.ext) local_readInterval
    (fun env a env' b g h1 h2 h3 h4 => interval_link env a env' b g h1 h2 h3 h4)
    s.byteIntervals (xs'.map (·.1)) _ env' _ hch
    (all2_map_right (allSome_map_all2 _ _ _ hxs') (fun a b hab => ⟨b.2, by rw [hab]⟩)) reg
    (by show (alloc g (kindOf .section) (natOfBytes s.uuid)).1.kind g.n ≠ .ir; simp [kindOf])
  refine ⟨g4, g.n, ?_, el4, ?_⟩
  · unfold Loader.decodeSection
    rw [fromProto_miss _ (hI.dom s.uuid h16 hf)]
    simp only [Bool.not_true, Bool.false_eq_true, if_false]
    have e4' : decodeAttach Loader.decodeInterval ir g.n Slot.bis
        (cacheSet (alloc g Kind.section (natOfBytes s.uuid)).1 ir (natOfBytes s.uuid) g.n) (xs'.map (·.1))
        = .ok g4 := e4
    rw [e4']
  · unfold readSection
    rw [new4, u4]
    show SkSection.mk ((alloc g (kindOf .section) (natOfBytes s.uuid)).1.uuid g.n)
      (((alloc g (kindOf .section) (natOfBytes s.uuid)).1.kids g.n Slot.bis).map _ ++ _) = _
    simp

/-- the state after a fresh symbol was decoded -/
def symState (g : G) (ir u nm : Nat) (pl : Payload) : G :=
  let g1 := (alloc g .symbol u).1
  let g2 := { g1 with name := fun x => if x = g.n then nm else g1.name x }
  let g3 := { g2 with payload := fun x => if x = g.n then pl else g2.payload x }
  cacheSet g3 ir u g.n

theorem isBlock_kindOf {k : KindTag} (h : Msg.isBlockKind k = true) : isBlock (kindOf k) = true ∧ leafTag k = true := by
  cases k <;> simp_all [Msg.isBlockKind, isBlock, kindOf, leafTag]

/-- the referent of a symbol message, resolved through the table -/
inductive Resolves (g : G) (ir : Nat) : SkPayload → Payload → Prop
  | none : Resolves g ir .none .none
  | int (n : Nat) : Resolves g ir (.int n) (.int n)
  | ref (u b : Nat) : g.cache ir u = some b → isBlock (g.kind b) = true → b < g.n →
      Resolves g ir (.ref u) (.block b)

theorem decodeSymbol_fresh {g : G} {ir U nm : Nat} {spl : SkPayload} {pl : Payload}
    (hmiss : g.cache ir U = none) (hres : Resolves g ir spl pl) :
    Loader.decodeSymbol g ir ⟨U, nm, spl⟩ = .ok (symState g ir U nm pl, g.n) := by
  unfold Loader.decodeSymbol
  rw [fromProto_miss _ hmiss]
  cases hres with
  | none => rfl
  | int n => rfl
  | ref u b hc hk hb =>
    simp only [Bool.not_true, Bool.false_eq_true, if_false, alloc_cache, hc, alloc_kind,
      if_neg (Nat.ne_of_lt hb), hk, if_true]
    rfl

theorem Resolves.lt {g : G} {ir : Nat} {sp : SkPayload} {b : Nat} (h : Resolves g ir sp (.block b)) : b < g.n := by
  cases h with
  | ref u b _ _ h => exact h

theorem symbol_link {ir : Nat} (names : List String) (env : Env) (y : MSymbol) (env' : Env) (sy : SkSymbol) (g : G)
    (hE : ESymbol env y env') (hS : skSymbol names y = some sy) (hI : Inv ir env g) (hW : WF g) :
    ∃ g' v, Loader.decodeSymbol g ir sy = .ok (g', v) ∧ Elem ir env' g g' v ∧ readSymbol g' v = sy := by
  obtain ⟨h16, hf, rfl, href⟩ := decodeSymbol_inv hE
  obtain ⟨su, sn, sp⟩ := sy
  -- the payload, resolved
  have hpl : ∃ pl : Payload, Resolves g ir sp pl ∧ su = natOfBytes y.uuid ∧
      sp = (match pl with | .none => .none | .int n => .int n | .block b => .ref (g.uuid b)) := by
    unfold skSymbol at hS
    rw [if_neg (by simp [uOk, h16])] at hS
    cases hp : y.payload with
    | none =>
      rw [hp] at hS; cases hS
      exact ⟨.none, .none, rfl, rfl⟩
    | some mp =>
      cases mp with
      | value n =>
        rw [hp] at hS; cases hS
        exact ⟨.int n, .int n, rfl, rfl⟩
      | referentUuid u =>
        rw [hp] at hS
        obtain ⟨hu, k, hk, hbk⟩ := href u hp
        simp only [] at hS
        rw [if_pos (by simp [uOk, hu])] at hS
        cases hS
        obtain ⟨hb1, hb2⟩ := isBlock_kindOf hbk
        obtain ⟨b, c1, c2, c3, c4⟩ := hI.leafs u k hu hk hb2
        refine ⟨.block b, .ref _ b c1 (by rw [c3]; exact hb1) c2, rfl, ?_⟩
        simp only [c4]
  obtain ⟨pl, hres, rfl, hpl3⟩ := hpl
  have hpl2 : ∀ b, pl = .block b → b < g.n := by
    intro b hb
    subst hb
    exact hres.lt
  refine ⟨symState g ir (natOfBytes y.uuid) sn pl, g.n, decodeSymbol_fresh (hI.dom y.uuid h16 hf) hres, ?_, ?_⟩
  · have hI3 : Inv ir env { (alloc g .symbol (natOfBytes y.uuid)).1 with
        name := fun x => if x = g.n then sn else (alloc g .symbol (natOfBytes y.uuid)).1.name x,
        payload := fun x => if x = g.n then pl else (alloc g .symbol (natOfBytes y.uuid)).1.payload x } :=
      hI.of_eq rfl (Nat.le_succ _) (fun x hx => by
        show (alloc g .symbol (natOfBytes y.uuid)).1.kind x = _ ∧ (alloc g .symbol (natOfBytes y.uuid)).1.uuid x = _
        simp [Nat.ne_of_lt hx])
    refine ⟨?_, ?_, rfl, Nat.lt_succ_self _, ?_, ?_, ?_, ?_⟩
    · exact hI3.push_set (k := .symbol) (v := g.n) h16 (Nat.lt_succ_self _)
        (by show (alloc g .symbol (natOfBytes y.uuid)).1.kind g.n = _; simp [kindOf])
        (by show (alloc g .symbol (natOfBytes y.uuid)).1.uuid g.n = _; simp)
    · refine ⟨?_, ?_⟩
      · intro z s c hc
        exact (hW.alloc .symbol (natOfBytes y.uuid)).kids z s c hc
      · intro z b hb
        have hb' : (if z = g.n then pl else g.payload z) = .block b := hb
        show b < g.n + 1
        split at hb'
        · exact Nat.lt_succ_of_lt (hpl2 b hb')
        · exact Nat.lt_succ_of_lt (hW.refs z b hb')
    · intro x hx
      have hne : x ≠ g.n := Nat.ne_of_lt hx
      refine ⟨?_, ?_, ?_, ?_, ?_, ?_⟩
      · show (alloc g .symbol (natOfBytes y.uuid)).1.kind x = _; simp [hne]
      · show (alloc g .symbol (natOfBytes y.uuid)).1.uuid x = _; simp [hne]
      · show (alloc g .symbol (natOfBytes y.uuid)).1.par x = _; simp [hne]
      · show (if x = g.n then sn else g.name x) = _; rw [if_neg hne]
      · show (if x = g.n then pl else g.payload x) = _; rw [if_neg hne]
      · intro s; show (alloc g .symbol (natOfBytes y.uuid)).1.kids x s = _; simp [hne]
    · show (alloc g .symbol (natOfBytes y.uuid)).1.par g.n = none; simp
    · intro z h1 h2
      have : z = g.n := by
        have : z < g.n + 1 := h2
        omega
      subst this
      refine ⟨y.uuid, h16, ?_, .symbol, by rw [find_cons, if_pos rfl], fun _ => ?_⟩
      · show (alloc g .symbol (natOfBytes y.uuid)).1.uuid g.n = _; simp
      · show (alloc g .symbol (natOfBytes y.uuid)).1.kind g.n = _; simp [kindOf]
    · intro z h1 h2 s c hc
      have : z = g.n := by
        have : z < g.n + 1 := h2
        omega
      subst this
      have hc' : c ∈ (alloc g .symbol (natOfBytes y.uuid)).1.kids g.n s := hc
      simp at hc'
  · rw [hpl3]
    unfold readSymbol readPayload
    show SkSymbol.mk ((alloc g .symbol (natOfBytes y.uuid)).1.uuid g.n) (if g.n = g.n then sn else g.name g.n)
      (match (if g.n = g.n then pl else g.payload g.n) with
        | .none => .none
        | .int n => .int n
        | .block b => .ref ((alloc g .symbol (natOfBytes y.uuid)).1.uuid b)) = _
    simp only [if_true, alloc_uuid]
    congr 1
    cases pl with
    | none => rfl
    | int n => rfl
    | block b =>
      simp only []
      rw [if_neg (Nat.ne_of_lt (hpl2 b rfl))]

theorem all2_mem_right {α β : Type} {R : α → β → Prop} {as : List α} {bs : List β}
    (h : All2 R as bs) {b : β} (hb : b ∈ bs) : ∃ a, a ∈ as ∧ R a b := by
  induction h with
  | nil => cases hb
  | cons hr _ ih =>
    rcases List.mem_cons.1 hb with rfl | hb
    · exact ⟨_, List.mem_cons_self, hr⟩
    · obtain ⟨a, ha, hr'⟩ := ih hb
      exact ⟨a, List.mem_cons_of_mem _ ha, hr'⟩

/-- the expression symbols of a module's skeleton are symbols of the environment after the module's
symbols were decoded -/
theorem exprSyms_good {env : Env} {secs : List MSection} {ss : List (SkSection × List Nat)}
    (hex : ExprsOK env secs) (hss : allSome (secs.map skSection) = some ss) :
    ∀ n, n ∈ (ss.map (·.2)).flatten → SymU env n := by
  intro n hn
  rw [List.mem_flatten] at hn
  obtain ⟨l, hl, hnl⟩ := hn
  obtain ⟨p, hp, rfl⟩ := List.mem_map.1 hl
  obtain ⟨s, hs, hsp⟩ := all2_mem_right (allSome_map_all2 _ _ _ hss) hp
  obtain ⟨xs, hxs, _, hp2⟩ := skSection_inv (ss := p.1) (es := p.2) (by rw [hsp])
  rw [hp2, List.mem_flatten] at hnl
  obtain ⟨l', hl', hnl'⟩ := hnl
  obtain ⟨q, hq, rfl⟩ := List.mem_map.1 hl'
  obtain ⟨x, hx, hxq⟩ := all2_mem_right (allSome_map_all2 _ _ _ hxs) hq
  obtain ⟨bs, ls, _, hls, _, hq2⟩ := skInterval_inv (sx := q.1) (es := q.2) (by rw [hxq])
  obtain ⟨es, hes⟩ := hex s hs x hx
  obtain ⟨ls', hls', hgood⟩ := decodeExprs_sk _ hes
  rw [hls] at hls'
  cases hls'
  rw [hq2] at hnl'
  exact hgood n hnl'

theorem checkAll_of {g : G} {ir : Nat} {ok : Kind → Bool} : ∀ (us : List Nat),
    (∀ u, u ∈ us → ∃ n, g.cache ir u = some n ∧ ok (g.kind n) = true) → checkAll g ir ok us = .ok ()
  | [], _ => rfl
  | u :: us, h => by
    obtain ⟨n, hn, hk⟩ := h u List.mem_cons_self
    simp only [checkAll, refKind, hn, hk, if_true]
    exact checkAll_of us (fun u' hu' => h u' (List.mem_cons_of_mem _ hu'))

theorem EModule.ext {env env' : Env} {x : MModule} (h : EModule env x env') : EnvExt env env' := by
  obtain ⟨_, hf, env1, env2, hpx, hsec, _, hsym, _⟩ := decodeModule_inv h
  exact (EnvExt.push_fresh _ hf).trans ((hpx.ext (fun _ _ _ h => h.ext)).trans
    ((hsec.ext (fun _ _ _ h => h.ext)).trans (hsym.ext (fun _ _ _ h => h.ext))))

set_option linter.unusedSimpArgs false in
theorem module_link {ir : Nat} (names : List String) (env : Env) (m : MModule) (env' : Env) (sm : SkModule) (g : G)
    (hE : EModule env m env') (hS : skModule names m = some sm) (hI : Inv ir env g) (hW : WF g) :
    ∃ g' v, Loader.decodeModule g ir sm = .ok (g', v) ∧ Elem ir env' g g' v ∧ g'.kind v = .module ∧
      readModule g' v = skShape sm := by
  obtain ⟨h16, hf, env1, env2, hpx, hsec, hentry, hsym, hex⟩ := decodeModule_inv hE
  obtain ⟨ss, ys, hss, hys, rfl⟩ := skModule_inv hS
  have reg := reg_elem (ir := ir) hI hW .module h16 hf
  have hk2 : (cacheSet (alloc g (kindOf .module) (natOfBytes m.uuid)).1 ir (natOfBytes m.uuid) g.n).kind g.n
      = .module := by
    show (alloc g (kindOf .module) (natOfBytes m.uuid)).1.kind g.n = _; simp [kindOf]
  have hu2 : (cacheSet (alloc g (kindOf .module) (natOfBytes m.uuid)).1 ir (natOfBytes m.uuid) g.n).uuid g.n
      = natOfBytes m.uuid := by
    show (alloc g (kindOf .module) (natOfBytes m.uuid)).1.uuid g.n = _; simp
  have hkids2 : ∀ s, (cacheSet (alloc g (kindOf .module) (natOfBytes m.uuid)).1 ir (natOfBytes m.uuid) g.n).kids g.n s
      = [] := by
    intro s; show (alloc g (kindOf .module) (natOfBytes m.uuid)).1.kids g.n s = _; simp
  -- proxies
  obtain ⟨g4, e4, el4, u4, k4, new4, keep4⟩ := attach_link (ir := ir) (f := Loader.decodeProxy)
    (E := EProxy) (S := fun b p => p = natOfBytes b) (rd := fun g v => g.uuid v) (s := .proxies)
    (fun _ _ _ h => h.ext) local_uuid
    (fun env a env' b g h1 h2 h3 h4 => proxy_link env a env' b g h1 h2 h3 h4)
    m.proxies (m.proxies.map natOfBytes) _ env1 _ hpx
    (by
      have : All2 (fun (b : Bytes) (b' : Bytes) => b = b') m.proxies m.proxies := by
        induction m.proxies with
        | nil => exact .nil
        | cons a l ih => exact .cons rfl ih
      exact all2_map_right this (fun a b hab => by rw [hab])) reg (by rw [hk2]; decide)
  -- sections
  obtain ⟨g6, e6, el6, u6, k6, new6, keep6⟩ := attach_link (ir := ir) (f := Loader.decodeSection)
    (E := ESection) (S := fun s sx => ∃ es, skSection s = some (sx, es)) (rd := readSection) (s := .secs)
    (fun _ _ _ h => h.ext) local_readSection
    (fun env a env' b g h1 h2 h3 h4 => section_link env a env' b g h1 h2 h3 h4)
    m.sections (ss.map (·.1)) env1 env2 g4 hsec
    (all2_map_right (allSome_map_all2 _ _ _ hss) (fun a b hab => ⟨b.2, by rw [hab]⟩)) el4
    (by rw [k4, hk2]; decide)
  have hkids4 : g4.kids g.n .secs = [] := by
    have := keep4 (fun g v => v) (fun _ _ _ _ _ _ => rfl) .secs (by decide)
    simp only [List.map_id'] at this
    rw [this, hkids2]
  -- entry point
  have hent : (if m.entryPoint.isEmpty then none else some (natOfBytes m.entryPoint) : Option Nat) = none ∨
      ((if m.entryPoint.isEmpty then none else some (natOfBytes m.entryPoint) : Option Nat)
          = some (natOfBytes m.entryPoint) ∧
        refKind g6 ir (fun k => k == Kind.code) (natOfBytes m.entryPoint) = .ok ()) := by
    rcases hentry with he | ⟨he16, hef⟩
    · left; rw [if_pos he]
    · right
      have hne : m.entryPoint.isEmpty = false := by
        cases hm : m.entryPoint with
        | nil => rw [hm] at he16; simp at he16
        | cons a l => rfl
      rw [hne]
      refine ⟨by simp, ?_⟩
      obtain ⟨n, c1, _, c3, _⟩ := el6.inv.leafs m.entryPoint .code he16 hef rfl
      simp only [refKind, c1, c3, kindOf, beq_self_eq_true, if_true]
  -- symbols
  obtain ⟨g8, e8, el8, u8, k8, new8, keep8⟩ := attach_link (ir := ir) (f := Loader.decodeSymbol)
    (E := ESymbol) (S := fun y sy => skSymbol names y = some sy) (rd := readSymbol) (s := .syms)
    (fun _ _ _ h => h.ext) local_readSymbol
    (fun env a env' b g h1 h2 h3 h4 => symbol_link names env a env' b g h1 h2 h3 h4)
    m.symbols ys env2 env' g6 hsym (allSome_map_all2 _ _ _ hys) el6 (by rw [k6, k4, hk2]; decide)
  have hkids6 : g6.kids g.n .syms = [] := by
    have h6 := keep6 (fun g v => v) (fun _ _ _ _ _ _ => rfl) .syms (by decide)
    have h4 := keep4 (fun g v => v) (fun _ _ _ _ _ _ => rfl) .syms (by decide)
    simp only [List.map_id'] at h6 h4
    rw [h6, h4, hkids2]
  -- expression symbols
  have hchk : checkAll g8 ir (fun k => k == Kind.symbol) (ss.map (·.2)).flatten = .ok () := by
    apply checkAll_of
    intro n hn
    obtain ⟨u, hu16, rfl, hfu⟩ := exprSyms_good hex hss n hn
    obtain ⟨b, c1, _, c3, _⟩ := el8.inv.leafs u .symbol hu16 hfu rfl
    exact ⟨b, c1, by rw [c3]; rfl⟩
  refine ⟨g8, g.n, ?_, el8, by rw [k8, k6, k4, hk2], ?_⟩
  · unfold Loader.decodeModule
    rw [fromProto_miss _ (hI.dom m.uuid h16 hf)]
    simp only [Bool.not_true, Bool.false_eq_true, if_false]
    have e4' : decodeAttach Loader.decodeProxy ir g.n Slot.proxies
        (cacheSet (alloc g Kind.module (natOfBytes m.uuid)).1 ir (natOfBytes m.uuid) g.n) (m.proxies.map natOfBytes)
        = .ok g4 := e4
    rw [e4']
    simp only []
    rw [e6]
    simp only []
    rcases hent with hent | ⟨hent, hrk⟩
    · rw [hent]
      simp only []
      rw [e8]
      simp only []
      rw [hchk]
    · rw [hent]
      simp only []
      rw [hrk]
      simp only []
      rw [e8]
      simp only []
      rw [hchk]
  · unfold readModule skShape
    simp only []
    rw [new8, hkids6, List.map_nil, List.nil_append]
    rw [keep8 readSection local_readSection .secs (by decide), new6, hkids4, List.map_nil, List.nil_append]
    rw [keep8 (fun g v => g.uuid v) local_uuid .proxies (by decide),
      keep6 (fun g v => g.uuid v) local_uuid .proxies (by decide), new4, hkids2, List.map_nil, List.nil_append]
    rw [u8, u6, u4, hu2]

/-! ### the module list and the whole load -/

/-- the nodes of the new IR created so far: owning collections lead upwards -/
structure Top (ir : Nat) (g : G) : Prop where
  lt : ir < g.n
  up : ∀ y, ir < y → y < g.n → ∀ s c, c ∈ g.kids y s → y < c
  mods : ∀ m, m ∈ g.kids ir .mods → ir < m

theorem walkI_range {g : G} {lo : Nat} (hw : WF g) (hup : ∀ y, lo ≤ y → y < g.n → ∀ s c, c ∈ g.kids y s → y < c)
    {x y : Nat} (hx : lo ≤ x ∧ x < g.n) (hy : y ∈ cache_walkI g.kids x) : lo ≤ y ∧ y < g.n := by
  unfold cache_walkI at hy
  rcases List.mem_cons.1 hy with rfl | hy
  · exact hx
  · have := hup x hx.1 hx.2 _ y hy
    exact ⟨by omega, hw.kids _ _ y hy⟩

theorem walkS_range {g : G} {lo : Nat} (hw : WF g) (hup : ∀ y, lo ≤ y → y < g.n → ∀ s c, c ∈ g.kids y s → y < c)
    {x y : Nat} (hx : lo ≤ x ∧ x < g.n) (hy : y ∈ cache_walkS g.kids x) : lo ≤ y ∧ y < g.n := by
  unfold cache_walkS at hy
  rcases List.mem_cons.1 hy with rfl | hy
  · exact hx
  · obtain ⟨b, hb, hyb⟩ := List.mem_flatMap.1 hy
    have := hup x hx.1 hx.2 _ b hb
    exact walkI_range hw hup ⟨by omega, hw.kids _ _ b hb⟩ hyb

theorem walkM_range {g : G} {lo : Nat} (hw : WF g) (hup : ∀ y, lo ≤ y → y < g.n → ∀ s c, c ∈ g.kids y s → y < c)
    {x y : Nat} (hx : lo ≤ x ∧ x < g.n) (hy : y ∈ cache_walkM g.kids x) : lo ≤ y ∧ y < g.n := by
  unfold cache_walkM at hy
  rcases List.mem_cons.1 hy with rfl | hy
  · exact hx
  · rcases List.mem_append.1 hy with hy | hy
    · have := hup x hx.1 hx.2 _ y hy
      exact ⟨by omega, hw.kids _ _ y hy⟩
    · rcases List.mem_append.1 hy with hy | hy
      · obtain ⟨b, hb, hyb⟩ := List.mem_flatMap.1 hy
        have := hup x hx.1 hx.2 _ b hb
        exact walkS_range hw hup ⟨by omega, hw.kids _ _ b hb⟩ hyb
      · have := hup x hx.1 hx.2 _ y hy
        exact ⟨by omega, hw.kids _ _ y hy⟩

theorem modules_link {ir : Nat} (names : List String) : ∀ (ms : List MModule) (sms : List SkModule)
    (env env' : Env) (g : G), Chain EModule env ms env' →
    All2 (fun m sm => skModule names m = some sm) ms sms → Inv ir env g → WF g → Top ir g →
    ∃ g', Loader.decodeModules ir g sms = .ok g' ∧ Inv ir env' g' ∧ WF g' ∧ Top ir g' ∧ g'.uuid ir = g.uuid ir ∧
      (g'.kids ir .mods).map (readModule g') = (g.kids ir .mods).map (readModule g) ++ sms.map skShape := by
  intro ms
  induction ms with
  | nil =>
    intro sms env env' g hch hS hI hW hT
    cases hS
    cases hch
    exact ⟨g, rfl, hI, hW, hT, rfl, by simp⟩
  | cons m ms ih =>
    intro sms env env' g hch hS hI hW hT
    cases hS with
    | cons hab hrest =>
      rename_i sm sms'
      cases hch with
      | cons h1 hch' =>
        rename_i env1
        obtain ⟨g1, v, e1, el, hkv, rdv⟩ := module_link names env m env1 sm g h1 hab hI hW
        have hv : v = g.n := el.v_eq
        have hvlt : v < g1.n := by rw [hv]; exact el.lt
        have hirv : ir ≠ v := by have := hT.lt; omega
        -- append
        have e2 := modAppend_fresh (g := g1) (i := ir) (v := v) el.par
        have hkX : (setPar g1 v (some ir)).kind v = .module := hkv
        have hcache : cacheAdd (setPar g1 v (some ir)) ir v
            = cache_setAll (setPar g1 v (some ir)) ir (cache_walkM g1.kids v) := by
          rw [cache_cacheAdd_eq, hkX]; rfl
        rw [hcache] at e2
        have ho := cache_setAll_only ir (cache_walkM g1.kids v) (setPar g1 v (some ir))
        have hup1 : ∀ y, ir < y → y < g1.n → ∀ s c, c ∈ g1.kids y s → y < c := by
          intro y h1 h2 s c hc
          by_cases hy : y < g.n
          · rw [(el.same y hy).2.2.2.2.2 s] at hc
            exact hT.up y h1 hy s c hc
          · exact el.up y (by omega) h2 s c hc
        have hIX : Inv ir env1 (cache_setAll (setPar g1 v (some ir)) ir (cache_walkM g1.kids v)) := by
          refine (el.inv.of_eq (g' := setPar g1 v (some ir)) rfl (Nat.le_refl _) (fun _ _ => ⟨rfl, rfl⟩)).setAll _ ?_
          intro y hy
          obtain ⟨r1, r2⟩ := walkM_range (lo := g.n) el.wf (fun y h1 h2 => el.up y h1 h2) ⟨by omega, hvlt⟩ hy
          exact ⟨r2, (el.nodes y r1 r2).mono (EnvExt.refl _) rfl rfl⟩
        -- the state after the append
        obtain ⟨g2, hg2⟩ : ∃ g2, g2 = kidsSet (cache_setAll (setPar g1 v (some ir)) ir (cache_walkM g1.kids v)) ir
            Slot.mods (g1.kids ir Slot.mods ++ [v]) := ⟨_, rfl⟩
        rw [← hg2] at e2
        have n2 : g2.n = g1.n := by rw [hg2]; show (cache_setAll _ _ _).n = _; rw [ho.n]; rfl
        have k2 : g2.kind = g1.kind := by rw [hg2]; show (cache_setAll _ _ _).kind = _; rw [ho.kind]; rfl
        have u2 : g2.uuid = g1.uuid := by rw [hg2]; show (cache_setAll _ _ _).uuid = _; rw [ho.uuid]; rfl
        have nm2 : g2.name = g1.name := by rw [hg2]; show (cache_setAll _ _ _).name = _; rw [ho.name]; rfl
        have pl2 : g2.payload = g1.payload := by rw [hg2]; show (cache_setAll _ _ _).payload = _; rw [ho.payload]; rfl
        have c2 : g2.cache = (cache_setAll (setPar g1 v (some ir)) ir (cache_walkM g1.kids v)).cache := by rw [hg2]; rfl
        have kd2 : ∀ q s, g2.kids q s = if q = ir ∧ s = Slot.mods then g1.kids ir Slot.mods ++ [v] else g1.kids q s := by
          intro q s; rw [hg2]; simp only [kidsSet_kids, ho.kids, setPar_kids]
        have hI2 : Inv ir env1 g2 :=
          hIX.of_eq c2 (by rw [n2, ho.n]; exact Nat.le_refl _) (fun y _ => ⟨by rw [k2, ho.kind]; rfl, by rw [u2, ho.uuid]; rfl⟩)
        have hW2 : WF g2 := by
          refine ⟨?_, fun y b hb => by rw [n2]; rw [pl2] at hb; exact el.wf.refs y b hb⟩
          intro y s c hc
          rw [n2]
          rw [kd2] at hc
          split at hc
          · rcases List.mem_append.1 hc with hc | hc
            · exact el.wf.kids _ _ c hc
            · simp at hc; rw [hc]; exact hvlt
          · exact el.wf.kids _ _ c hc
        have hmods1 : g1.kids ir .mods = g.kids ir .mods := (el.same ir hT.lt).2.2.2.2.2 .mods
        have hT2 : Top ir g2 := by
          refine ⟨by rw [n2]; exact Nat.lt_trans hT.lt el.lt, ?_, ?_⟩
          · intro y h1 h2 s c hc
            rw [n2] at h2
            rw [kd2, if_neg (fun hh => by omega)] at hc
            exact hup1 y h1 h2 s c hc
          · intro m' hm'
            rw [kd2, if_pos ⟨rfl, rfl⟩, hmods1] at hm'
            rcases List.mem_append.1 hm' with hm' | hm'
            · exact hT.mods m' hm'
            · simp at hm'; rw [hm', hv]; exact hT.lt
        have hag : Agree (fun y => ir < y ∧ y < g1.n) g1 g2 := by
          refine ⟨?_, ?_, fun y b _ _ => by rw [u2]⟩
          · intro y hy s c hc
            have := hup1 y hy.1 hy.2 s c hc
            exact ⟨by omega, el.wf.kids y s c hc⟩
          · intro y hy
            refine ⟨by rw [k2], by rw [u2], by rw [nm2], by rw [pl2], fun s => ?_⟩
            rw [kd2, if_neg (fun hh => by omega)]
        obtain ⟨g', e', hI', hW', hT', hu', hshape'⟩ := ih sms' env1 env' g2 hch' hrest hI2 hW2 hT2
        refine ⟨g', ?_, hI', hW', hT', ?_, ?_⟩
        · simp only [Loader.decodeModules]
          rw [e1]
          simp only []
          rw [e2]
          exact e'
        · rw [hu', u2, (el.same ir hT.lt).2.1]
        · rw [hshape', kd2, if_pos ⟨rfl, rfl⟩, hmods1, List.map_append, List.map_cons, List.map_nil,
            List.map_cons, List.append_assoc]
          congr 1
          · apply List.map_congr_left
            intro y hy
            have hy1 : ir < y := hT.mods y hy
            have hy2 : y < g.n := hW.kids _ _ y hy
            rw [local_readModule _ g1 g2 y hag ⟨hy1, Nat.lt_trans hy2 el.lt⟩]
            exact local_readModule.same hW el.same hy2
          · rw [local_readModule _ g1 g2 v hag ⟨by have := hT.lt; omega, hvlt⟩, rdv]
            rfl

theorem load_link {m : MIR} {v : Msg.IRV} {sk : SkIR} (h : Msg.fromMsg m = .ok v) (hs : skelOf m = some sk) :
    ∃ g, load {} sk = .ok (g, 0) ∧ g.uuid 0 = sk.uuid ∧
      (g.kids 0 .mods).map (readModule g) = sk.modules.map skShape := by
  obtain ⟨h16, env, hch, hed⟩ := fromMsg_inv h
  obtain ⟨sms, hsms, rfl⟩ := skelOf_inv hs
  have hn1 : (mkIR {} (natOfBytes m.uuid)).n = 1 := rfl
  have hkids1 : ∀ y s, (mkIR {} (natOfBytes m.uuid)).kids y s = [] := by
    intro y s
    show (alloc {} Kind.ir (natOfBytes m.uuid)).1.kids y s = []
    simp only [alloc_kids]
    split <;> rfl
  have hI1 : Inv 0 [(m.uuid, KindTag.ir)] (mkIR {} (natOfBytes m.uuid)) := by
    refine ⟨?_, ?_⟩
    · intro u hu hf
      rw [find_cons] at hf
      by_cases e : m.uuid = u
      · rw [if_pos e] at hf; cases hf
      · have hne : natOfBytes u ≠ natOfBytes m.uuid := fun hh => e (natOfBytes_inj16 hu h16 hh).symm
        rw [mkIR_cache]
        simp [hne]
    · intro u k hu hf hl
      rw [find_cons] at hf
      by_cases e : m.uuid = u
      · rw [if_pos e] at hf; cases hf; cases hl
      · rw [if_neg e] at hf; simp [Msg.Env.find] at hf
  have hW1 : WF (mkIR {} (natOfBytes m.uuid)) := by
    refine ⟨?_, ?_⟩
    · intro y s c hc; rw [hkids1] at hc; cases hc
    · intro y b hb
      have : (mkIR {} (natOfBytes m.uuid)).payload y = Payload.none := rfl
      rw [this] at hb; cases hb
  have hT1 : Top 0 (mkIR {} (natOfBytes m.uuid)) := by
    refine ⟨by rw [hn1]; omega, ?_, ?_⟩
    · intro y h1 h2; rw [hn1] at h2; omega
    · intro m' hm'; rw [hkids1] at hm'; cases hm'
  obtain ⟨g2, e2, hI2, _, _, hu2, hshape⟩ := modules_link (ir := 0) _ m.modules sms _ env _ hch
    (allSome_map_all2 _ _ _ hsms) hI1 hW1 hT1
  have hchk : checkAll g2 0 (fun k => k == Kind.code || k == Kind.proxy)
      ((m.cfg.edges.map fun e => (natOfBytes e.sourceUuid, natOfBytes e.targetUuid)).flatMap fun e => [e.1, e.2])
      = .ok () := by
    apply checkAll_of
    intro u hu
    obtain ⟨p, hp, hup⟩ := List.mem_flatMap.1 hu
    obtain ⟨e, he, rfl⟩ := List.mem_map.1 hp
    obtain ⟨⟨a1, a2⟩, ⟨b1, b2⟩⟩ := hed e he
    have key : ∀ w : Bytes, w.length = 16 → (env.find w = some .code ∨ env.find w = some .proxy) →
        ∃ n, g2.cache 0 (natOfBytes w) = some n ∧ (g2.kind n == Kind.code || g2.kind n == Kind.proxy) = true := by
      intro w hw hfw
      rcases hfw with hfw | hfw
      · obtain ⟨n, c1, _, c3, _⟩ := hI2.leafs w .code hw hfw rfl
        exact ⟨n, c1, by rw [c3]; rfl⟩
      · obtain ⟨n, c1, _, c3, _⟩ := hI2.leafs w .proxy hw hfw rfl
        exact ⟨n, c1, by rw [c3]; rfl⟩
    simp only [List.mem_cons, List.not_mem_nil, or_false] at hup
    rcases hup with rfl | rfl
    · exact key _ a1 a2
    · exact key _ b1 b2
  refine ⟨g2, ?_, ?_, ?_⟩
  · unfold load
    simp only []
    have e2' : Loader.decodeModules (({} : G).n) (mkIR {} (natOfBytes m.uuid)) sms = .ok g2 := e2
    rw [e2']
    simp only []
    have hchk' : checkAll g2 (({} : G).n) (fun k => k == Kind.code || k == Kind.proxy)
      ((m.cfg.edges.map fun e => (natOfBytes e.sourceUuid, natOfBytes e.targetUuid)).flatMap fun e => [e.1, e.2])
      = .ok () := hchk
    rw [hchk']
  · rw [hu2]
    show (alloc {} Kind.ir (natOfBytes m.uuid)).1.uuid 0 = _
    simp
  · rw [hshape, hkids1]
    simp

/-! ## Part 4: pairwise distinct node UUIDs (with the one duplicate the reader lets through excluded) -/

/-- the UUIDs `L` (as numbers) were new to `env`, pairwise distinct, and `env'` knows exactly `env` and `L` -/
structure NU (env : Env) (L : List Nat) (env' : Env) : Prop where
  nodup : L.Nodup
  fresh : ∀ n, n ∈ L → ∃ u : Bytes, u.length = 16 ∧ n = natOfBytes u ∧ env.find u = none
  cov : ∀ u : Bytes, u.length = 16 → (env'.find u = none ↔ env.find u = none ∧ natOfBytes u ∉ L)

theorem NU.nil (env : Env) : NU env [] env :=
  ⟨List.nodup_nil, fun _ h => (by cases h), fun _ _ => (by simp)⟩

theorem NU.append {env env1 env2 : Env} {L1 L2 : List Nat} (h1 : NU env L1 env1) (h2 : NU env1 L2 env2) :
    NU env (L1 ++ L2) env2 := by
  refine ⟨?_, ?_, ?_⟩
  · rw [List.nodup_append]
    refine ⟨h1.nodup, h2.nodup, ?_⟩
    intro a ha b hb hab
    obtain ⟨u, hu, rfl, hf⟩ := h2.fresh b hb
    exact ((h1.cov u hu).1 hf).2 (hab ▸ ha)
  · intro n hn
    rcases List.mem_append.1 hn with hn | hn
    · exact h1.fresh n hn
    · obtain ⟨u, hu, e, hf⟩ := h2.fresh n hn
      exact ⟨u, hu, e, ((h1.cov u hu).1 hf).1⟩
  · intro u hu
    rw [h2.cov u hu, h1.cov u hu, List.mem_append]
    constructor
    · rintro ⟨⟨a, b⟩, c⟩; exact ⟨a, fun h => h.elim b c⟩
    · rintro ⟨a, b⟩; exact ⟨⟨a, fun h => b (.inl h)⟩, fun h => b (.inr h)⟩

/-- a key registered after the keys `L` (the interval after its blocks, or any node at once) -/
theorem NU.cons_key {env env1 : Env} {L : List Nat} (h : NU env L env1) {x : Bytes} (k : KindTag)
    (h16 : x.length = 16) (hf : env.find x = none) (hx : natOfBytes x ∉ L) :
    NU env (natOfBytes x :: L) ((x, k) :: env1) := by
  refine ⟨List.nodup_cons.2 ⟨hx, h.nodup⟩, ?_, ?_⟩
  · intro n hn
    rcases List.mem_cons.1 hn with rfl | hn
    · exact ⟨x, h16, rfl, hf⟩
    · exact h.fresh n hn
  · intro u hu
    rw [find_cons, List.mem_cons]
    by_cases e : x = u
    · subst e; simp
    · rw [if_neg e, h.cov u hu]
      have hne : natOfBytes u ≠ natOfBytes x := fun hh => e (natOfBytes_inj16 hu h16 hh).symm
      constructor
      · rintro ⟨a, b⟩; exact ⟨a, fun h => h.elim hne b⟩
      · rintro ⟨a, b⟩; exact ⟨a, fun h => b (.inr h)⟩

theorem NU.single {env : Env} {x : Bytes} (k : KindTag) (h16 : x.length = 16) (hf : env.find x = none) :
    NU env [natOfBytes x] ((x, k) :: env) := (NU.nil env).cons_key k h16 hf (by simp)

theorem nu_list {α β : Type} {E : Env → α → Env → Prop} {S : α → β → Prop} {nu : β → List Nat} {side : β → Prop}
    (helem : ∀ env a env' b, E env a env' → S a b → side b → NU env (nu b) env') :
    ∀ (as : List α) (bs : List β) (env env' : Env), Chain E env as env' → All2 S as bs →
      (∀ b, b ∈ bs → side b) → NU env (bs.flatMap nu) env' := by
  intro as
  induction as with
  | nil =>
    intro bs env env' hch hS _
    cases hS; cases hch
    exact NU.nil _
  | cons a as ih =>
    intro bs env env' hch hS hside
    cases hS with
    | cons hab hrest =>
      cases hch with
      | cons h1 hch' =>
        rw [List.flatMap_cons]
        exact (helem _ _ _ _ h1 hab (hside _ List.mem_cons_self)).append
          (ih _ _ _ hch' hrest (fun b hb => hside b (List.mem_cons_of_mem _ hb)))

def SkInterval.noSelf (x : SkInterval) : Prop := x.uuid ∉ x.blocks.map (·.1)
def SkSection.noSelf (s : SkSection) : Prop := ∀ x, x ∈ s.intervals → x.noSelf
def SkModule.noSelf (m : SkModule) : Prop := ∀ s, s ∈ m.sections → s.noSelf
/-- no block carries the UUID of its own interval -/
def SkIR.noSelf (m : SkIR) : Prop := ∀ md, md ∈ m.modules → md.noSelf

theorem nu_block (env : Env) (b : MBlock) (env' : Env) (p : Nat × Bool) (hE : EBlock env b env')
    (hS : skBlock b = some p) (_ : True) : NU env [p.1] env' := by
  obtain ⟨u, k, _, h16, hf, rfl, hsk⟩ := decodeBlock_inv hE
  rw [hS] at hsk; cases hsk
  exact NU.single k h16 hf

theorem nu_interval (env : Env) (x : MByteInterval) (env' : Env) (sx : SkInterval) (hE : EInterval env x env')
    (hS : ∃ es, skInterval x = some (sx, es)) (hside : sx.noSelf) : NU env sx.nodeUuids env' := by
  obtain ⟨h16, hf, _, env1, hch, rfl⟩ := decodeInterval_inv hE
  obtain ⟨es, hS⟩ := hS
  obtain ⟨bs, ls, hbs, _, rfl, _⟩ := skInterval_inv hS
  have hb := nu_list (nu := fun p : Nat × Bool => [p.1]) (side := fun _ => True) nu_block x.blocks bs env env1 hch
    (allSome_map_all2 _ _ _ hbs) (fun _ _ => trivial)
  rw [flatMap_single] at hb
  exact hb.cons_key _ h16 hf hside

theorem nu_section (env : Env) (s : MSection) (env' : Env) (ss : SkSection) (hE : ESection env s env')
    (hS : ∃ es, skSection s = some (ss, es)) (hside : ss.noSelf) : NU env ss.nodeUuids env' := by
  obtain ⟨h16, hf, hch⟩ := decodeSection_inv hE
  obtain ⟨es, hS⟩ := hS
  obtain ⟨xs', hxs', rfl, _⟩ := skSection_inv hS
  have hx := nu_list (nu := SkInterval.nodeUuids) (side := SkInterval.noSelf) nu_interval s.byteIntervals
    (xs'.map (·.1)) _ env' hch
    (all2_map_right (allSome_map_all2 _ _ _ hxs') (fun a b hab => ⟨b.2, by rw [hab]⟩)) (fun b hb => hside b hb)
  exact (NU.single .section h16 hf).append hx

theorem nu_proxy (env : Env) (b : Bytes) (env' : Env) (p : Nat) (hE : EProxy env b env')
    (hS : p = natOfBytes b) (_ : True) : NU env [p] env' := by
  obtain ⟨h16, hf, rfl⟩ := hE
  subst hS
  exact NU.single _ h16 hf

theorem skSymbol_uuid {names : List String} {y : MSymbol} {sy : SkSymbol} (h : skSymbol names y = some sy) :
    sy.uuid = natOfBytes y.uuid := by
  unfold skSymbol at h
  split at h
  · cases h
  · split at h
    · cases h; rfl
    · cases h; rfl
    · split at h
      · cases h; rfl
      · cases h

theorem nu_symbol (names : List String) (env : Env) (y : MSymbol) (env' : Env) (sy : SkSymbol)
    (hE : ESymbol env y env') (hS : skSymbol names y = some sy) (_ : True) : NU env [sy.uuid] env' := by
  obtain ⟨h16, hf, rfl, _⟩ := decodeSymbol_inv hE
  rw [skSymbol_uuid hS]
  exact NU.single _ h16 hf

theorem nu_module (names : List String) (env : Env) (m : MModule) (env' : Env) (sm : SkModule)
    (hE : EModule env m env') (hS : skModule names m = some sm) (hside : sm.noSelf) :
    NU env sm.nodeUuids env' := by
  obtain ⟨h16, hf, env1, env2, hpx, hsec, _, hsym, _⟩ := decodeModule_inv hE
  obtain ⟨ss, ys, hss, hys, rfl⟩ := skModule_inv hS
  have hp := nu_list (nu := fun p : Nat => [p]) (side := fun _ => True) nu_proxy m.proxies
    (m.proxies.map natOfBytes) _ env1 hpx
    (by
      have : All2 (fun (b : Bytes) (b' : Bytes) => b = b') m.proxies m.proxies := by
        induction m.proxies with
        | nil => exact .nil
        | cons a l ih => exact .cons rfl ih
      exact all2_map_right this (fun a b hab => by rw [hab])) (fun _ _ => trivial)
  rw [flatMap_single, List.map_id'] at hp
  have hs := nu_list (nu := SkSection.nodeUuids) (side := SkSection.noSelf) nu_section m.sections
    (ss.map (·.1)) env1 env2 hsec
    (all2_map_right (allSome_map_all2 _ _ _ hss) (fun a b hab => ⟨b.2, by rw [hab]⟩)) (fun b hb => hside b hb)
  have hy := nu_list (nu := fun y : SkSymbol => [y.uuid]) (side := fun _ => True) (nu_symbol names) m.symbols
    ys env2 env' hsym (allSome_map_all2 _ _ _ hys) (fun _ _ => trivial)
  rw [flatMap_single] at hy
  exact (NU.single .module h16 hf).append (hp.append (hs.append hy))

/-- stage 1, partial: pairwise distinct node UUIDs, unless a block carries its interval's UUID -/
theorem nodeUuids_nodup {m : MIR} {v : Msg.IRV} {sk : SkIR} (h : Msg.fromMsg m = .ok v) (hs : skelOf m = some sk)
    (hside : sk.noSelf) : sk.nodeUuids.Nodup := by
  obtain ⟨h16, env, hch, _⟩ := fromMsg_inv h
  obtain ⟨sms, hsms, rfl⟩ := skelOf_inv hs
  have hm := nu_list (nu := SkModule.nodeUuids) (side := SkModule.noSelf) (nu_module _) m.modules sms _ env hch
    (allSome_map_all2 _ _ _ hsms) hside
  have h0 : NU [] [natOfBytes m.uuid] [(m.uuid, KindTag.ir)] :=
    NU.single .ir h16 (by simp [Msg.Env.find])
  exact (h0.append hm).nodup

end Gtirb.Loader
