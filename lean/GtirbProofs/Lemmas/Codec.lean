import GtirbModel.CodecTyping
/-! Helper lemmas for C07 (AuxData codec round trip) and C08 (wire format clauses). -/
namespace Gtirb.Codec

/-! ### little-endian bytes -/

theorem leBytes_length (w n : Nat) : (leBytes w n).length = w := by
  induction w generalizing n with
  | zero => rfl
  | succ w ih => simp [leBytes, ih]

theorem leNat_leBytes (w n : Nat) : leNat (leBytes w n) = n % 256 ^ w := by
  induction w generalizing n with
  | zero => simp [leBytes, leNat, Nat.mod_one]
  | succ w ih =>
    simp only [leBytes, leNat, ih]
    have : (UInt8.ofNat (n % 256)).toNat = n % 256 := by
      rw [UInt8.toNat_ofNat']; omega
    rw [this, Nat.pow_succ, Nat.mul_comm (256 ^ w), Nat.mod_mul]

theorem leNat_leBytes_of_lt (w n : Nat) (h : n < 256 ^ w) : leNat (leBytes w n) = n := by
  rw [leNat_leBytes, Nat.mod_eq_of_lt h]

theorem u64_length (n : Nat) : (u64 n).length = 8 := leBytes_length 8 n

theorem leNat_u64 (n : Nat) (h : n < 2 ^ 64) : leNat (u64 n) = n :=
  leNat_leBytes_of_lt 8 n (by simpa using h)

theorem splitAt?_append (k : Nat) (a rest : Bytes) (h : a.length = k) :
    splitAt? k (a ++ rest) = some (a, rest) := by
  subst h
  simp [splitAt?]

/-- the length prefix of a counted item is read back, whatever follows -/
theorem splitAt?_u64 (n : Nat) (rest : Bytes) : splitAt? 8 (u64 n ++ rest) = some (u64 n, rest) :=
  splitAt?_append 8 _ _ (u64_length n)

/-! ### two's complement -/

theorem int_roundtrip (s : Bool) (w : Nat) (n : Int) (hw : 0 < w)
    (h : intInRange s w n = true) :
    decodeIntBytes s w (leBytes w (n % (256 ^ w : Int)).toNat) = n := by
  obtain ⟨w', rfl⟩ : ∃ w', w = w' + 1 := ⟨w - 1, by omega⟩
  unfold decodeIntBytes
  simp only [leNat_leBytes]
  have hP : (256 : Int) ^ (w' + 1) = ((256 ^ w' : Nat) : Int) * 256 := by
    rw [Int.pow_succ]; simp
  have hP' : (256 : Nat) ^ (w' + 1) = 256 ^ w' * 256 := Nat.pow_succ _ _
  have hpos : 0 < 256 ^ w' := Nat.pow_pos (by decide)
  unfold intInRange at h
  rw [hP] at h ⊢
  rw [hP']
  generalize 256 ^ w' = P at *
  have hM : (0 : Int) < (P : Int) * 256 := by omega
  cases s
  · simp at h
    have e : n % ((P : Int) * 256) = n := Int.emod_eq_of_lt h.1 h.2
    rw [e]
    have : n.toNat % (P * 256) = n.toNat := Nat.mod_eq_of_lt (by omega)
    simp [this]; omega
  · simp at h
    by_cases hn : 0 ≤ n
    · have e : n % ((P : Int) * 256) = n := Int.emod_eq_of_lt hn (by omega)
      rw [e]
      have : n.toNat % (P * 256) = n.toNat := Nat.mod_eq_of_lt (by omega)
      simp [this]; omega
    · have e : n % ((P : Int) * 256) = n + P * 256 := by
        rw [← Int.add_mul_emod_self_left n ((P : Int) * 256) 1, Int.mul_one]
        exact Int.emod_eq_of_lt (by omega) (by omega)
      rw [e]
      have : (n + (P : Int) * 256).toNat % (P * 256) = (n + (P : Int) * 256).toNat :=
        Nat.mod_eq_of_lt (by omega)
      simp [this]; omega

/-! ### UTF-8 -/

theorem byteArray_toList_loop (bs : ByteArray) (i : Nat) (r : List UInt8) :
    ByteArray.toList.loop bs i r = r.reverse ++ bs.data.toList.drop i := by
  fun_induction ByteArray.toList.loop bs i r with
  | case1 i r h ih =>
    rw [ih]
    have h' : i < bs.data.toList.length := h
    have h'' : i < bs.data.size := h
    rw [List.drop_eq_getElem_cons h']
    simp [ByteArray.get!, getElem!_pos bs.data i h'']
  | case2 i r h =>
    have h' : bs.data.toList.length ≤ i  := Nat.le_of_not_lt h
    rw [List.drop_eq_nil_of_le h']; simp

theorem byteArray_toList (bs : ByteArray) : bs.toList = bs.data.toList := by
  simp [ByteArray.toList, byteArray_toList_loop]

theorem string_utf8_roundtrip (s : String) :
    String.fromUTF8? (ByteArray.mk s.toUTF8.toList.toArray) = some s := by
  rw [byteArray_toList]
  simp [String.fromUTF8?, s.isValidUTF8]
  rfl


/-! ### Python equality is symmetric -/

theorem floatEq_symm (e m a b : Nat) : floatEq e m a b = floatEq e m b a := by
  simp only [floatEq]
  rw [Bool.eq_iff_iff]
  simp only [Bool.and_eq_true, Bool.or_eq_true, beq_iff_eq]
  constructor <;> (intro h; obtain ⟨⟨h1, h2⟩, h3⟩ := h; refine ⟨⟨h2, h1⟩, ?_⟩; rcases h3 with h3 | h3
                   · exact Or.inl h3.symm
                   · exact Or.inr ⟨h3.2, h3.1⟩)

mutual
theorem Val.beq_symm : ∀ a b : Val, Val.beq a b = Val.beq b a
  | .int a, b => by cases b <;> simp [Val.beq, BEq.comm (a := a)]
  | .bool a, b => by cases b <;> simp [Val.beq, BEq.comm (a := a)]
  | .f32 a, b => by cases b <;> simp [Val.beq, floatEq_symm _ _ a]
  | .f64 a, b => by cases b <;> simp [Val.beq, floatEq_symm _ _ a]
  | .str a, b => by cases b <;> simp [Val.beq, BEq.comm (a := a)]
  | .uuid a, b => by cases b <;> simp [Val.beq, BEq.comm (a := a)]
  | .node a, b => by cases b <;> simp [Val.beq, BEq.comm (a := a)]
  | .offset e d, b => by cases b <;> simp [Val.beq, BEq.comm (a := d), Val.beq_symm e]
  | .seq xs, b => by cases b <;> simp [Val.beq, Val.beqList_symm xs]
  | .set xs, b => by cases b <;> simp [Val.beq, Val.beqList_symm xs]
  | .map ks vs, b => by cases b <;> simp [Val.beq, Val.beqList_symm ks, Val.beqList_symm vs]
  | .tuple xs, b => by cases b <;> simp [Val.beq, Val.beqList_symm xs]
  | .variant i v, b => by cases b <;> simp [Val.beq, BEq.comm (a := i), Val.beq_symm v]
theorem Val.beqList_symm : ∀ xs ys : List Val, Val.beqList xs ys = Val.beqList ys xs
  | [], ys => by cases ys <;> simp [Val.beqList]
  | x :: xs, ys => by cases ys <;> simp [Val.beqList, Val.beq_symm x, Val.beqList_symm xs]
end

/-! ### `set`/`dict` construction on decode is the identity on distinct elements/keys -/

theorem memVal_append (x : Val) (a b : List Val) :
    memVal x (a ++ b) = (memVal x a || memVal x b) := by
  induction a with
  | nil => simp [memVal]
  | cons y a ih => simp [memVal, ih, Bool.or_assoc]

theorem memVal_of_pairwiseDistinct_append (acc : List Val) (x : Val) (rest : List Val)
    (h : pairwiseDistinct (acc ++ x :: rest) = true) : memVal x acc = false := by
  induction acc with
  | nil => simp [memVal]
  | cons a acc ih =>
    simp only [List.cons_append, pairwiseDistinct, Bool.and_eq_true, Bool.not_eq_true',
      memVal_append, memVal, Bool.or_eq_false_iff] at h
    simp only [memVal, Bool.or_eq_false_iff]
    exact ⟨by rw [Val.beq_symm]; exact h.1.2.1, ih h.2⟩

theorem foldl_setInsert (acc xs : List Val) (h : pairwiseDistinct (acc ++ xs) = true) :
    xs.foldl setInsert acc = acc ++ xs := by
  induction xs generalizing acc with
  | nil => simp
  | cons x xs ih =>
    have hm := memVal_of_pairwiseDistinct_append acc x xs h
    simp only [List.foldl_cons, setInsert, hm]
    rw [ih]
    · simp
    · simpa using h

theorem dedup_of_pairwiseDistinct (xs : List Val) (h : pairwiseDistinct xs = true) :
    dedup xs = xs := by
  simpa [dedup] using foldl_setInsert [] xs (by simpa using h)

theorem mapInsert_fresh (ks vs : List Val) (k v : Val) (hl : ks.length = vs.length)
    (hm : memVal k ks = false) : mapInsert ks vs k v = (ks ++ [k], vs ++ [v]) := by
  induction ks generalizing vs with
  | nil =>
    cases vs with
    | nil => simp [mapInsert]
    | cons _ _ => simp at hl
  | cons k' ks ih =>
    cases vs with
    | nil => simp at hl
    | cons v' vs =>
      simp only [memVal, Bool.or_eq_false_iff] at hm
      simp only [List.length_cons, Nat.add_right_cancel_iff] at hl
      simp [mapInsert, hm.1, ih vs hl hm.2]

theorem foldl_mapInsert (aks avs ks vs : List Val) (hla : aks.length = avs.length)
    (hl : ks.length = vs.length) (h : pairwiseDistinct (aks ++ ks) = true) :
    (ks.zip vs).foldl (fun acc kv => mapInsert acc.1 acc.2 kv.1 kv.2) (aks, avs)
      = (aks ++ ks, avs ++ vs) := by
  induction ks generalizing aks avs vs with
  | nil =>
    cases vs with
    | nil => simp
    | cons _ _ => simp at hl
  | cons k ks ih =>
    cases vs with
    | nil => simp at hl
    | cons v vs =>
      have hm := memVal_of_pairwiseDistinct_append aks k ks h
      simp only [List.length_cons, Nat.add_right_cancel_iff] at hl
      simp only [List.zip_cons_cons, List.foldl_cons, mapInsert_fresh aks avs k v hla hm]
      rw [ih (aks ++ [k]) (avs ++ [v]) vs (by simp [hla]) hl (by simpa using h)]
      simp

theorem mapBuild_of_pairwiseDistinct (ks vs : List Val) (hl : ks.length = vs.length)
    (h : pairwiseDistinct ks = true) : mapBuild ks vs = (ks, vs) := by
  simpa [mapBuild] using foldl_mapInsert [] [] ks vs rfl hl (by simpa using h)


/-! ### round trip: generic list helpers, UUID elements, leaves -/

/-- `f`/`g` round-trip on `x` (with an arbitrary suffix left untouched) -/
def RT (f : Val → Option Bytes) (g : Bytes → Res (Val × Bytes)) (x : Val) : Prop :=
  ∃ bs, f x = some bs ∧ ∀ rest, g (bs ++ rest) = .ok (x, rest)

theorem many_roundtrip (f : Val → Option Bytes) (g : Bytes → Res (Val × Bytes))
    (p : Val → Bool) (hfg : ∀ x, p x = true → RT f g x) (xs : List Val)
    (h : allMany p xs = true) :
    ∃ bs, encodeMany f xs = some bs ∧
      ∀ rest, decodeMany g xs.length (bs ++ rest) = .ok (xs, rest) := by
  induction xs with
  | nil => exact ⟨[], rfl, fun rest => rfl⟩
  | cons x xs ih =>
    simp only [allMany, Bool.and_eq_true] at h
    obtain ⟨a, ha, hda⟩ := hfg x h.1
    obtain ⟨b, hb, hdb⟩ := ih h.2
    refine ⟨a ++ b, by simp [encodeMany, ha, hb], fun rest => ?_⟩
    simp [decodeMany, List.append_assoc, hda, hdb]

theorem manyPairs_roundtrip (f f' : Val → Option Bytes) (g g' : Bytes → Res (Val × Bytes))
    (p p' : Val → Bool) (hfg : ∀ x, p x = true → RT f g x) (hfg' : ∀ x, p' x = true → RT f' g' x)
    (ks vs : List Val) (hl : ks.length = vs.length)
    (hk : allMany p ks = true) (hv : allMany p' vs = true) :
    ∃ bs, encodeManyPairs f f' ks vs = some bs ∧
      ∀ rest, decodeManyPairs g g' ks.length (bs ++ rest) = .ok (ks, vs, rest) := by
  induction ks generalizing vs with
  | nil =>
    cases vs with
    | nil => exact ⟨[], rfl, fun rest => rfl⟩
    | cons _ _ => simp at hl
  | cons k ks ih =>
    cases vs with
    | nil => simp at hl
    | cons v vs =>
      simp only [allMany, Bool.and_eq_true] at hk hv
      simp only [List.length_cons, Nat.add_right_cancel_iff] at hl
      obtain ⟨a, ha, hda⟩ := hfg k hk.1
      obtain ⟨b, hb, hdb⟩ := hfg' v hv.1
      obtain ⟨c, hc, hdc⟩ := ih vs hl hk.2 hv.2
      refine ⟨a ++ b ++ c, by simp [encodeManyPairs, ha, hb, hc], fun rest => ?_⟩
      simp [decodeManyPairs, List.append_assoc, hda, hdb, hdc]

theorem elem_roundtrip (lookup : Bytes → Option Nat) (nu : Nat → Bytes) (e : Val)
    (h : elemOk lookup nu e = true) :
    ∃ u, encodeElem nu e = some u ∧ u.length = 16 ∧
      ∀ rest, decodeElem lookup (u ++ rest) = .ok (e, rest) := by
  cases e <;> simp [elemOk] at h
  case uuid u =>
    refine ⟨u, by simp [encodeElem, h.1], h.1, fun rest => ?_⟩
    simp [decodeElem, splitAt?_append 16 u rest h.1, h.2]
  case node id =>
    refine ⟨nu id, by simp [encodeElem, h.1], h.1, fun rest => ?_⟩
    simp [decodeElem, splitAt?_append 16 (nu id) rest h.1, h.2]

theorem encodeLeaf_int (nu : Nat → Bytes) (l : Leaf) (n : Int) (hl : l.isInt = true) :
    encodeLeaf nu l (.int n) = encodeInt l.signed l.width n := by
  cases l <;> simp [Leaf.isInt] at hl <;> simp [encodeLeaf, Leaf.isInt]

theorem decodeLeaf_int (lookup : Bytes → Option Nat) (l : Leaf) (bs : Bytes) (hl : l.isInt = true) :
    decodeLeaf lookup l bs =
      match splitAt? l.width bs with
      | none => .short
      | some (x, rest) => .ok (.int (decodeIntBytes l.signed l.width x), rest) := by
  cases l <;> simp [Leaf.isInt] at hl <;> rfl

theorem Leaf.width_pos_of_isInt (l : Leaf) (hl : l.isInt = true) : 0 < l.width := by
  cases l <;> simp [Leaf.isInt] at hl <;> simp [Leaf.width]

theorem leafInt_roundtrip (lookup : Bytes → Option Nat) (nu : Nat → Bytes) (l : Leaf) (n : Int)
    (hl : l.isInt = true) (hr : intInRange l.signed l.width n = true) :
    RT (encodeLeaf nu l) (decodeLeaf lookup l) (.int n) := by
  refine ⟨leBytes l.width (n % (256 ^ l.width : Int)).toNat, ?_, fun rest => ?_⟩
  · simp [encodeLeaf_int nu l n hl, encodeInt, hr]
  · rw [decodeLeaf_int lookup l _ hl, splitAt?_append _ _ _ (leBytes_length _ _)]
    simp only
    rw [int_roundtrip _ _ _ (Leaf.width_pos_of_isInt l hl) hr]

theorem leaf_roundtrip (lookup : Bytes → Option Nat) (nu : Nat → Bytes) (l : Leaf) (v : Val)
    (h : leafHasType lookup nu l v = true) :
    RT (encodeLeaf nu l) (decodeLeaf lookup l) v := by
  cases v with
  | int n =>
    have h' : l.isInt = true ∧ intInRange l.signed l.width n = true := by
      cases l <;> simp [leafHasType, elemOk, Leaf.isInt] at h ⊢ <;> exact h
    exact leafInt_roundtrip lookup nu l n h'.1 h'.2
  | bool b =>
    cases l <;> simp [leafHasType, elemOk] at h
    refine ⟨[if b then 1 else 0], by simp [encodeLeaf], fun rest => ?_⟩
    cases b <;> simp [decodeLeaf]
  | f32 bits =>
    cases l <;> simp [leafHasType, elemOk] at h
    refine ⟨leBytes 4 bits, by simp [encodeLeaf, h], fun rest => ?_⟩
    simp [decodeLeaf, splitAt?_append 4 _ rest (leBytes_length 4 bits),
      leNat_leBytes_of_lt 4 bits (by simpa using h)]
  | f64 bits =>
    cases l <;> simp [leafHasType, elemOk] at h
    refine ⟨leBytes 8 bits, by simp [encodeLeaf, h], fun rest => ?_⟩
    simp [decodeLeaf, splitAt?_append 8 _ rest (leBytes_length 8 bits),
      leNat_leBytes_of_lt 8 bits (by simpa using h)]
  | str s =>
    cases l
    case string =>
      have hs : s.toUTF8.toList.length < 2 ^ 64 := by
        simpa only [leafHasType, decide_eq_true_eq] using h
      refine ⟨u64 s.toUTF8.toList.length ++ s.toUTF8.toList, ?_, fun rest => ?_⟩
      · simp only [encodeLeaf, hs, if_true]
      · simp only [decodeLeaf, List.append_assoc, splitAt?_u64, leNat_u64 _ hs,
          splitAt?_append _ s.toUTF8.toList rest rfl, string_utf8_roundtrip]
    all_goals simp [leafHasType, elemOk] at h
  | uuid u =>
    cases l <;> simp [leafHasType] at h
    obtain ⟨a, ha, _, hd⟩ := elem_roundtrip lookup nu (.uuid u) (by simpa [leafHasType] using h)
    exact ⟨a, by simpa [encodeLeaf] using ha, fun rest => by simpa [decodeLeaf] using hd rest⟩
  | node id =>
    cases l <;> simp [leafHasType] at h
    obtain ⟨a, ha, _, hd⟩ := elem_roundtrip lookup nu (.node id) (by simpa [leafHasType] using h)
    exact ⟨a, by simpa [encodeLeaf] using ha, fun rest => by simpa [decodeLeaf] using hd rest⟩
  | offset e d =>
    cases l <;> simp [leafHasType, elemOk] at h
    obtain ⟨a, ha, hal, hd⟩ := elem_roundtrip lookup nu e h.1
    refine ⟨a ++ u64 d, by simp [encodeLeaf, ha, h.2], fun rest => ?_⟩
    simp [decodeLeaf, List.append_assoc, hd, splitAt?_u64, leNat_u64 _ h.2]
  | seq xs => cases l <;> simp [leafHasType, elemOk] at h
  | set xs => cases l <;> simp [leafHasType, elemOk] at h
  | map ks vs => cases l <;> simp [leafHasType, elemOk] at h
  | tuple xs => cases l <;> simp [leafHasType, elemOk] at h
  | variant i v => cases l <;> simp [leafHasType, elemOk] at h

/-! ### round trip: the mutual induction over `Ty` / `List Ty` -/

section
variable (lookup : Bytes → Option Nat) (nu : Nat → Bytes)

mutual
theorem roundtrip : ∀ (t : Ty) (v : Val), hasType lookup nu t v = true →
    RT (encode nu t) (decode lookup t) v
  | .leaf l, v, h => by
    have h' : leafHasType lookup nu l v = true := by simpa [hasType] using h
    obtain ⟨bs, hb, hd⟩ := leaf_roundtrip lookup nu l v h'
    exact ⟨bs, by simpa [encode] using hb, fun rest => by simpa [decode] using hd rest⟩
  | .seq t, v, h => by
    cases v <;> simp [hasType] at h
    case seq xs =>
      obtain ⟨bs, hb, hd⟩ := many_roundtrip (encode nu t) (decode lookup t) (hasType lookup nu t)
        (fun x hx => roundtrip t x hx) xs h.1
      refine ⟨u64 xs.length ++ bs, by simp [encode, hb, h.2], fun rest => ?_⟩
      simp [decode, List.append_assoc, splitAt?_u64, leNat_u64 _ h.2, hd]
  | .set t, v, h => by
    cases v <;> simp [hasType] at h
    case set xs =>
      obtain ⟨bs, hb, hd⟩ := many_roundtrip (encode nu t) (decode lookup t) (hasType lookup nu t)
        (fun x hx => roundtrip t x hx) xs h.1.1
      refine ⟨u64 xs.length ++ bs, by simp [encode, hb, h.1.2], fun rest => ?_⟩
      simp [decode, List.append_assoc, splitAt?_u64, leNat_u64 _ h.1.2, hd,
        dedup_of_pairwiseDistinct xs h.2]
  | .map kt vt, v, h => by
    cases v <;> simp [hasType] at h
    case map ks vs =>
      obtain ⟨⟨⟨⟨hk, hv⟩, hl⟩, hn⟩, hd⟩ := h
      obtain ⟨bs, hb, hd'⟩ := manyPairs_roundtrip (encode nu kt) (encode nu vt)
        (decode lookup kt) (decode lookup vt) (hasType lookup nu kt) (hasType lookup nu vt)
        (fun x hx => roundtrip kt x hx) (fun x hx => roundtrip vt x hx) ks vs hl hk hv
      refine ⟨u64 ks.length ++ bs, by simp [encode, hb, hn], fun rest => ?_⟩
      simp [decode, List.append_assoc, splitAt?_u64, leNat_u64 _ hn, hd',
        mapBuild_of_pairwiseDistinct ks vs hl hd]
  | .tuple ts, v, h => by
    cases v <;> simp [hasType] at h
    case tuple xs =>
      obtain ⟨bs, hb, hd⟩ := roundtripTuple ts xs h
      exact ⟨bs, by simpa [encode] using hb, fun rest => by simp [decode, hd]⟩
  | .variant ts, v, h => by
    cases v <;> simp [hasType] at h
    case variant i x =>
      obtain ⟨bs, hb, hd⟩ := roundtripNth ts i x h.2
      refine ⟨u64 i ++ bs, by simp [encode, hb, h.1], fun rest => ?_⟩
      simp [decode, List.append_assoc, splitAt?_u64, leNat_u64 _ h.1, hd]
  | .unknown _ _, v, h => by
    cases v <;> simp [hasType] at h
theorem roundtripTuple : ∀ (ts : List Ty) (xs : List Val), hasTypeTuple lookup nu ts xs = true →
    ∃ bs, encodeTuple nu ts xs = some bs ∧
      ∀ rest, decodeTuple lookup ts (bs ++ rest) = .ok (xs, rest)
  | [], xs, h => by
    cases xs <;> simp [hasTypeTuple] at h
    exact ⟨[], by simp [encodeTuple], fun rest => by simp [decodeTuple]⟩
  | t :: ts, xs, h => by
    cases xs <;> simp [hasTypeTuple] at h
    case cons x xs =>
      obtain ⟨a, ha, hda⟩ := roundtrip t x h.1
      obtain ⟨b, hb, hdb⟩ := roundtripTuple ts xs h.2
      refine ⟨a ++ b, by simp [encodeTuple, ha, hb], fun rest => ?_⟩
      simp [decodeTuple, List.append_assoc, hda, hdb]
theorem roundtripNth : ∀ (ts : List Ty) (i : Nat) (v : Val), hasTypeNth lookup nu ts i v = true →
    ∃ bs, encodeNth nu ts i v = some bs ∧
      ∀ rest, decodeNth lookup ts i (bs ++ rest) = .ok (v, rest)
  | [], i, v, h => by simp [hasTypeNth] at h
  | t :: ts, 0, v, h => by
    obtain ⟨a, ha, hda⟩ := roundtrip t v (by simpa [hasTypeNth] using h)
    exact ⟨a, by simpa [encodeNth] using ha, fun rest => by simpa [decodeNth] using hda rest⟩
  | t :: ts, i + 1, v, h => by
    obtain ⟨a, ha, hda⟩ := roundtripNth ts i v (by simpa [hasTypeNth] using h)
    exact ⟨a, by simpa [encodeNth] using ha, fun rest => by simpa [decodeNth] using hda rest⟩
end
end

/-! ### facts used by the format clauses (C08) and the examples -/

theorem utf8_length_eq (s : String) : s.toUTF8.toList.length = s.utf8ByteSize := by
  rw [byteArray_toList, Array.length_toList]; rfl

theorem encodeNth_eq (nu : Nat → Bytes) (ts : List Ty) (i : Nat) (v : Val) :
    encodeNth nu ts i v = match ts[i]? with
      | some t => encode nu t v
      | none => none := by
  induction ts generalizing i with
  | nil => simp [encodeNth]
  | cons t ts ih =>
    cases i with
    | zero => simp [encodeNth]
    | succ i => simp [encodeNth, ih]

theorem encodeMany_eq_some_iff (f : Val → Option Bytes) (xs : List Val) (body : Bytes) :
    encodeMany f xs = some body ↔
      ∃ parts : List Bytes, xs.map f = parts.map some ∧ body = parts.flatten := by
  induction xs generalizing body with
  | nil =>
    constructor
    · intro h; exact ⟨[], rfl, by simpa [encodeMany] using h.symm⟩
    · rintro ⟨parts, hp, rfl⟩
      cases parts with
      | nil => rfl
      | cons _ _ => simp at hp
  | cons x xs ih =>
    constructor
    · intro h
      simp only [encodeMany] at h
      split at h
      · rename_i a b ha hb
        obtain ⟨parts, hp, rfl⟩ := (ih b).1 hb
        refine ⟨a :: parts, by simp [ha, hp], ?_⟩
        simpa using (Option.some.inj h).symm
      · cases h
    · rintro ⟨parts, hp, rfl⟩
      cases parts with
      | nil => simp at hp
      | cons a parts =>
        simp only [List.map_cons, List.cons.injEq] at hp
        have := (ih parts.flatten).2 ⟨parts, hp.2, rfl⟩
        simp [encodeMany, hp.1, this]

end Gtirb.Codec
