import GtirbProofs.Lemmas.ForestFrame
/-! Preservation of `ForestInv` (model C) by the pure forest operations and by
the operations of the model.

`ForestInvS g S` is the invariant with the membership clause suspended for the
collections in `S`: this is the shape of the intermediate states of
`_BlockSet.update`, of the module-list hooks and of `__setitem__`, where the
back-pointers are already updated and the owning list is written afterwards.
`ForestInv g` is `ForestInvS g` with nothing suspended. -/
namespace Gtirb.Forest

theorem forestInv_core (g : G) : ForestInv (core g) ↔ ForestInv g :=
  ⟨fun h => ⟨h.mem_iff, h.nodup, h.kind_ok, h.alloc⟩, fun h => ⟨h.mem_iff, h.nodup, h.kind_ok, h.alloc⟩⟩

theorem forestInv_congr {g g' : G} (h : core g' = core g) : ForestInv g' ↔ ForestInv g := by
  rw [← forestInv_core g', h, forestInv_core]

/-- `ForestInv` with the membership clause suspended for the collections in `S` -/
structure ForestInvS (g : G) (S : Nat → Slot → Prop) : Prop where
  mem_iff : ∀ c p' s', ¬ S p' s' →
    (c ∈ g.kids p' s' ↔ (g.par c = some p' ∧ slotOf (g.kind c) = some s'))
  nodup : ∀ p' s', (g.kids p' s').Nodup
  kind_ok : ∀ c q, g.par c = some q → parentKind (g.kind c) = some (g.kind q)
  alloc : ∀ c q, g.par c = some q → c < g.n ∧ q < g.n

/-- the single collection `(p, s)` -/
def At (p : Nat) (s : Slot) : Nat → Slot → Prop := fun p' s' => p' = p ∧ s' = s

/-- no collection -/
def Nowhere : Nat → Slot → Prop := fun _ _ => False

theorem ForestInv.toS {g : G} (h : ForestInv g) (S : Nat → Slot → Prop) : ForestInvS g S :=
  ⟨fun c p' s' _ => h.mem_iff c p' s', h.nodup, h.kind_ok, h.alloc⟩

theorem ForestInvS.mono {g : G} {S T : Nat → Slot → Prop} (h : ForestInvS g S) (hST : ∀ p s, S p s → T p s) :
    ForestInvS g T :=
  ⟨fun c p' s' hn => h.mem_iff c p' s' (fun hs => hn (hST _ _ hs)), h.nodup, h.kind_ok, h.alloc⟩

theorem forestInvS_nowhere {g : G} : ForestInvS g Nowhere ↔ ForestInv g :=
  ⟨fun h => ⟨fun c p s => h.mem_iff c p s (fun hf => hf), h.nodup, h.kind_ok, h.alloc⟩, fun h => h.toS _⟩

theorem ForestInvS.toInv {g : G} {p : Nat} {s : Slot} (h : ForestInvS g (At p s))
    (hm : ∀ c, c ∈ g.kids p s ↔ (g.par c = some p ∧ slotOf (g.kind c) = some s)) : ForestInv g := by
  refine ⟨?_, h.nodup, h.kind_ok, h.alloc⟩
  intro c p' s'
  by_cases hps : p' = p ∧ s' = s
  · rw [hps.1, hps.2]; exact hm c
  · exact h.mem_iff c p' s' hps

/-- a node without parent is in no collection (except possibly a suspended one) -/
theorem ForestInvS.not_mem_of_par_none {g : G} {S : Nat → Slot → Prop} (h : ForestInvS g S) {v : Nat}
    (hv : g.par v = none) (p' : Nat) (s' : Slot) (hps : ¬ S p' s') : v ∉ g.kids p' s' := by
  intro hm
  have := (h.mem_iff v p' s' hps).1 hm
  rw [hv] at this
  cases this.1

theorem ForestInv.not_mem_of_par_none {g : G} (h : ForestInv g) {v : Nat}
    (hv : g.par v = none) (p' : Nat) (s' : Slot) : v ∉ g.kids p' s' := by
  intro hm
  have := (h.mem_iff v p' s').1 hm
  rw [hv] at this
  cases this.1

/-- write a suspended collection -/
theorem ForestInvS.of_kidsSet {g : G} {S : Nat → Slot → Prop} (h : ForestInvS g S) {p : Nat} {s : Slot}
    (hS : S p s) {l : List Nat} (hl : l.Nodup) : ForestInvS (kidsSet g p s l) S := by
  refine ⟨?_, ?_, h.kind_ok, h.alloc⟩
  · intro c p' s' hps
    have hne : ¬(p' = p ∧ s' = s) := fun hh => hps (by rw [hh.1, hh.2]; exact hS)
    simp only [kidsSet_kids, if_neg hne]
    exact h.mem_iff c p' s' hps
  · intro p' s'
    simp only [kidsSet_kids]
    split
    · exact hl
    · exact h.nodup p' s'

/-- clear the back-pointer of a node that is (at most) in suspended collections -/
theorem ForestInvS.of_setPar_none {g : G} {S : Nat → Slot → Prop} (h : ForestInvS g S) {v : Nat}
    (hv : ∀ p' s', ¬ S p' s' → v ∉ g.kids p' s') : ForestInvS (setPar g v none) S := by
  refine ⟨?_, h.nodup, ?_, ?_⟩
  · intro c p' s' hps
    simp only [setPar_kids, setPar_par, setPar_kind]
    by_cases hc : c = v
    · subst hc
      simp only [if_true]
      constructor
      · intro hm; exact absurd hm (hv p' s' hps)
      · intro hh; cases hh.1
    · simp only [if_neg hc]
      exact h.mem_iff c p' s' hps
  · intro c q
    simp only [setPar_par, setPar_kind]
    split
    · intro hh; cases hh
    · exact h.kind_ok c q
  · intro c q
    simp only [setPar_par, setPar_n]
    split
    · intro hh; cases hh
    · exact h.alloc c q

/-- point a node that is (at most) in suspended collections to the owner of a suspended collection -/
theorem ForestInvS.of_setPar_some {g : G} {S : Nat → Slot → Prop} (h : ForestInvS g S) {p : Nat} {s : Slot} {v : Nat}
    (hS : S p s) (hv : ∀ p' s', ¬ S p' s' → v ∉ g.kids p' s') (hc : ChildOK g p s v) :
    ForestInvS (setPar g v (some p)) S := by
  obtain ⟨hp, hvn, hslot, hkind⟩ := hc
  refine ⟨?_, h.nodup, ?_, ?_⟩
  · intro c p' s' hps
    simp only [setPar_kids, setPar_par, setPar_kind]
    by_cases hc : c = v
    · subst hc
      simp only [if_true]
      constructor
      · intro hm; exact absurd hm (hv p' s' hps)
      · intro hh
        exfalso; apply hps
        have e1 : p' = p := (Option.some.inj hh.1).symm
        have e2 : s' = s := by have := hh.2; rw [hslot] at this; exact (Option.some.inj this).symm
        rw [e1, e2]; exact hS
    · simp only [if_neg hc]
      exact h.mem_iff c p' s' hps
  · intro c q
    simp only [setPar_par, setPar_kind]
    split
    · rename_i hcv; intro hh; cases hh; rw [hcv]; exact hkind
    · exact h.kind_ok c q
  · intro c q
    simp only [setPar_par, setPar_n]
    split
    · rename_i hcv; intro hh; cases hh; rw [hcv]; exact ⟨hvn, hp⟩
    · exact h.alloc c q

theorem mem_erase_nodup {l : List Nat} (hl : l.Nodup) (v c : Nat) : c ∈ l.erase v ↔ c ∈ l ∧ c ≠ v := by
  rw [hl.mem_erase_iff]; exact And.comm

/-- detach through a collection that is not suspended -/
theorem ForestInvS.of_detach {g : G} {S : Nat → Slot → Prop} (h : ForestInvS g S) (q : Nat) (s' : Slot) (v : Nat)
    (hq : ¬ S q s') : ForestInvS (detach g q s' v) S := by
  by_cases hm : v ∈ g.kids q s'
  · have hv := (h.mem_iff v q s' hq).1 hm
    rw [detach_pos hm]
    refine ⟨?_, ?_, ?_, ?_⟩
    · intro c p1 s1 hps
      simp only [kidsErase_kids, kidsErase_par, kidsErase_kind, setPar_kids, setPar_par, setPar_kind]
      have hc := h.mem_iff c p1 s1 hps
      by_cases hcv : c = v
      · subst hcv
        simp only [if_true]
        constructor
        · intro hh
          split at hh
          · exact absurd hh (List.Nodup.not_mem_erase (h.nodup q s'))
          · rename_i hne
            have := hc.1 hh
            exfalso; apply hne
            rw [hv.1] at this
            refine ⟨(Option.some.inj this.1).symm, ?_⟩
            have h2 := this.2; rw [hv.2] at h2; exact (Option.some.inj h2).symm
        · intro hh; cases hh.1
      · simp only [if_neg hcv]
        split
        · rename_i heq
          rw [mem_erase_nodup (h.nodup q s'), ← heq.1, ← heq.2, hc]
          simp [hcv]
        · exact hc
    · intro p1 s1
      simp only [kidsErase_kids, setPar_kids]
      split
      · exact (h.nodup q s').erase v
      · exact h.nodup p1 s1
    · intro c q1
      simp only [kidsErase_par, kidsErase_kind, setPar_par, setPar_kind]
      split
      · intro hh; cases hh
      · exact h.kind_ok c q1
    · intro c q1
      simp only [kidsErase_par, kidsErase_n, setPar_par, setPar_n]
      split
      · intro hh; cases hh
      · exact h.alloc c q1
  · rw [detach_neg hm]; exact h

/-! ### `discard` -/

theorem ForestInv.of_detach {g : G} (h : ForestInv g) (q : Nat) (s : Slot) (v : Nat) : ForestInv (detach g q s v) :=
  forestInvS_nowhere.1 ((h.toS Nowhere).of_detach q s v (fun hf => hf))

/-- with the invariant, a linked node is in the collection its kind belongs to -/
theorem ForestInvS.mem_of_par {g : G} {S : Nat → Slot → Prop} (h : ForestInvS g S) {v q : Nat} {s : Slot}
    (hq : g.par v = some q) (hs : slotOf (g.kind v) = some s) (hS : ¬ S q s) : v ∈ g.kids q s :=
  (h.mem_iff v q s hS).2 ⟨hq, hs⟩

theorem ForestInv.mem_of_par {g : G} (h : ForestInv g) {v q : Nat} {s : Slot}
    (hq : g.par v = some q) (hs : slotOf (g.kind v) = some s) : v ∈ g.kids q s :=
  (h.mem_iff v q s).2 ⟨hq, hs⟩

/-- detaching from the current parent (not through a suspended collection) clears the back-pointer -/
theorem ForestInvS.of_detachOld {g : G} {S : Nat → Slot → Prop} (h : ForestInvS g S) {s : Slot} {v : Nat}
    (hs : slotOf (g.kind v) = some s) (hS : ∀ q, g.par v = some q → ¬ S q s) :
    ForestInvS (detachOld g s v) S ∧ (detachOld g s v).par v = none := by
  cases hp : g.par v with
  | none => rw [detachOld_none hp]; exact ⟨h, hp⟩
  | some q =>
    rw [detachOld_some hp]
    refine ⟨h.of_detach q s v (hS q hp), ?_⟩
    rw [detach_par]
    simp [h.mem_of_par hp hs (hS q hp)]

theorem ForestInv.of_detachOld {g : G} (h : ForestInv g) {s : Slot} {v : Nat}
    (hs : slotOf (g.kind v) = some s) :
    ForestInv (detachOld g s v) ∧ (detachOld g s v).par v = none := by
  have := (h.toS Nowhere).of_detachOld hs (fun _ _ hf => hf)
  exact ⟨forestInvS_nowhere.1 this.1, this.2⟩

theorem childOK_congr {g g' : G} (hn : g'.n = g.n) (hk : g'.kind = g.kind) (p : Nat) (s : Slot) (v : Nat) :
    ChildOK g' p s v ↔ ChildOK g p s v := by
  unfold ChildOK; rw [hn, hk]

/-! ### `relink`: detach from the old parent, point to the new one -/

theorem relink_kids_of_ne {g : G} {p : Nat} {s : Slot} {v : Nat} (p' : Nat) (s' : Slot)
    (h : g.par v ≠ some p') : (relink g p s v).kids p' s' = g.kids p' s' := by
  unfold relink
  simp only [setPar_kids]
  unfold detachOld
  split
  · rename_i q hq
    rw [detach_kids]
    split
    · rename_i hh; exfalso; apply h; rw [hq, hh.1]
    · rfl
  · rfl

theorem ForestInvS.of_relink {g : G} {S : Nat → Slot → Prop} (h : ForestInvS g S) {p : Nat} {s : Slot} {v : Nat}
    (hS : S p s) (hc : ChildOK g p s v) (hSq : ∀ q, g.par v = some q → ¬ S q s) :
    ForestInvS (relink g p s v) S := by
  obtain ⟨h1, hp1⟩ := h.of_detachOld hc.2.2.1 hSq
  unfold relink
  exact h1.of_setPar_some hS (fun p' s' hps => h1.not_mem_of_par_none hp1 p' s' hps)
    ((childOK_congr (detachOld_n g s v) (detachOld_kind g s v) p s v).2 hc)

/-! ### `add` -/

theorem ForestInv.of_attach {g : G} (h : ForestInv g) {p : Nat} {s : Slot} {v : Nat} (hc : ChildOK g p s v) :
    ForestInv (attach g p s v) := by
  obtain ⟨h1, hp1⟩ := h.of_detachOld hc.2.2.1
  have hc1 : ChildOK (detachOld g s v) p s v :=
    (childOK_congr (detachOld_n g s v) (detachOld_kind g s v) p s v).2 hc
  have h2 : ForestInvS (setPar (detachOld g s v) v (some p)) (At p s) :=
    (h1.toS (At p s)).of_setPar_some ⟨rfl, rfl⟩ (fun p' s' _ => h1.not_mem_of_par_none hp1 p' s') hc1
  unfold attach relink
  rw [kidsInsert_eq_kidsSet]
  refine (h2.of_kidsSet ⟨rfl, rfl⟩ (nodup_setInsertNat v (h1.nodup p s))).toInv ?_
  intro c
  simp only [kidsSet_kids, kidsSet_par, kidsSet_kind, setPar_par, setPar_kids, setPar_kind, and_self, if_true,
    mem_setInsertNat]
  by_cases hcv : c = v
  · subst hcv
    simp only [or_true, if_true, true_and, true_iff]
    exact hc1.2.2.1
  · simp only [hcv, or_false, if_false]
    exact h1.mem_iff c p s

/-! ### `_BlockSet.update`: relink all, then insert all -/

theorem relinkFold {p : Nat} {s : Slot} : ∀ (rest : List Nat) (gk : G) (done : List Nat),
    ForestInvS gk (At p s) → rest.Nodup →
    (∀ v ∈ rest, v ∉ done ∧ v ∉ gk.kids p s ∧ ChildOK gk p s v) →
    (∀ c, (gk.par c = some p ∧ slotOf (gk.kind c) = some s) ↔ (c ∈ gk.kids p s ∨ c ∈ done)) →
    ForestInvS (rest.foldl (fun g v => relink g p s v) gk) (At p s) ∧
    (rest.foldl (fun g v => relink g p s v) gk).kids p s = gk.kids p s ∧
    (rest.foldl (fun g v => relink g p s v) gk).n = gk.n ∧
    (rest.foldl (fun g v => relink g p s v) gk).kind = gk.kind ∧
    (∀ c, ((rest.foldl (fun g v => relink g p s v) gk).par c = some p ∧ slotOf (gk.kind c) = some s) ↔
      (c ∈ gk.kids p s ∨ c ∈ done ∨ c ∈ rest)) := by
  intro rest
  induction rest with
  | nil =>
    intro gk done h _ _ hT
    refine ⟨h, rfl, rfl, rfl, ?_⟩
    intro c
    simp only [List.foldl_nil, List.not_mem_nil, or_false]
    exact hT c
  | cons v rest ih =>
    intro gk done h hnd hrest hT
    rw [List.nodup_cons] at hnd
    obtain ⟨hvd, hvk, hvc⟩ := hrest v List.mem_cons_self
    have hpv : gk.par v ≠ some p := by
      intro hh
      rcases (hT v).1 ⟨hh, hvc.2.2.1⟩ with h1 | h1
      · exact hvk h1
      · exact hvd h1
    have h1 : ForestInvS (relink gk p s v) (At p s) :=
      h.of_relink ⟨rfl, rfl⟩ hvc (fun q hq hh => hpv (by rw [hq, hh.1]))
    have hk1 : (relink gk p s v).kids p s = gk.kids p s := relink_kids_of_ne p s hpv
    have := ih (relink gk p s v) (v :: done) h1 hnd.2 ?_ ?_
    · simp only [List.foldl_cons]
      obtain ⟨a1, a2, a3, a4, a5⟩ := this
      refine ⟨a1, a2.trans hk1, a3.trans (relink_n _ _ _ _), a4.trans (relink_kind _ _ _ _), ?_⟩
      intro c
      rw [relink_kind] at a5
      rw [a5 c, hk1]
      simp only [List.mem_cons]
      grind
    · intro w hw
      obtain ⟨hwd, hwk, hwc⟩ := hrest w (List.mem_cons_of_mem _ hw)
      refine ⟨?_, ?_, ?_⟩
      · simp only [List.mem_cons, not_or]
        exact ⟨fun e => hnd.1 (e ▸ hw), hwd⟩
      · rw [hk1]; exact hwk
      · exact (childOK_congr (relink_n _ _ _ _) (relink_kind _ _ _ _) p s w).2 hwc
    · intro c
      rw [relink_par, relink_kind, hk1]
      simp only [List.mem_cons]
      by_cases hcv : c = v
      · subst hcv
        simp only [if_true, true_and, true_or, or_true, iff_true]
        exact hvc.2.2.1
      · simp only [hcv, if_false, false_or]
        exact hT c

theorem insertFold {p : Nat} {s : Slot} : ∀ (rest : List Nat) (gk : G),
    ForestInvS gk (At p s) →
    (∀ c, (gk.par c = some p ∧ slotOf (gk.kind c) = some s) ↔ (c ∈ gk.kids p s ∨ c ∈ rest)) →
    ForestInv (rest.foldl (fun g v => kidsInsert g p s v) gk) := by
  intro rest
  induction rest with
  | nil =>
    intro gk h hT
    refine h.toInv (fun c => ?_)
    rw [hT c]; simp
  | cons v rest ih =>
    intro gk h hT
    simp only [List.foldl_cons]
    apply ih
    · rw [kidsInsert_eq_kidsSet]
      exact h.of_kidsSet ⟨rfl, rfl⟩ (nodup_setInsertNat v (h.nodup p s))
    · intro c
      simp only [kidsInsert_par, kidsInsert_kind, kidsInsert_kids, and_self, if_true, mem_setInsertNat]
      rw [hT c]
      simp only [List.mem_cons]
      grind

theorem ForestInv.of_blkUpdatePure {g : G} (h : ForestInv g) {p : Nat} {new : List Nat} (hnd : new.Nodup)
    (hnew : ∀ v ∈ new, v ∉ g.kids p .blocks ∧ ChildOK g p .blocks v) :
    ForestInv (blkUpdatePure g p new) := by
  unfold blkUpdatePure
  obtain ⟨a1, a2, _, a4, a5⟩ := relinkFold (p := p) (s := .blocks) new g [] (h.toS _) hnd
    (fun v hv => ⟨List.not_mem_nil, (hnew v hv).1, (hnew v hv).2⟩)
    (fun c => by rw [h.mem_iff c p .blocks]; simp)
  apply insertFold _ _ a1
  intro c
  rw [a4, a5 c, a2]
  simp

/-! ### list facts -/

theorem nodup_eraseDups : ∀ (n : Nat) (l : List Nat), l.length ≤ n → l.eraseDups.Nodup := by
  intro n
  induction n with
  | zero =>
    intro l hl
    have : l = [] := List.length_eq_zero_iff.1 (Nat.le_zero.1 hl)
    subst this; simp
  | succ n ih =>
    intro l hl
    cases l with
    | nil => simp
    | cons a as =>
      rw [List.eraseDups_cons, List.nodup_cons]
      constructor
      · rw [List.mem_eraseDups, List.mem_filter]
        simp
      · apply ih
        have := List.length_filter_le (fun b => !b == a) as
        simp only [List.length_cons] at hl
        omega

theorem blkNew_nodup (g : G) (p : Nat) (vs : List Nat) : (blkNew g p vs).Nodup :=
  (nodup_eraseDups _ vs (Nat.le_refl _)).sublist List.filter_sublist

theorem mem_blkNew {g : G} {p : Nat} {vs : List Nat} {v : Nat} :
    v ∈ blkNew g p vs ↔ v ∈ vs ∧ v ∉ g.kids p .blocks := by
  unfold blkNew
  simp [List.mem_filter]

theorem list_split_at {l : List Nat} {idx old : Nat} (h : l[idx]? = some old) :
    ∃ A B, l = A ++ old :: B ∧ l.eraseIdx idx = A ++ B ∧ ∀ v, l.set idx v = A ++ v :: B := by
  induction l generalizing idx with
  | nil => simp at h
  | cons a as ih =>
    cases idx with
    | zero =>
      simp at h
      subst h
      exact ⟨[], as, rfl, rfl, fun v => rfl⟩
    | succ n =>
      simp at h
      obtain ⟨A, B, h1, h2, h3⟩ := ih h
      refine ⟨a :: A, B, ?_, ?_, ?_⟩
      · rw [h1]; rfl
      · simp [List.eraseIdx, h2]
      · intro v; simp [List.set, h3]

theorem nodup_middle {A B : List Nat} {x : Nat} :
    (A ++ x :: B).Nodup ↔ (x ∉ A ∧ x ∉ B) ∧ (A ++ B).Nodup := by
  rw [List.perm_middle.nodup_iff, List.nodup_cons, List.mem_append, not_or]

theorem mem_middle {A B : List Nat} {x c : Nat} : c ∈ A ++ x :: B ↔ c = x ∨ c ∈ A ++ B := by
  simp only [List.mem_append, List.mem_cons]; grind

theorem mem_pyInsert (l : List Nat) (k : Int) (v c : Nat) : c ∈ pyInsert l k v ↔ c ∈ l ∨ c = v := by
  unfold pyInsert
  dsimp only
  rw [mem_middle, List.take_append_drop]
  grind

theorem nodup_pyInsert {l : List Nat} (k : Int) {v : Nat} (hl : l.Nodup) (hv : v ∉ l) : (pyInsert l k v).Nodup := by
  unfold pyInsert
  dsimp only
  rw [nodup_middle, List.take_append_drop]
  exact ⟨⟨fun h => hv (List.mem_of_mem_take h), fun h => hv (List.mem_of_mem_drop h)⟩, hl⟩

/-- write the suspended collection with exactly the nodes pointing to it -/
theorem ForestInvS.close {g : G} {p : Nat} {s : Slot} (h : ForestInvS g (At p s)) {l : List Nat} (hl : l.Nodup)
    (hm : ∀ c, c ∈ l ↔ (g.par c = some p ∧ slotOf (g.kind c) = some s)) : ForestInv (kidsSet g p s l) := by
  refine (h.of_kidsSet ⟨rfl, rfl⟩ hl).toInv ?_
  intro c
  simp only [kidsSet_kids, kidsSet_par, kidsSet_kind, and_self, if_true]
  exact hm c

/-- the state after `relink` from a consistent state -/
theorem ForestInv.relink_spec {g : G} (h : ForestInv g) {p : Nat} {s : Slot} {v : Nat} (hc : ChildOK g p s v) :
    ForestInvS (relink g p s v) (At p s) ∧ v ∉ (relink g p s v).kids p s ∧
    (relink g p s v).kids p s = (g.kids p s).erase v ∧
    (∀ c, ((relink g p s v).par c = some p ∧ slotOf (g.kind c) = some s) ↔
      (c ∈ (relink g p s v).kids p s ∨ c = v)) := by
  obtain ⟨h1, hp1⟩ := h.of_detachOld hc.2.2.1
  have hc1 : ChildOK (detachOld g s v) p s v :=
    (childOK_congr (detachOld_n g s v) (detachOld_kind g s v) p s v).2 hc
  have h2 : ForestInvS (setPar (detachOld g s v) v (some p)) (At p s) :=
    (h1.toS (At p s)).of_setPar_some ⟨rfl, rfl⟩ (fun p' s' _ => h1.not_mem_of_par_none hp1 p' s') hc1
  have hk : (detachOld g s v).kids p s = (g.kids p s).erase v := by
    cases hp : g.par v with
    | none =>
      rw [detachOld_none hp, List.erase_of_not_mem (h.not_mem_of_par_none hp p s)]
    | some q =>
      rw [detachOld_some hp, detach_kids]
      split
      · rename_i hh; rw [hh.1]
      · rename_i hh
        rw [List.erase_of_not_mem]
        intro hm
        have := (h.mem_iff v p s).1 hm
        apply hh
        rw [hp] at this
        exact ⟨(Option.some.inj this.1).symm, rfl⟩
  refine ⟨h2, ?_, ?_, ?_⟩
  · exact h1.not_mem_of_par_none hp1 p s
  · exact hk
  · intro c
    unfold relink
    simp only [setPar_par, setPar_kids]
    by_cases hcv : c = v
    · subst hcv
      simp only [if_true, true_and, or_true, iff_true]
      exact hc.2.2.1
    · simp only [hcv, if_false, or_false]
      have := h1.mem_iff c p s
      rw [detachOld_kind] at this
      exact this.symm

/-! ### the operations of the model -/

theorem forestInv_of_core_eq {g' X : G} (h : core g' = X) (hX : ForestInv X) : ForestInv g' :=
  (forestInv_core g').1 (h ▸ hX)

theorem childOK_core {g : G} {p : Nat} {s : Slot} {v : Nat} : ChildOK (core g) p s v ↔ ChildOK g p s v := Iff.rfl

theorem ForestInv.setDiscard {g g' : G} {q : Nat} {s : Slot} {v : Nat} (h : ForestInv g)
    (hs : setDiscard g q s v = .ok g') : ForestInv g' :=
  forestInv_of_core_eq (setDiscard_core hs) (((forestInv_core g).2 h).of_detach q s v)

theorem ForestInv.setAdd {g g' : G} {p : Nat} {s : Slot} {v : Nat} (h : ForestInv g) (hc : ChildOK g p s v)
    (hs : setAdd g p s v = .ok g') : ForestInv g' :=
  forestInv_of_core_eq (setAdd_core hs) (((forestInv_core g).2 h).of_attach hc)

theorem ForestInv.blkUpdate {g g' : G} {p : Nat} {vs : List Nat} (h : ForestInv g)
    (hc : ∀ v ∈ vs, ChildOK g p .blocks v) (hs : blkUpdate g p vs = .ok g') : ForestInv g' := by
  refine forestInv_of_core_eq (blkUpdate_core hs)
    (((forestInv_core g).2 h).of_blkUpdatePure (blkNew_nodup g p vs) ?_)
  intro v hv
  rw [mem_blkNew] at hv
  exact ⟨hv.2, hc v hv.1⟩

theorem ForestInv.nodeSetAdd {g g' : G} {p : Nat} {s : Slot} {v : Nat} (h : ForestInv g) (hc : ChildOK g p s v)
    (hs : nodeSetAdd g p s v = .ok g') : ForestInv g' := by
  unfold Gtirb.Forest.nodeSetAdd at hs
  split at hs
  · rename_i hb
    subst hb
    exact h.blkUpdate (fun w hw => by simp at hw; subst hw; exact hc) hs
  · exact h.setAdd hc hs

theorem ForestInv.modListRemove {g g' : G} {i v : Nat} (h : ForestInv g)
    (hs : modListRemove g i v = .ok g') : ForestInv g' :=
  forestInv_of_core_eq (modListRemove_core hs) (((forestInv_core g).2 h).of_detach i .mods v)

theorem ForestInv.of_modInsertPure {g : G} (h : ForestInv g) {i : Nat} {k : Int} {v : Nat}
    (hc : ChildOK g i .mods v) : ForestInv (modInsertPure g i k v) := by
  obtain ⟨h1, hv, _, hT⟩ := h.relink_spec hc
  unfold modInsertPure
  refine h1.close (nodup_pyInsert k (h1.nodup i .mods) hv) ?_
  intro c
  rw [mem_pyInsert, relink_kind]
  exact (hT c).symm

theorem ForestInv.modInsert {g g' : G} {i : Nat} {k : Int} {v : Nat} (h : ForestInv g)
    (hc : ChildOK g i .mods v) (hs : modInsert g i k v = .ok g') : ForestInv g' :=
  forestInv_of_core_eq (modInsert_core hs) (((forestInv_core g).2 h).of_modInsertPure hc)

theorem ForestInv.modAppend {g g' : G} {i v : Nat} (h : ForestInv g)
    (hc : ChildOK g i .mods v) (hs : modAppend g i v = .ok g') : ForestInv g' := h.modInsert hc hs

/-- a member of a consistent collection is in no other collection -/
theorem ForestInv.only_there {g : G} (h : ForestInv g) {v p : Nat} {s : Slot} (hv : v ∈ g.kids p s)
    (p' : Nat) (s' : Slot) (hne : ¬(p' = p ∧ s' = s)) : v ∉ g.kids p' s' := by
  intro hm
  have h1 := (h.mem_iff v p s).1 hv
  have h2 := (h.mem_iff v p' s').1 hm
  apply hne
  rw [h1.1] at h2
  refine ⟨(Option.some.inj h2.1).symm, ?_⟩
  have := h2.2; rw [h1.2] at this; exact (Option.some.inj this).symm

theorem ForestInv.modDelItem {g g' : G} {i : Nat} {k : Int} (h : ForestInv g)
    (hs : modDelItem g i k = .ok g') : ForestInv g' := by
  obtain ⟨idx, v, _, hv, hc⟩ := modDelItem_core hs
  refine forestInv_of_core_eq hc ?_
  have hmem : v ∈ g.kids i .mods := List.mem_of_getElem? hv
  have h1 : ForestInvS (setPar (core g) v none) (At i .mods) :=
    (((forestInv_core g).2 h).toS (At i .mods)).of_setPar_none (fun p' s' hne => h.only_there hmem p' s' hne)
  obtain ⟨A, B, e1, e2, _⟩ := list_split_at hv
  have hnd := h.nodup i .mods
  rw [e1, nodup_middle] at hnd
  refine h1.close (by rw [e2]; exact hnd.2) ?_
  intro c
  simp only [setPar_par, setPar_kind, core_par, core_kind]
  rw [e2]
  have hm := h.mem_iff c i .mods
  rw [e1, mem_middle] at hm
  by_cases hcv : c = v
  · subst hcv
    simp only [if_true]
    constructor
    · intro hh; rw [List.mem_append] at hh; rcases hh with hh | hh
      · exact absurd hh hnd.1.1
      · exact absurd hh hnd.1.2
    · intro hh; cases hh.1
  · simp only [hcv, if_false]
    rw [← hm]; simp [hcv]

theorem ForestInv.of_modSetItemPure {g : G} (h : ForestInv g) {i idx old v : Nat}
    (hold : (g.kids i .mods)[idx]? = some old) (hne : ¬(v ∈ g.kids i .mods ∧ v ≠ old))
    (hc : ChildOK g i .mods v) : ForestInv (modSetItemPure g i idx old v) := by
  have hmem : old ∈ g.kids i .mods := List.mem_of_getElem? hold
  have h1 : ForestInvS (setPar g old none) (At i .mods) :=
    (h.toS (At i .mods)).of_setPar_none (fun p' s' hne => h.only_there hmem p' s' hne)
  have hpv : (setPar g old none).par v ≠ some i := by
    simp only [setPar_par]
    split
    · intro hh; cases hh
    · rename_i hvo
      intro hh
      exact hne ⟨h.mem_of_par hh hc.2.2.1, hvo⟩
  have h2 : ForestInvS (relink (setPar g old none) i .mods v) (At i .mods) :=
    h1.of_relink ⟨rfl, rfl⟩ hc (fun q hq hh => hpv (by rw [hq, hh.1]))
  have hk : (relink (setPar g old none) i .mods v).kids i .mods = g.kids i .mods :=
    relink_kids_of_ne i .mods hpv
  unfold modSetItemPure
  dsimp only
  rw [hk]
  obtain ⟨A, B, e1, _, e3⟩ := list_split_at hold
  have hnd := h.nodup i .mods
  rw [e1, nodup_middle] at hnd
  have hvAB : v ∉ A ++ B := by
    intro hh
    apply hne
    have hv : v ∈ g.kids i .mods := by rw [e1, mem_middle]; exact Or.inr hh
    refine ⟨hv, ?_⟩
    intro e; subst e
    rw [List.mem_append] at hh
    rcases hh with hh | hh
    · exact hnd.1.1 hh
    · exact hnd.1.2 hh
  refine h2.close ?_ ?_
  · rw [e3, nodup_middle]
    rw [List.mem_append, not_or] at hvAB
    exact ⟨hvAB, hnd.2⟩
  · intro c
    rw [e3, mem_middle, relink_par, relink_kind]
    simp only [setPar_par, setPar_kind]
    have hm := h.mem_iff c i .mods
    rw [e1, mem_middle] at hm
    by_cases hcv : c = v
    · subst hcv
      simp only [true_or, if_true, true_and, true_iff]
      exact hc.2.2.1
    · simp only [hcv, false_or, if_false]
      by_cases hco : c = old
      · subst hco
        simp only [if_true]
        constructor
        · intro hh; rw [List.mem_append] at hh; rcases hh with hh | hh
          · exact absurd hh hnd.1.1
          · exact absurd hh hnd.1.2
        · intro hh; cases hh.1
      · simp only [hco, if_false]
        rw [← hm]; simp [hco]

theorem ForestInv.modSetItem {g g' : G} {i : Nat} {k : Int} {v : Nat} (h : ForestInv g)
    (hc : ChildOK g i .mods v) (hs : modSetItem g i k v = .ok g') : ForestInv g' := by
  obtain ⟨idx, old, _, hold, hne, hcore⟩ := modSetItem_core hs
  exact forestInv_of_core_eq hcore (((forestInv_core g).2 h).of_modSetItemPure hold hne hc)

theorem ForestInv.modReverse {g : G} (h : ForestInv g) (i : Nat) : ForestInv (modReverse g i) := by
  unfold Gtirb.Forest.modReverse
  refine (h.toS (At i .mods)).close ((List.reverse_perm _).nodup_iff.2 (h.nodup i .mods)) ?_
  intro c
  rw [List.mem_reverse]
  exact h.mem_iff c i .mods

theorem ForestInv.modClear {g g' : G} {i : Nat} (h : ForestInv g) (hs : modClear g i = .ok g') : ForestInv g' :=
  foldE_inv ForestInv _ (fun _ _ _ _ h1 h2 => h1.modDelItem h2) g g' h hs

theorem childOK_stable {g g' : G} (h : Stable g g') (p : Nat) (s : Slot) (v : Nat) :
    ChildOK g' p s v ↔ ChildOK g p s v := childOK_congr h.n h.kind p s v

theorem ForestInv.setParent {g g' : G} {c : Nat} {p : Option Nat} (h : ForestInv g)
    (hop : OpOK g (.setParent c p)) (hs : setParent g c p = .ok g') : ForestInv g' := by
  obtain ⟨hc, _, hp⟩ := hop
  unfold Gtirb.Forest.setParent at hs
  split at hs
  · cases hs
  · rename_i s hslot
    split at hs
    · cases hs
    · rename_i g1 h1
      have e1 : ForestInv g1 ∧ Stable g g1 := by
        split at h1
        · split at h1
          · exact ⟨h.modListRemove h1, modListRemove_stable h1⟩
          · exact ⟨h.setDiscard h1, setDiscard_stable h1⟩
        · cases h1; exact ⟨h, Stable.refl _⟩
      split at hs
      · cases hs; exact e1.1
      · rename_i p'
        have hc1 : ChildOK g1 p' s c :=
          (childOK_stable e1.2 p' s c).2 ⟨(hp p' rfl).1, hc, hslot, (hp p' rfl).2⟩
        split at hs
        · rename_i hm; subst hm; exact e1.1.modAppend hc1 hs
        · exact e1.1.nodeSetAdd hc1 hs

/-- a fold of operations that each keep the invariant and the kinds -/
theorem foldE_forestInv {f : G → Nat → Except Exc G} {l : List Nat} {g g' : G}
    (hstep : ∀ g1 x g2, x ∈ l → ForestInv g1 → Stable g g1 → f g1 x = .ok g2 → ForestInv g2 ∧ Stable g1 g2)
    (h : ForestInv g) (hs : foldE f l g = .ok g') : ForestInv g' ∧ Stable g g' :=
  foldE_inv (fun g' => ForestInv g' ∧ Stable g g') l
    (fun g1 x g2 hx h1 h2 =>
      have := hstep g1 x g2 hx h1.1 h1.2 h2
      ⟨this.1, h1.2.trans this.2⟩) g g' ⟨h, Stable.refl g⟩ hs

theorem ForestInv.of_alloc {g : G} (h : ForestInv g) (k : Kind) (u : Nat) : ForestInv (Gtirb.Forest.alloc g k u).1 := by
  refine ⟨?_, ?_, ?_, ?_⟩
  · intro c p s
    simp only [alloc_kids, alloc_par, alloc_kind]
    by_cases hp : p = g.n
    · subst hp
      simp only [if_true, List.not_mem_nil, false_iff]
      intro hh
      split at hh
      · cases hh.1
      · exact absurd (h.alloc c _ hh.1).2 (Nat.lt_irrefl _)
    · simp only [hp, if_false]
      by_cases hc : c = g.n
      · subst hc
        simp only [if_true]
        constructor
        · intro hm
          exact absurd (h.alloc _ p ((h.mem_iff _ p s).1 hm).1).1 (Nat.lt_irrefl _)
        · intro hh; cases hh.1
      · simp only [hc, if_false]
        exact h.mem_iff c p s
  · intro p s
    simp only [alloc_kids]
    split
    · exact List.nodup_nil
    · exact h.nodup p s
  · intro c p
    simp only [alloc_par, alloc_kind]
    split
    · intro hh; cases hh
    · intro hh
      have := h.alloc c p hh
      rw [if_neg (Nat.ne_of_lt this.2)]
      exact h.kind_ok c p hh
  · intro c p
    simp only [alloc_par, alloc_n]
    split
    · intro hh; cases hh
    · intro hh
      have := h.alloc c p hh
      exact ⟨Nat.lt_succ_of_lt this.1, Nat.lt_succ_of_lt this.2⟩

theorem forestInv_withAttrs {g : G} (nm : Nat → Nat) (pl : Nat → Payload) :
    ForestInv { g with name := nm, payload := pl } ↔ ForestInv g :=
  ⟨fun h => ⟨h.mem_iff, h.nodup, h.kind_ok, h.alloc⟩, fun h => ⟨h.mem_iff, h.nodup, h.kind_ok, h.alloc⟩⟩

theorem ForestInv.mkIR {g : G} (h : ForestInv g) (u : Nat) : ForestInv (mkIR g u) :=
  forestInv_of_core_eq (mkIR_core g u) (((forestInv_core g).2 h).of_alloc .ir u)

theorem ForestInv.setName {g : G} (h : ForestInv g) (v nm : Nat) : ForestInv (setName g v nm) :=
  forestInv_of_core_eq (setName_core g v nm) ⟨h.mem_iff, h.nodup, h.kind_ok, h.alloc⟩

theorem ForestInv.setPayload {g : G} (h : ForestInv g) (v : Nat) (pl : Payload) : ForestInv (setPayload g v pl) :=
  forestInv_of_core_eq (setPayload_core g v pl) ⟨h.mem_iff, h.nodup, h.kind_ok, h.alloc⟩

/-- the set-wrapper and list-wrapper operations (everything except the constructors) -/
theorem ForestInv.step_noalloc {g g' : G} {op : Op} (h : ForestInv g) (hop : OpOK g op)
    (hs : step g op = .ok g')
    (hna : match op with | .mkIR _ => False | .mk _ _ _ _ => False | .mkSym _ _ _ _ => False | _ => True) :
    ForestInv g' := by
  cases op with
  | mkIR u => cases hna
  | mk k u kids parent => cases hna
  | mkSym u nm pl parent => cases hna
  | setParent c p => exact h.setParent hop hs
  | add p s v => exact h.nodeSetAdd hop.2 hs
  | discard p s v => exact h.setDiscard hs
  | remove p s v =>
    simp only [step] at hs
    split at hs
    · exact h.setDiscard hs
    · cases hs
  | pop p s v =>
    simp only [step] at hs
    split at hs
    · cases hs
    · split at hs
      · exact h.setDiscard hs
      · cases hs
  | clear p s order =>
    simp only [step] at hs
    split at hs
    · exact (foldE_forestInv (fun g1 x g2 _ h1 _ h2 => ⟨h1.setDiscard h2, setDiscard_stable h2⟩) h hs).1
    · cases hs
  | update p s vs =>
    simp only [step] at hs
    obtain ⟨_, hp, hvs⟩ := hop
    split at hs
    · rename_i hb; subst hb; exact h.blkUpdate hvs hs
    · exact (foldE_forestInv (fun g1 x g2 hx h1 hst h2 =>
        ⟨h1.setAdd ((childOK_stable hst p s x).2 (hvs x hx)) h2, setAdd_stable h2⟩) h hs).1
  | isub p s vs =>
    simp only [step] at hs
    exact (foldE_forestInv (fun g1 x g2 _ h1 _ h2 => ⟨h1.setDiscard h2, setDiscard_stable h2⟩) h hs).1
  | iand p s vs order =>
    simp only [step] at hs
    split at hs
    · exact (foldE_forestInv (fun g1 x g2 _ h1 _ h2 => ⟨h1.setDiscard h2, setDiscard_stable h2⟩) h hs).1
    · cases hs
  | ixor p s vs =>
    simp only [step] at hs
    obtain ⟨_, hp, hvs⟩ := hop
    refine (foldE_forestInv (fun g1 x g2 hx h1 hst h2 => ?_) h hs).1
    split at h2
    · exact ⟨h1.setDiscard h2, setDiscard_stable h2⟩
    · exact ⟨h1.nodeSetAdd ((childOK_stable hst p s x).2 (hvs x hx)) h2, nodeSetAdd_stable h2⟩
  | insert i k v => exact h.modInsert hop hs
  | append i v => exact h.modAppend hop hs
  | extend i vs =>
    simp only [step] at hs
    obtain ⟨_, _, hvs⟩ := hop
    exact (foldE_forestInv (fun g1 x g2 hx h1 hst h2 =>
        ⟨h1.modAppend ((childOK_stable hst i .mods x).2 (hvs x hx)) h2, modAppend_stable h2⟩) h hs).1
  | delItem i k => exact h.modDelItem hs
  | setItem i k v => exact h.modSetItem hop hs
  | listRemove i v => exact h.modListRemove hs
  | listPop i k =>
    simp only [step] at hs
    split at hs
    · cases hs
    · exact h.modDelItem hs
  | reverse i =>
    simp only [step] at hs
    cases hs
    exact h.modReverse i
  | listClear i => exact h.modClear hs
  | setName v nm =>
    simp only [step] at hs
    cases hs
    exact h.setName v nm
  | setPayload v pl =>
    simp only [step] at hs
    cases hs
    exact h.setPayload v pl

theorem forestInv_step_mkSym {g g' : G} {u nm : Nat} {pl : Payload} {parent : Option Nat} (h : ForestInv g)
    (hop : OpOK g (.mkSym u nm pl parent)) (hs : step g (.mkSym u nm pl parent) = .ok g') : ForestInv g' := by
  simp only [step, Gtirb.Forest.alloc] at hs
  have h2 := (forestInv_withAttrs (g := (Gtirb.Forest.alloc g .symbol u).1)
    (fun x => if x = g.n then nm else g.name x) (fun x => if x = g.n then pl else g.payload x)).2 (h.of_alloc .symbol u)
  split at hs
  · rename_i p
    refine ForestInv.setParent h2 ?_ hs
    obtain ⟨_, hp⟩ := hop
    have := hp p rfl
    refine ⟨Nat.lt_succ_self _, by simp, ?_⟩
    intro q hq
    cases hq
    refine ⟨Nat.lt_succ_of_lt this.1, ?_⟩
    simp [Nat.ne_of_lt this.1, this.2, parentKind]
  · cases hs
    exact h2

/-- the constructor of a non-IR node: the result is consistent and every child argument points to the new node -/
theorem step_mk_spec {g g' : G} {k : Kind} {u : Nat} {kids : List (Slot × List Nat)} {parent : Option Nat}
    (h : ForestInv g) (hop : OpOK g (.mk k u kids parent)) (hs : step g (.mk k u kids parent) = .ok g') :
    ForestInv g' ∧ ∀ sv ∈ kids, ∀ x ∈ sv.2, g'.par x = some g.n := by
  obtain ⟨hk1, hk2, hkids, hpar⟩ := hop
  simp only [step] at hs
  rw [if_neg (by simp [hk1, hk2])] at hs
  have hg1 := h.of_alloc k u
  generalize hgen : Gtirb.Forest.alloc g k u = a at hs
  have ha1 : a.1 = (Gtirb.Forest.alloc g k u).1 := by rw [hgen]
  have ha2 : a.2 = g.n := by rw [← hgen]; rfl
  obtain ⟨g1, v⟩ := a
  simp only at ha1 ha2 hs
  subst ha1 ha2
  obtain ⟨g2, hfold, hs'⟩ := bindE_ok hs
  have hI : ∃ done : List (Slot × List Nat), (∀ a, a ∈ kids ∨ a ∈ [] → a ∈ done) ∧
      (ForestInv g2 ∧ Stable (Gtirb.Forest.alloc g k u).1 g2 ∧ ∀ sv ∈ done, ∀ x ∈ sv.2, g2.par x = some g.n) := by
    refine foldl_bindE_inv_done
      (fun (done : List (Slot × List Nat)) g' => ForestInv g' ∧ Stable (Gtirb.Forest.alloc g k u).1 g' ∧
        ∀ sv ∈ done, ∀ x ∈ sv.2, g'.par x = some g.n)
      (fun g0 (x : Slot × List Nat) => if x.1 = .blocks then blkUpdate g0 g.n x.2
             else foldE (fun g0 y => setAdd g0 g.n x.1 y) x.2 g0) kids ?_ [] _ g2 ?_ hfold
    · intro done sv hsv ga gb hga hbody
      have hch : ∀ y ∈ sv.2, ChildOK ga g.n sv.1 y := by
        intro y hy
        have := hkids sv hsv y hy
        rw [childOK_stable hga.2.1]
        refine ⟨Nat.lt_succ_self _, Nat.lt_succ_of_lt this.1, ?_, ?_⟩
        · simp [Nat.ne_of_lt this.1, this.2.1]
        · simp [Nat.ne_of_lt this.1, this.2.2]
      split at hbody
      · rename_i hb
        rw [hb] at hch
        refine ⟨hga.1.blkUpdate hch hbody, hga.2.1.trans (blkUpdate_stable hbody), ?_⟩
        intro sv' hsv' x hx
        rw [blkUpdate_par hbody]
        split
        · rfl
        · rename_i hn
          rcases List.mem_cons.1 hsv' with rfl | hsv'
          · rw [mem_blkNew] at hn
            have : x ∈ ga.kids g.n .blocks := by
              apply Classical.byContradiction
              intro hh
              exact hn ⟨hx, hh⟩
            exact ((hga.1.mem_iff x g.n .blocks).1 this).1
          · exact hga.2.2 sv' hsv' x hx
      · have := foldE_forestInv (g := ga) (fun g1 x g2 hx h1 hst h2 =>
          ⟨h1.setAdd ((childOK_stable hst g.n sv.1 x).2 (hch x hx)) h2, setAdd_stable h2⟩) hga.1 hbody
        refine ⟨this.1, hga.2.1.trans this.2, ?_⟩
        intro sv' hsv' x hx
        rw [foldE_setAdd_par _ hbody]
        split
        · rfl
        · rename_i hn
          rcases List.mem_cons.1 hsv' with rfl | hsv'
          · exact absurd hx hn
          · exact hga.2.2 sv' hsv' x hx
    · intro g0 hg0
      cases hg0
      exact ⟨hg1, Stable.refl _, fun _ h => absurd h List.not_mem_nil⟩
  obtain ⟨done, hdone, hI1, hI2, hI3⟩ := hI
  have hpars : ∀ sv ∈ kids, ∀ x ∈ sv.2, g2.par x = some g.n :=
    fun sv hsv x hx => hI3 sv (hdone sv (Or.inl hsv)) x hx
  split at hs'
  · rename_i p
    constructor
    · refine hI1.setParent ?_ hs'
      have := hpar p rfl
      show g.n < g2.n ∧ g2.kind g.n ≠ .ir ∧ ∀ q, some p = some q → q < g2.n ∧ parentKind (g2.kind g.n) = some (g2.kind q)
      rw [hI2.n, hI2.kind]
      refine ⟨Nat.lt_succ_self _, ?_, ?_⟩
      · simp [hk1]
      · intro q hq
        cases hq
        refine ⟨Nat.lt_succ_of_lt this.1, ?_⟩
        simp [Nat.ne_of_lt this.1, this.2]
    · intro sv hsv x hx
      rw [setParent_par_ne hs' (Nat.ne_of_lt (hkids sv hsv x hx).1)]
      exact hpars sv hsv x hx
  · cases hs'
    exact ⟨hI1, hpars⟩

theorem forestInv_step_mk {g g' : G} {k : Kind} {u : Nat} {kids : List (Slot × List Nat)} {parent : Option Nat}
    (h : ForestInv g) (hop : OpOK g (.mk k u kids parent)) (hs : step g (.mk k u kids parent) = .ok g') :
    ForestInv g' := (step_mk_spec h hop hs).1

theorem forestInv_step {g g' : G} {op : Op} (h : ForestInv g) (hop : OpOK g op)
    (hs : step g op = .ok g') : ForestInv g' := by
  cases op with
  | mkIR u => simp only [Gtirb.Forest.step] at hs; cases hs; exact h.mkIR u
  | mk k u kids parent => exact forestInv_step_mk h hop hs
  | mkSym u nm pl parent => exact forestInv_step_mkSym h hop hs
  | _ => exact h.step_noalloc hop hs trivial

/-! ### where the moved node points afterwards -/

theorem nodeSetAdd_par_self {g g' : G} {p : Nat} {s : Slot} {v : Nat} (h : ForestInv g) (hc : ChildOK g p s v)
    (hs : nodeSetAdd g p s v = .ok g') : g'.par v = some p := by
  unfold nodeSetAdd at hs
  split at hs
  · rename_i hb
    subst hb
    rw [blkUpdate_par hs]
    split
    · rfl
    · rename_i hn
      rw [mem_blkNew] at hn
      have : v ∈ g.kids p .blocks := by
        apply Classical.byContradiction
        intro hh
        exact hn ⟨List.mem_singleton.2 rfl, hh⟩
      exact ((h.mem_iff v p .blocks).1 this).1
  · rw [setAdd_par hs]; simp

theorem setParent_par_self {g g' : G} {c p : Nat} (h : ForestInv g) (hop : OpOK g (.setParent c (some p)))
    (hs : setParent g c (some p) = .ok g') : g'.par c = some p := by
  obtain ⟨hc, _, hp⟩ := hop
  unfold setParent at hs
  split at hs
  · cases hs
  · rename_i s hslot
    split at hs
    · cases hs
    · rename_i g1 h1
      have e1 : ForestInv g1 ∧ Stable g g1 := by
        split at h1
        · split at h1
          · exact ⟨h.modListRemove h1, modListRemove_stable h1⟩
          · exact ⟨h.setDiscard h1, setDiscard_stable h1⟩
        · cases h1; exact ⟨h, Stable.refl _⟩
      have hc1 : ChildOK g1 p s c :=
        (childOK_stable e1.2 p s c).2 ⟨(hp p rfl).1, hc, hslot, (hp p rfl).2⟩
      dsimp only at hs
      split at hs
      · rw [modAppend_par hs]; simp
      · exact nodeSetAdd_par_self e1.1 hc1 hs

theorem setParent_none_par_self {g g' : G} {c : Nat} (h : ForestInv g) (hs : setParent g c none = .ok g') :
    g'.par c = none := by
  unfold setParent at hs
  split at hs
  · cases hs
  · rename_i s hslot
    split at hs
    · cases hs
    · rename_i g1 h1
      dsimp only at hs
      cases hs
      split at h1
      · rename_i q hq
        split at h1
        · rw [modListRemove_par h1]; simp
        · rw [setDiscard_par h1]
          simp [h.mem_of_par hq hslot]
      · rename_i hq
        cases h1
        exact hq

end Gtirb.Forest
