import GtirbModel.PbWire
/-! Layer-1 facts about the protobuf wire model (`GtirbModel/PbWire.lean`). -/
namespace Gtirb.Pb
open Gtirb

theorem encVarint_lt (n : Nat) (h : n < 128) : encVarint n = [UInt8.ofNat n] := by
  rw [encVarint]; simp [h]

theorem encVarint_ge (n : Nat) (h : ¬ n < 128) :
    encVarint n = UInt8.ofNat (n % 128 + 128) :: encVarint (n / 128) := by
  rw [encVarint]; simp [h]

theorem toNat_ofNat_lt (n : Nat) (h : n < 256) : (UInt8.ofNat n).toNat = n := by
  simp [UInt8.toNat_ofNat']; omega

theorem decVarintAux_encVarint (k : Nat) : ∀ (n : Nat), n < 128 ^ (k + 1) → ∀ rest : Bytes,
    decVarintAux (k + 1) (encVarint n ++ rest) = some (n, rest) := by
  induction k with
  | zero =>
    intro n h rest
    have h' : n < 128 := by simpa using h
    rw [encVarint_lt n h']
    simp [decVarintAux, toNat_ofNat_lt n (by omega), h']
  | succ k ih =>
    intro n h rest
    by_cases h' : n < 128
    · rw [encVarint_lt n h']
      simp [decVarintAux, toNat_ofNat_lt n (by omega), h']
    · rw [encVarint_ge n h']
      have hlt : n / 128 < 128 ^ (k + 1) := by
        rw [Nat.div_lt_iff_lt_mul (by omega)]; rw [Nat.pow_succ] at h; exact h
      have hb : (UInt8.ofNat (n % 128 + 128)).toNat = n % 128 + 128 :=
        toNat_ofNat_lt _ (by omega)
      simp only [List.cons_append]
      rw [decVarintAux]
      simp only [hb, ih (n / 128) hlt rest]
      have : ¬ (n % 128 + 128 < 128) := by omega
      simp only [this, if_false]
      congr 2
      omega

/-- a varint reads back, whatever follows it -/
theorem decVarint_encVarint (n : Nat) (h : n < 2 ^ 64) (rest : Bytes) :
    decVarint (encVarint n ++ rest) = some (n, rest) := by
  have h10 : n < 128 ^ (9 + 1) := by
    have : (2:Nat) ^ 64 ≤ 128 ^ (9 + 1) := by decide
    omega
  unfold decVarint
  rw [decVarintAux_encVarint 9 n h10 rest]
  simp only
  rw [Nat.mod_eq_of_lt h]

theorem encVarint_ne_nil (n : Nat) : encVarint n ≠ [] := by
  by_cases h : n < 128
  · rw [encVarint_lt n h]; simp
  · rw [encVarint_ge n h]; simp

/-- every field is at least one byte long -/
theorem encField_ne_nil (f : Nat × WVal) : encField f ≠ [] := by
  unfold encField
  simp [encVarint_ne_nil]

/-- a well-formed field reads back, whatever follows it -/
theorem decField_encField (f : Nat × WVal) (h : fieldWf f = true) (rest : Bytes) :
    decField (encField f ++ rest) = some (f, rest) := by
  obtain ⟨fno, v⟩ := f
  simp only [fieldWf, Bool.and_eq_true, decide_eq_true_eq] at h
  obtain ⟨⟨h0, h29⟩, hv⟩ := h
  have hwt : wireType v < 8 := by cases v <;> simp [wireType]
  have htag : fno * 8 + wireType v < 2 ^ 64 := by omega
  have hdiv : (fno * 8 + wireType v) / 8 = fno := by omega
  have hmod : (fno * 8 + wireType v) % 8 = wireType v := by omega
  have hne : ¬ fno = 0 := by omega
  unfold decField encField
  simp only [List.append_assoc]
  rw [decVarint_encVarint _ htag]
  simp only [hdiv, hmod, hne, if_false]
  cases v with
  | varint n =>
    simp only [WVal.wf, decide_eq_true_eq] at hv
    simp only [wireType, encVal]
    rw [decVarint_encVarint _ hv]
  | i64 bs =>
    simp only [WVal.wf, beq_iff_eq] at hv
    simp only [wireType, encVal]
    have : ¬ (bs ++ rest).length < 8 := by simp [hv]
    simp only [this, if_false]
    rw [← hv, List.take_left, List.drop_left]
  | len bs =>
    simp only [WVal.wf, decide_eq_true_eq] at hv
    simp only [wireType, encVal, List.append_assoc]
    rw [decVarint_encVarint _ hv]
    have : ¬ (bs ++ rest).length < bs.length := by simp
    simp only [this, if_false]
    rw [List.take_left, List.drop_left]
  | i32 bs =>
    simp only [WVal.wf, beq_iff_eq] at hv
    simp only [wireType, encVal]
    have : ¬ (bs ++ rest).length < 4 := by simp [hv]
    simp only [this, if_false]
    rw [← hv, List.take_left, List.drop_left]

theorem decodeWAux_encodeW (m : WMsg) : ∀ (fuel : Nat), WMsg.wf m = true → (encodeW m).length ≤ fuel →
    decodeWAux fuel (encodeW m) = some m := by
  induction m with
  | nil => intro fuel _ _; simp [encodeW, decodeWAux]
  | cons f m ih =>
    intro fuel hwf hfuel
    have hf : fieldWf f = true := by
      simp only [WMsg.wf, List.all_cons, Bool.and_eq_true] at hwf; exact hwf.1
    have hm : WMsg.wf m = true := by
      simp only [WMsg.wf, List.all_cons, Bool.and_eq_true] at hwf; exact hwf.2
    have henc : encodeW (f :: m) = encField f ++ encodeW m := by
      simp [encodeW]
    rw [henc] at hfuel ⊢
    have hne := encField_ne_nil f
    cases hef : encField f with
    | nil => exact absurd hef hne
    | cons b bs =>
      rw [hef] at hfuel
      simp only [List.cons_append, List.length_cons, List.length_append] at hfuel
      cases fuel with
      | zero => omega
      | succ fuel =>
        simp only [List.cons_append]
        rw [decodeWAux]
        rw [← List.cons_append, ← hef, decField_encField f hf]
        simp only
        rw [ih fuel hm (by omega)]

/-- the wire round trip: what the serializer writes, the parser reads back -/
theorem decodeW_encodeW (m : WMsg) (h : m.wf = true) : decodeW (encodeW m) = some m := by
  unfold decodeW
  exact decodeWAux_encodeW m _ h (Nat.le_refl _)

/-- the encoding is injective on well-formed messages -/
theorem encodeW_injective (a b : WMsg) (ha : a.wf = true) (hb : b.wf = true)
    (h : encodeW a = encodeW b) : a = b := by
  have h1 := decodeW_encodeW a ha
  have h2 := decodeW_encodeW b hb
  rw [h] at h1
  rw [h1] at h2
  exact Option.some.inj h2

theorem ofInt64_lt (i : Int) : ofInt64 i < 2 ^ 64 := by
  unfold ofInt64
  have h1 : 0 ≤ i % (2 ^ 64 : Int) := Int.emod_nonneg _ (by decide)
  have h2 : i % (2 ^ 64 : Int) < (2 ^ 64 : Int) := Int.emod_lt_of_pos _ (by decide)
  omega

theorem toInt64_ofInt64 (i : Int) (h : -(2 ^ 63 : Int) ≤ i ∧ i < (2 ^ 63 : Int)) :
    toInt64 (ofInt64 i) = i := by
  unfold toInt64 ofInt64
  split <;> omega

theorem ofInt64_toInt64 (n : Nat) (h : n < 2 ^ 64) : ofInt64 (toInt64 n) = n := by
  unfold toInt64 ofInt64
  split <;> omega


/-! ### further facts -/

theorem encVarint_length_le_pow (k : Nat) : ∀ n : Nat, n < 128 ^ (k + 1) →
    (encVarint n).length ≤ k + 1 := by
  induction k with
  | zero =>
    intro n h
    have h' : n < 128 := by simpa using h
    rw [encVarint_lt n h']; simp
  | succ k ih =>
    intro n h
    by_cases h' : n < 128
    · rw [encVarint_lt n h']; simp
    · rw [encVarint_ge n h']
      have hlt : n / 128 < 128 ^ (k + 1) := by
        rw [Nat.div_lt_iff_lt_mul (by omega)]; rw [Nat.pow_succ] at h; exact h
      have := ih _ hlt
      simp only [List.length_cons]; omega

/-- a 64-bit varint is at most ten bytes -/
theorem encVarint_length_le (n : Nat) (h : n < 2 ^ 64) : (encVarint n).length ≤ 10 := by
  have h10 : n < 128 ^ (9 + 1) := by
    have : (2:Nat) ^ 64 ≤ 128 ^ (9 + 1) := by decide
    omega
  exact encVarint_length_le_pow 9 n h10

/-- canonical form: continuation bit set on every byte but the last -/
theorem encVarint_minimal (n : Nat) :
    ∃ init last, encVarint n = init ++ [last] ∧ last.toNat < 128 ∧
      ∀ b ∈ init, 128 ≤ b.toNat := by
  induction n using Nat.strongRecOn with
  | _ n ih =>
    by_cases h' : n < 128
    · refine ⟨[], UInt8.ofNat n, ?_, ?_, ?_⟩
      · rw [encVarint_lt n h']; rfl
      · rw [toNat_ofNat_lt n (by omega)]; exact h'
      · intro b hb; cases hb
    · obtain ⟨init, last, he, hl, hi⟩ := ih (n / 128) (by omega)
      refine ⟨UInt8.ofNat (n % 128 + 128) :: init, last, ?_, hl, ?_⟩
      · rw [encVarint_ge n h', he]; rfl
      · intro b hb
        rcases List.mem_cons.mp hb with rfl | hb
        · rw [toNat_ofNat_lt _ (by omega)]; omega
        · exact hi b hb

/-- the canonical form has no redundant trailing zero group: the last byte of a
multi-byte varint is non-zero -/
theorem encVarint_last_ne_zero (n : Nat) (h : 128 ≤ n) :
    ∃ init last, encVarint n = init ++ [last] ∧ 0 < last.toNat ∧ last.toNat < 128 := by
  induction n using Nat.strongRecOn with
  | _ n ih =>
    have h' : ¬ n < 128 := by omega
    by_cases h2 : n / 128 < 128
    · refine ⟨[UInt8.ofNat (n % 128 + 128)], UInt8.ofNat (n / 128), ?_, ?_, ?_⟩
      · rw [encVarint_ge n h', encVarint_lt _ h2]; rfl
      · rw [toNat_ofNat_lt _ (by omega)]; omega
      · rw [toNat_ofNat_lt _ (by omega)]; omega
    · obtain ⟨init, last, he, hl⟩ := ih (n / 128) (by omega) (by omega)
      refine ⟨UInt8.ofNat (n % 128 + 128) :: init, last, ?_, hl⟩
      rw [encVarint_ge n h', he]; rfl

theorem decVarintAux_append (k : Nat) : ∀ (a b : Bytes) (n : Nat) (r : Bytes),
    decVarintAux k a = some (n, r) → decVarintAux k (a ++ b) = some (n, r ++ b) := by
  induction k with
  | zero => intro a b n r h; simp [decVarintAux] at h
  | succ k ih =>
    intro a b n r h
    cases a with
    | nil => simp [decVarintAux] at h
    | cons c cs =>
      simp only [List.cons_append]
      rw [decVarintAux] at h ⊢
      by_cases hc : c.toNat < 128
      · simp only [hc, if_true] at h ⊢
        cases h; rfl
      · simp only [hc, if_false] at h ⊢
        cases hd : decVarintAux k cs with
        | none => rw [hd] at h; cases h
        | some p =>
          obtain ⟨hi, r'⟩ := p
          rw [hd] at h
          rw [ih cs b hi r' hd]
          simp only at h ⊢
          cases h; rfl

theorem decVarint_append (a b : Bytes) (n : Nat) (r : Bytes)
    (h : decVarint a = some (n, r)) : decVarint (a ++ b) = some (n, r ++ b) := by
  unfold decVarint at h ⊢
  cases hd : decVarintAux 10 a with
  | none => rw [hd] at h; cases h
  | some p =>
    obtain ⟨m, r'⟩ := p
    rw [hd] at h
    rw [decVarintAux_append 10 a b m r' hd]
    simp only at h ⊢
    cases h; rfl

theorem decField_append (a b : Bytes) (f : Nat × WVal) (r : Bytes)
    (h : decField a = some (f, r)) : decField (a ++ b) = some (f, r ++ b) := by
  unfold decField at h ⊢
  cases hd : decVarint a with
  | none => rw [hd] at h; cases h
  | some p =>
    obtain ⟨tag, rest⟩ := p
    rw [hd] at h
    rw [decVarint_append a b tag rest hd]
    simp only at h ⊢
    by_cases h0 : tag / 8 = 0
    · simp [h0] at h
    · simp only [h0, if_false] at h ⊢
      split at h
      · -- varint
        rename_i hm
        cases hv : decVarint rest with
        | none => rw [hv] at h; cases h
        | some q =>
          obtain ⟨n, rest'⟩ := q
          rw [hv] at h
          rw [decVarint_append rest b n rest' hv]
          simp only at h ⊢
          cases h; rfl
      · rename_i hm
        by_cases hl : rest.length < 8
        · simp [hl] at h
        · simp only [hl, if_false] at h
          have hl' : ¬ (rest ++ b).length < 8 := by simp; omega
          simp only [hl', if_false]
          cases h
          rw [List.take_append_of_le_length (by omega), List.drop_append_of_le_length (by omega)]
      · rename_i hm
        cases hv : decVarint rest with
        | none => rw [hv] at h; cases h
        | some q =>
          obtain ⟨n, rest'⟩ := q
          rw [hv] at h
          rw [decVarint_append rest b n rest' hv]
          simp only at h ⊢
          by_cases hl : rest'.length < n
          · simp [hl] at h
          · simp only [hl, if_false] at h
            have hl' : ¬ (rest' ++ b).length < n := by simp; omega
            simp only [hl', if_false]
            cases h
            rw [List.take_append_of_le_length (by omega),
              List.drop_append_of_le_length (by omega)]
      · rename_i hm
        by_cases hl : rest.length < 4
        · simp [hl] at h
        · simp only [hl, if_false] at h
          have hl' : ¬ (rest ++ b).length < 4 := by simp; omega
          simp only [hl', if_false]
          cases h
          rw [List.take_append_of_le_length (by omega), List.drop_append_of_le_length (by omega)]
      · cases h

/-- more fuel never changes a successful parse -/
theorem decodeWAux_fuel_mono (fuel : Nat) : ∀ (bs : Bytes) (m : WMsg) (fuel' : Nat),
    decodeWAux fuel bs = some m → fuel ≤ fuel' → decodeWAux fuel' bs = some m := by
  induction fuel with
  | zero =>
    intro bs m fuel' h _
    cases bs with
    | nil => simp only [decodeWAux] at h ⊢; exact h
    | cons c cs => simp [decodeWAux] at h
  | succ fuel ih =>
    intro bs m fuel' h hle
    cases bs with
    | nil => simp only [decodeWAux] at h ⊢; exact h
    | cons c cs =>
      obtain ⟨fuel'', rfl⟩ : ∃ k, fuel' = k + 1 := ⟨fuel' - 1, by omega⟩
      rw [decodeWAux] at h ⊢
      cases hd : decField (c :: cs) with
      | none => rw [hd] at h; cases h
      | some p =>
        obtain ⟨f, rest⟩ := p
        rw [hd] at h
        simp only at h ⊢
        cases hr : decodeWAux fuel rest with
        | none => rw [hr] at h; cases h
        | some fs =>
          rw [hr] at h
          rw [ih rest fs fuel'' hr (by omega)]
          exact h

theorem decodeWAux_append (fuel : Nat) : ∀ (a b : Bytes) (x y : WMsg) (fuel' : Nat),
    decodeWAux fuel a = some x → decodeWAux fuel' b = some y →
    decodeWAux (fuel + fuel') (a ++ b) = some (x ++ y) := by
  induction fuel with
  | zero =>
    intro a b x y fuel' ha hb
    cases a with
    | nil =>
      simp only [decodeWAux] at ha; cases ha
      simpa using hb
    | cons c cs => simp [decodeWAux] at ha
  | succ fuel ih =>
    intro a b x y fuel' ha hb
    cases a with
    | nil =>
      simp only [decodeWAux] at ha; cases ha
      simp only [List.nil_append]
      exact decodeWAux_fuel_mono fuel' b y _ hb (by omega)
    | cons c cs =>
      have hfu : fuel + 1 + fuel' = (fuel + fuel') + 1 := by omega
      rw [hfu]
      simp only [List.cons_append]
      rw [decodeWAux] at ha ⊢
      cases hd : decField (c :: cs) with
      | none => rw [hd] at ha; cases ha
      | some p =>
        obtain ⟨f, rest⟩ := p
        rw [hd] at ha
        have := decField_append (c :: cs) b f rest hd
        simp only [List.cons_append] at this
        rw [this]
        simp only at ha ⊢
        cases hr : decodeWAux fuel rest with
        | none => rw [hr] at ha; cases ha
        | some fs =>
          rw [hr] at ha
          rw [ih rest b fs y fuel' hr hb]
          simp only at ha ⊢
          cases ha; rfl

/-- protobuf's merge-by-concatenation: the fields of a concatenation are the
concatenation of the fields -/
theorem decodeW_append (a b : Bytes) (x y : WMsg)
    (ha : decodeW a = some x) (hb : decodeW b = some y) :
    decodeW (a ++ b) = some (x ++ y) := by
  unfold decodeW at ha hb ⊢
  rw [List.length_append]
  exact decodeWAux_append _ a b x y _ ha hb


/-! ### the fuel of `decodeWAux` is enough -/

theorem decVarintAux_length_lt (k : Nat) : ∀ (bs : Bytes) (n : Nat) (r : Bytes),
    decVarintAux k bs = some (n, r) → r.length < bs.length := by
  induction k with
  | zero => intro bs n r h; simp [decVarintAux] at h
  | succ k ih =>
    intro bs n r h
    cases bs with
    | nil => simp [decVarintAux] at h
    | cons c cs =>
      rw [decVarintAux] at h
      by_cases hc : c.toNat < 128
      · simp only [hc, if_true] at h
        cases h; simp
      · simp only [hc, if_false] at h
        cases hd : decVarintAux k cs with
        | none => rw [hd] at h; cases h
        | some p =>
          obtain ⟨hi, r'⟩ := p
          rw [hd] at h
          simp only at h
          cases h
          have := ih cs hi r hd
          simp only [List.length_cons]; omega

theorem decVarint_length_lt (bs : Bytes) (n : Nat) (r : Bytes)
    (h : decVarint bs = some (n, r)) : r.length < bs.length := by
  unfold decVarint at h
  cases hd : decVarintAux 10 bs with
  | none => rw [hd] at h; cases h
  | some p =>
    obtain ⟨m, r'⟩ := p
    rw [hd] at h
    simp only at h
    cases h
    exact decVarintAux_length_lt 10 bs m r hd

/-- every field consumes at least one byte -/
theorem decField_length_lt (bs : Bytes) (f : Nat × WVal) (r : Bytes)
    (h : decField bs = some (f, r)) : r.length < bs.length := by
  unfold decField at h
  cases hd : decVarint bs with
  | none => rw [hd] at h; cases h
  | some p =>
    obtain ⟨tag, rest⟩ := p
    rw [hd] at h
    have h1 := decVarint_length_lt bs tag rest hd
    simp only at h
    by_cases h0 : tag / 8 = 0
    · simp [h0] at h
    · simp only [h0, if_false] at h
      split at h
      · cases hv : decVarint rest with
        | none => rw [hv] at h; cases h
        | some q =>
          obtain ⟨n, rest'⟩ := q
          rw [hv] at h
          have h2 := decVarint_length_lt rest n rest' hv
          simp only at h
          cases h; omega
      · by_cases hl : rest.length < 8
        · simp [hl] at h
        · simp only [hl, if_false] at h
          cases h; simp only [List.length_drop]; omega
      · cases hv : decVarint rest with
        | none => rw [hv] at h; cases h
        | some q =>
          obtain ⟨n, rest'⟩ := q
          rw [hv] at h
          have h2 := decVarint_length_lt rest n rest' hv
          simp only at h
          by_cases hl : rest'.length < n
          · simp [hl] at h
          · simp only [hl, if_false] at h
            cases h; simp only [List.length_drop]; omega
      · by_cases hl : rest.length < 4
        · simp [hl] at h
        · simp only [hl, if_false] at h
          cases h; simp only [List.length_drop]; omega
      · cases h

theorem decodeWAux_fuel_irrel (fuel₁ : Nat) : ∀ (fuel₂ : Nat) (bs : Bytes),
    bs.length ≤ fuel₁ → bs.length ≤ fuel₂ → decodeWAux fuel₁ bs = decodeWAux fuel₂ bs := by
  induction fuel₁ with
  | zero =>
    intro fuel₂ bs h1 _
    have : bs = [] := List.eq_nil_of_length_eq_zero (by omega)
    subst this; simp [decodeWAux]
  | succ fuel₁ ih =>
    intro fuel₂ bs h1 h2
    cases bs with
    | nil => simp [decodeWAux]
    | cons c cs =>
      simp only [List.length_cons] at h1 h2
      obtain ⟨k, rfl⟩ : ∃ k, fuel₂ = k + 1 := ⟨fuel₂ - 1, by omega⟩
      rw [decodeWAux, decodeWAux]
      cases hd : decField (c :: cs) with
      | none => rfl
      | some p =>
        obtain ⟨f, rest⟩ := p
        have hl := decField_length_lt (c :: cs) f rest hd
        simp only [List.length_cons] at hl
        simp only
        rw [ih k rest (by omega) (by omega)]

/-- `bs.length` fuel suffices: `decodeW` never fails for lack of fuel -/
theorem decodeWAux_fuel_enough (fuel : Nat) (bs : Bytes) (h : bs.length ≤ fuel) :
    decodeWAux fuel bs = decodeW bs :=
  decodeWAux_fuel_irrel fuel bs.length bs h (Nat.le_refl _)

/-- the parser's recursion, without fuel -/
theorem decodeW_cons (b : UInt8) (bs : Bytes) :
    decodeW (b :: bs) =
      match decField (b :: bs) with
      | none => none
      | some (f, rest) =>
        match decodeW rest with
        | some fs => some (f :: fs)
        | none => none := by
  unfold decodeW
  simp only [List.length_cons]
  rw [decodeWAux]
  cases hd : decField (b :: bs) with
  | none => rfl
  | some p =>
    obtain ⟨f, rest⟩ := p
    have hl := decField_length_lt (b :: bs) f rest hd
    simp only [List.length_cons] at hl
    simp only
    rw [decodeWAux_fuel_irrel bs.length rest.length rest (by omega) (Nat.le_refl _)]
    cases decodeWAux rest.length rest <;> rfl

end Gtirb.Pb
