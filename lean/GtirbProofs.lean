import GtirbProofs.Props.C15
import GtirbProofs.Props.C07
import GtirbProofs.Props.C08
import GtirbProofs.Tables
import GtirbProofs.Props.C11
import GtirbProofs.Props.C19
import GtirbProofs.Props.C14
