import GtirbProofs.Props.C15
