import GtirbModel
/-! Line-protocol driver. First line: `model <name>`; then one operation per
line, one observation per line out. -/
open Gtirb

partial def loopPure (h : IO.FS.Stream) (out : IO.FS.Stream) (f : String → String) : IO Unit := do
  let line ← h.getLine
  if line.isEmpty then return ()
  out.putStrLn (f (line.dropEndWhile (· == '\n')).toString)
  loopPure h out f

partial def loopState {σ : Type} (h : IO.FS.Stream) (out : IO.FS.Stream)
    (step : σ → String → σ × String) (s : σ) : IO Unit := do
  let line ← h.getLine
  if line.isEmpty then return ()
  let (s', o) := step s (line.dropEndWhile (· == '\n')).toString
  out.putStrLn o
  loopState h out step s'

def main : IO UInt32 := do
  let stdin ← IO.getStdin
  let stdout ← IO.getStdout
  let first ← stdin.getLine
  match fields (first.dropEndWhile (· == '\n')).toString with
  | ["model", "typename"] => loopPure stdin stdout TypeName.driverStep
  | ["model", "codec"] => loopState stdin stdout Codec.driverStep {}
  | ["model", "cfg"] => loopState stdin stdout Cfg.driverStep {}
  | ["model", "cfgkeyed"] => loopState stdin stdout Cfg.keyedDriverStep {}
  | ["model", "interval"] => loopState stdin stdout Interval.driverStep ⟨0, []⟩
  | ["model", "auxtable"] => loopState stdin stdout AuxTable.driverStep {}
  | ["model", "forest"] => loopState stdin stdout Forest.driverStep {}
  | ["model", "forestops"] => loopPure stdin stdout Forest.opsDriverStep
  | ["model", "index"] => loopState stdin stdout Index.driverStep {}
  | ["model", "symscopes"] => loopState stdin stdout SymExpr.scopesDriverStep {}
  | ["model", "msg"] => loopPure stdin stdout Msg.driverStep
  | ["model", "symexpr"] => loopState stdin stdout SymExpr.driverStep {}
  | ["model", "loader"] => loopPure stdin stdout Loader.driverStep
  | ["model", "loaderx"] => loopPure stdin stdout Loader.driverStepX
  | ["model", "pbwire"] => loopPure stdin stdout Pb.driverStep
  | _ => IO.eprintln s!"unknown model line: {first}"; return 2
  stdout.flush
  return 0
