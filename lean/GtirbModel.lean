import GtirbModel.Util
import GtirbModel.TypeName
import GtirbModel.Codec
import GtirbModel.CodecTyping
import GtirbModel.CodecDriver
