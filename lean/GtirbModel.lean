import GtirbModel.Util
import GtirbModel.TypeName
