import GtirbModel.Util
import GtirbModel.TypeName
import GtirbModel.Codec
import GtirbModel.CodecTyping
import GtirbModel.CodecDriver
import GtirbModel.Cfg
import GtirbModel.Expected
import GtirbModel.Interval
