"""Generate lean/GtirbModel/Generated/*.lean once (used by setup.sh)."""
import os, sys, tempfile, shutil
HERE = os.path.dirname(os.path.abspath(__file__))
sys.path.insert(0, HERE)
import build_pkg, core, gen_tables
tmp = tempfile.mkdtemp(prefix="verif-pkg-")
try:
    pkg, descs, order, parsed = build_pkg.build(tmp)
    sys.path.insert(0, tmp)
    ctx = core.Ctx("setup", "quick", 0, tmp)
    ctx.descs, ctx.proto_order, ctx.proto_parsed = descs, order, parsed
    print("generated:", gen_tables.generate(ctx))
finally:
    shutil.rmtree(tmp, ignore_errors=True)
