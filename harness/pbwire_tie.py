"""Tie of model W (lean/GtirbModel/PbWire.lean, PbMsg.lean: the protobuf wire
format and the serializer / parser of the GTIRB message) to the real protobuf
library (whichever back end the process runs under).

Per file body `raw` with the message `msg` the generated classes parsed from
it:
  reser  Lean parses `raw` and writes the result again; the real parser reads
         that back; its message must equal `msg` (canonical dumps compared);
  ser    Lean serializes the dump of `msg`; the real parser reads those bytes;
         its message must equal `msg`;
  wire   Lean's field list of `raw` (layer 1) must equal the real parser's
         view of the same bytes as unknown fields of `google.protobuf.Empty`.
A disagreement is a broken tie of the properties that use the byte-level
theorems (C01_roundtrip_bytes, C17_*_bytes): `correspondence:pbwire`.

For corrupted files (`strict=False`) the message-layer comparison is counted
but not binding (the model rejects groups, wrong wire types of known fields
and negative enum numbers, which protobuf keeps or skips; protobuf drops a map
entry with an ill-typed member); the layer-1 field list must still agree
whenever both sides accept the bytes."""
import core
import irdump


def _empty_view(raw):
    from google.protobuf import empty_pb2, unknown_fields
    e = empty_pb2.Empty.FromString(raw)
    out = []
    for f in unknown_fields.UnknownFieldSet(e):
        d = f.data
        if f.wire_type == 0:
            tok = "0:%d" % d
        elif f.wire_type == 1:
            tok = "1:" + int(d).to_bytes(8, "little").hex()
        elif f.wire_type == 2:
            tok = "2:" + (bytes(d).hex() or "-")
        elif f.wire_type == 5:
            tok = "5:" + int(d).to_bytes(4, "little").hex()
        else:
            return None         # a group: outside the model
        out.append("%d:%s" % (f.field_number, tok))
    return "ok " + " ".join([str(len(out))] + out)


class WireTie:
    def __init__(self, ctx, gtirb, flush_at=40):
        self.ctx, self.g = ctx, gtirb
        self.cases = []
        self.raws = []
        self.files = []
        self.flush_at = flush_at

    def add(self, tag, msg, raw, strict=True):
        """msg: the real parser's message for the body `raw`"""
        try:
            M = irdump.dump_mir(msg)
        except Exception:   # noqa  (values outside the dump's notation)
            self.ctx.count("pbwire:undumpable")
            return
        self.cases.append((tag, M, bytes(raw), strict))
        if len(self.cases) >= self.flush_at:
            self.flush()

    def add_faulty_file(self, tag, raw_file, expected):
        """a corrupted file: binding only on the header (the model must not
        reject the header of a file the real loader accepts); the other
        combinations are counted (the value-level reader leaves duplicated
        UUIDs out, protobuf is lenient on corrupt bodies)"""
        self.files.append((tag, "loadfile " + (bytes(raw_file).hex() or "-"),
                           expected, "faulty"))

    def add_file(self, tag, raw_file, expected):
        """end to end, the function the file-level theorems are about:
        `Msg.loadBytes parseMIR` on a whole file (header included) against
        what the real `IR.load_protobuf_file` gave for the same bytes
        (`expected`: "ok <dump of the loaded IR>" or an error class)"""
        self.files.append((tag, "loadfile " + (bytes(raw_file).hex() or "-"),
                           expected, None))

    def add_save(self, tag, V, load_dump):
        """`Msg.saveBytes serMIR v` for the dump `V` of a built IR: the real
        loader must accept those bytes and show the same content
        (`load_dump(bytes) -> dump tokens`)"""
        self.files.append((tag, "savefile " + " ".join(V), V, load_dump))

    def flush_files(self):
        if not self.files:
            return
        ctx = self.ctx
        # the real loader's dump is put into the same order-insensitive form
        # by the driver (`canonirv`): sets and dicts have no order to compare
        lines = []
        for _, l, exp, load_dump in self.files:
            lines.append(l)
            lines.append("canonirv " + exp[3:]
                         if load_dump in (None, "faulty")
                         and exp.startswith("ok ") else "canonirv -")
        both = core.lean_batch("pbwire", lines)
        out, canon = both[0::2], both[1::2]
        for (tag, line, exp, load_dump), got, cexp in zip(self.files, out,
                                                          canon):
            if load_dump in (None, "faulty") and exp.startswith("ok ") and \
                    cexp.startswith("ok "):
                exp = cexp
            if load_dump == "faulty":
                a, b = got.startswith("ok "), exp.startswith("ok ")
                if a and b and got != exp:
                    # protobuf's reading of a corrupted body (see the module
                    # docstring): counted
                    ctx.count("pbwire:faulty-file:accepted-with-other-content")
                elif got == "err:header" and b:
                    ctx.tie_broken.append(
                        "correspondence:pbwire %s loadfile: the model rejects "
                        "the header of a file the real loader accepts" % tag)
                else:
                    ctx.count("pbwire:faulty-file:%s/%s" % (
                        "accept" if a else got[:10], "accept" if b
                        else "reject"))
                    ctx.traces += 1
            elif load_dump is None:
                if got == exp or (got.startswith("err:")
                                  and exp.startswith("err:")):
                    ctx.count("pbwire:loadfile-agree:" + got[:3])
                    ctx.traces += 1
                elif got == "err:dup" or exp == "skip":
                    ctx.count("pbwire:loadfile-outside-model")
                else:
                    d = next((j for j, (x, y) in enumerate(zip(
                        got.split(" "), exp.split(" "))) if x != y), -1)
                    ctx.tie_broken.append(
                        "correspondence:pbwire %s loadfile: model %s..., real "
                        "loader %s... (token %d: %s vs %s)" % (
                            tag, got[:40], exp[:40], d,
                            " ".join(got.split(" ")[max(0, d - 4):d + 3]),
                            " ".join(exp.split(" ")[max(0, d - 4):d + 3])))
            else:
                parts = got.split(" ")
                if parts[0] != "ok":
                    ctx.count("pbwire:savefile-outside-notation")
                    continue
                if parts[2:4] != ["1", "1"]:
                    ctx.count("pbwire:savefile-outside-domain")
                    continue
                try:
                    back = load_dump(b"" if parts[1] == "-"
                                     else bytes.fromhex(parts[1]))
                except Exception as e:   # noqa
                    back = ["raised", type(e).__name__, str(e)[:60]]
                if back != exp:
                    ctx.tie_broken.append(
                        "correspondence:pbwire %s savefile: the real loader "
                        "reads the model's file as %s" % (tag, back[:6]))
                else:
                    ctx.count("pbwire:savefile-agree")
                    ctx.traces += 1
        self.files = []

    def add_raw(self, tag, raw):
        """a body the real parser may reject (truncations, corruptions):
        only layer 1 is compared - `decodeW` accepts exactly when the real
        parser accepts the bytes as a message without known fields, and with
        the same field list"""
        self.raws.append((tag, bytes(raw)))
        if len(self.raws) >= 4 * self.flush_at:
            self.flush_raw()

    def flush_raw(self):
        if not self.raws:
            return
        ctx = self.ctx
        out = core.lean_batch("pbwire", ["wire " + (r.hex() or "-")
                                         for _, r in self.raws])
        for (tag, raw), wire in zip(self.raws, out):
            try:
                view = _empty_view(raw)
            except Exception:   # noqa
                view = "reject"
            if view is None:
                ctx.count("pbwire:group")
                continue
            # where the two real back ends disagree with each other there is
            # no common ground to compare with: field number 0 (upb keeps it
            # as an unknown field, the pure-Python parser rejects) and field
            # numbers >= 2^29 (the reverse)
            fnos = [int(t.split(":")[0]) for t in
                    (wire.split(" ")[2:] if wire.startswith("ok ") else [])
                    + (view.split(" ")[2:] if view.startswith("ok ") else [])]
            if view != wire and (any(f == 0 or f >= 2 ** 29 for f in fnos)
                                 or b"\x00" in raw[:1] or wire == "reject"
                                 and view.startswith("ok ") and " 0:" in view):
                ctx.count("pbwire:wire-backends-disagree")
            elif view != wire:
                ctx.tie_broken.append(
                    "correspondence:pbwire %s wire: model %s, real parser %s"
                    % (tag, wire[:60], view[:60]))
            else:
                ctx.count("pbwire:raw-agree:" + ("reject" if wire == "reject"
                                                 else "accept"))
                ctx.traces += 1
        self.raws = []

    def _parse_dump(self, hx):
        from gtirb.proto import IR_pb2
        m = IR_pb2.IR.FromString(b"" if hx == "-" else bytes.fromhex(hx))
        return irdump.dump_mir(m)

    def flush(self):
        self.flush_raw()
        self.flush_files()
        if not self.cases:
            return
        ctx = self.ctx
        lines = []
        for tag, M, raw, strict in self.cases:
            h = raw.hex() or "-"
            lines += ["reser " + h, "ser " + " ".join(M), "wire " + h]
        out = core.lean_batch("pbwire", lines)
        for i, (tag, M, raw, strict) in enumerate(self.cases):
            reser, ser, wire = out[3 * i:3 * i + 3]
            bad = None
            # --- parser (and writer) against the real parser
            if reser.startswith("ok "):
                hx, wf = reser.split(" ")[1:3]
                try:
                    back = self._parse_dump(hx)
                except Exception as e:   # noqa
                    back = ["raised", type(e).__name__]
                if back != M and not strict:
                    # the real parser's leniencies on corrupted input (a map
                    # entry with an ill-typed member dropped as an unknown
                    # field, ...) are not modelled at the message layer; the
                    # C17 theorems about accepted files hold for EVERY parse
                    # function (C17_accepted_bytes_inv), so nothing rests on
                    # agreement here: counted, not binding
                    ctx.count("pbwire:corrupted-file-read-differently")
                elif back != M:
                    d = next((j for j, (x, y) in enumerate(zip(back, M))
                              if x != y), min(len(back), len(M)))
                    bad = "reser: model parse+write of a file differs from " \
                          "the real parser's message near token %d (%s vs " \
                          "%s; context %s)" % (d, back[d:d + 1], M[d:d + 1],
                                               " ".join(M[max(0, d - 5):d]))
                elif wf != "1" and strict:
                    bad = "reser: wfW false on a message the real " \
                          "serializer wrote"
                else:
                    ctx.count("pbwire:reser-agree")
            elif strict:
                bad = "reser: the model rejects a file the real serializer " \
                      "wrote (%s)" % reser[:20]
            else:
                ctx.count("pbwire:model-rejects-corrupted-file")
            # --- writer against the real parser
            if bad is None and ser.startswith("ok "):
                hx = ser.split(" ")[1]
                try:
                    back = self._parse_dump(hx)
                except Exception as e:   # noqa
                    back = ["raised", type(e).__name__]
                if back != M:
                    bad = "ser: the real parser reads the model's bytes as " \
                          "another message"
                else:
                    ctx.count("pbwire:ser-agree")
            elif bad is None:
                if strict and ser != "bad-op":
                    bad = "ser: %s" % ser[:30]
                else:
                    ctx.count("pbwire:outside-notation")
            # --- layer 1 against the real parser's unknown-field view
            if bad is None:
                try:
                    view = _empty_view(raw)
                except Exception:   # noqa
                    view = "reject"
                if view is None:
                    ctx.count("pbwire:group")
                elif view != wire:
                    if strict or (view != "reject" and wire != "reject"):
                        bad = "wire: field list differs (%s vs %s)" % (
                            wire[:60], view[:60])
                    else:
                        ctx.count("pbwire:wire-accept-differs")
                else:
                    ctx.count("pbwire:wire-agree")
            if bad:
                import os
                if os.environ.get("VERIF_DEBUG"):
                    with open("/tmp/pbwire_bad.hex", "w") as fh:
                        fh.write(raw.hex())
                ctx.tie_broken.append("correspondence:pbwire %s %s"
                                      % (tag, bad))
            else:
                ctx.traces += 3
        self.cases = []
