"""Tie of model W (lean/GtirbModel/PbWire.lean, PbMsg.lean: the protobuf wire
format and the serializer / parser of the GTIRB message) to the real protobuf
library (whichever back end the process runs under).

Per file body `raw` with the message `msg` the generated classes parsed from
it:
  reser  Lean parses `raw` and writes the result again; the real parser reads
         that back; its message must equal `msg` (canonical dumps compared);
  ser    Lean serializes the dump of `msg`; the real parser reads those bytes;
         its message must equal `msg`;
  wire   Lean's field list of `raw` (layer 1) must equal the real parser's
         view of the same bytes as unknown fields of `google.protobuf.Empty`.
A disagreement is a broken tie of the properties that use the byte-level
theorems (C01_roundtrip_bytes, C17_*_bytes): `correspondence:pbwire`.

For corrupted files (`strict=False`) the message-layer comparison is counted
but not binding (the model rejects groups, wrong wire types of known fields
and negative enum numbers, which protobuf keeps or skips; protobuf drops a map
entry with an ill-typed member); the layer-1 field list must still agree
whenever both sides accept the bytes."""
import core
import irdump


def _empty_view(raw):
    from google.protobuf import empty_pb2, unknown_fields
    e = empty_pb2.Empty.FromString(raw)
    out = []
    for f in unknown_fields.UnknownFieldSet(e):
        d = f.data
        if f.wire_type == 0:
            tok = "0:%d" % d
        elif f.wire_type == 1:
            tok = "1:" + int(d).to_bytes(8, "little").hex()
        elif f.wire_type == 2:
            tok = "2:" + (bytes(d).hex() or "-")
        elif f.wire_type == 5:
            tok = "5:" + int(d).to_bytes(4, "little").hex()
        else:
            return None         # a group: outside the model
        out.append("%d:%s" % (f.field_number, tok))
    return "ok " + " ".join([str(len(out))] + out)


class WireTie:
    def __init__(self, ctx, gtirb, flush_at=40):
        self.ctx, self.g = ctx, gtirb
        self.cases = []
        self.flush_at = flush_at

    def add(self, tag, msg, raw, strict=True):
        """msg: the real parser's message for the body `raw`"""
        try:
            M = irdump.dump_mir(msg)
        except Exception:   # noqa  (values outside the dump's notation)
            self.ctx.count("pbwire:undumpable")
            return
        self.cases.append((tag, M, bytes(raw), strict))
        if len(self.cases) >= self.flush_at:
            self.flush()

    def _parse_dump(self, hx):
        from gtirb.proto import IR_pb2
        m = IR_pb2.IR.FromString(b"" if hx == "-" else bytes.fromhex(hx))
        return irdump.dump_mir(m)

    def flush(self):
        if not self.cases:
            return
        ctx = self.ctx
        lines = []
        for tag, M, raw, strict in self.cases:
            h = raw.hex() or "-"
            lines += ["reser " + h, "ser " + " ".join(M), "wire " + h]
        out = core.lean_batch("pbwire", lines)
        for i, (tag, M, raw, strict) in enumerate(self.cases):
            reser, ser, wire = out[3 * i:3 * i + 3]
            bad = None
            # --- parser (and writer) against the real parser
            if reser.startswith("ok "):
                hx, wf = reser.split(" ")[1:3]
                try:
                    back = self._parse_dump(hx)
                except Exception as e:   # noqa
                    back = ["raised", type(e).__name__]
                if back != M and not strict:
                    # the real parser's leniencies on corrupted input (a map
                    # entry with an ill-typed member dropped as an unknown
                    # field, ...) are not modelled at the message layer; the
                    # C17 theorems about accepted files hold for EVERY parse
                    # function (C17_accepted_bytes_inv), so nothing rests on
                    # agreement here: counted, not binding
                    ctx.count("pbwire:corrupted-file-read-differently")
                elif back != M:
                    d = next((j for j, (x, y) in enumerate(zip(back, M))
                              if x != y), min(len(back), len(M)))
                    bad = "reser: model parse+write of a file differs from " \
                          "the real parser's message near token %d (%s vs " \
                          "%s; context %s)" % (d, back[d:d + 1], M[d:d + 1],
                                               " ".join(M[max(0, d - 5):d]))
                elif wf != "1" and strict:
                    bad = "reser: wfW false on a message the real " \
                          "serializer wrote"
                else:
                    ctx.count("pbwire:reser-agree")
            elif strict:
                bad = "reser: the model rejects a file the real serializer " \
                      "wrote (%s)" % reser[:20]
            else:
                ctx.count("pbwire:model-rejects-corrupted-file")
            # --- writer against the real parser
            if bad is None and ser.startswith("ok "):
                hx = ser.split(" ")[1]
                try:
                    back = self._parse_dump(hx)
                except Exception as e:   # noqa
                    back = ["raised", type(e).__name__]
                if back != M:
                    bad = "ser: the real parser reads the model's bytes as " \
                          "another message"
                else:
                    ctx.count("pbwire:ser-agree")
            elif bad is None:
                if strict and ser != "bad-op":
                    bad = "ser: %s" % ser[:30]
                else:
                    ctx.count("pbwire:outside-notation")
            # --- layer 1 against the real parser's unknown-field view
            if bad is None:
                try:
                    view = _empty_view(raw)
                except Exception:   # noqa
                    view = "reject"
                if view is None:
                    ctx.count("pbwire:group")
                elif view != wire:
                    if strict or (view != "reject" and wire != "reject"):
                        bad = "wire: field list differs (%s vs %s)" % (
                            wire[:60], view[:60])
                    else:
                        ctx.count("pbwire:wire-accept-differs")
                else:
                    ctx.count("pbwire:wire-agree")
            if bad:
                import os
                if os.environ.get("VERIF_DEBUG"):
                    with open("/tmp/pbwire_bad.hex", "w") as fh:
                        fh.write(raw.hex())
                ctx.tie_broken.append("correspondence:pbwire %s %s"
                                      % (tag, bad))
            else:
                ctx.traces += 3
        self.cases = []
