"""Graph histories (model C): a tiny universe of IRs / modules / sections /
intervals / blocks / proxies / symbols driven through every public mutation
entry point from either end of each relation.

Three parties after every step:
  * the implementation (real gtirb objects, snapshot through the public API),
  * `Spec`: the simplest abstract specification - a parent map, ordered module
    lists, symbol names/payloads - from which *everything else is derived by
    scanning* (the direct oracle of C03 / C04 / C10 / C16),
  * the Lean model `Gtirb.Forest` (mechanistic: back-pointers, collections,
    the UUID table and symbol indexes updated incrementally), the tie for the
    theorems.
All three print the same snapshot line (DESIGN.md Appendix C)."""
import uuid as uuidlib

import core

KINDS = ["ir", "module", "section", "interval", "code", "data", "proxy",
         "symbol"]
SLOT_OF = {"module": "mods", "section": "secs", "symbol": "syms",
           "proxy": "proxies", "interval": "bis", "code": "blocks",
           "data": "blocks"}
PARENT_KIND = {"module": "ir", "section": "module", "symbol": "module",
               "proxy": "module", "interval": "section", "code": "interval",
               "data": "interval"}
SLOT_ATTR = {"mods": "modules", "secs": "sections", "syms": "symbols",
             "proxies": "proxies", "bis": "byte_intervals", "blocks": "blocks"}
PARENT_ATTR = {"module": "ir", "section": "module", "symbol": "module",
               "proxy": "module", "interval": "section",
               "code": "byte_interval", "data": "byte_interval"}
CHILD_SLOTS = {"ir": ["mods"], "module": ["proxies", "secs", "syms"],
               "section": ["bis"], "interval": ["blocks"]}
SLOT_CHILD_KINDS = {"mods": ["module"], "secs": ["section"],
                    "syms": ["symbol"], "proxies": ["proxy"],
                    "bis": ["interval"], "blocks": ["code", "data"]}


def name_str(code):
    return "" if code == 0 else "n%d" % code


def fl(xs):
    return "[" + ",".join(str(x) for x in xs) + "]"


def fs(xs):
    return fl(sorted(xs))


def opt(x):
    return "-" if x is None else str(x)


class Outside(Exception):
    """the abstract specification does not define this input (K1 patterns)"""


# ---------------------------------------------------------------------------
class Spec:
    """Abstract specification: parent map + ordered module lists + symbol
    attributes. Everything observable is derived by scanning."""

    def __init__(self):
        self.kind = []
        self.uuid = []
        self.parent = []
        self.mods = {}            # ir -> ordered list of modules
        self.name = {}
        self.payload = {}
        self.track = False
        self.broke_distinct = False

    def copy(self):
        s = Spec()
        s.kind, s.uuid, s.parent = list(self.kind), list(self.uuid), \
            list(self.parent)
        s.mods = {k: list(v) for k, v in self.mods.items()}
        s.name, s.payload = dict(self.name), dict(self.payload)
        return s

    @property
    def n(self):
        return len(self.kind)

    def alloc(self, kind, u):
        self.kind.append(kind)
        self.uuid.append(u)
        self.parent.append(None)
        if kind == "ir":
            self.mods[len(self.kind) - 1] = []
        return len(self.kind) - 1

    # -- derived
    def kids(self, p, slot):
        if slot == "mods":
            return list(self.mods.get(p, []))
        return [c for c in range(self.n) if self.parent[c] == p
                and SLOT_OF.get(self.kind[c]) == slot]

    def ir_of(self, x):
        while x is not None and self.kind[x] != "ir":
            x = self.parent[x]
        return x

    def module_of(self, x):
        while x is not None and self.kind[x] != "module":
            if self.kind[x] == "ir":
                return None
            x = self.parent[x]
        return x

    def descendants(self, p, kinds):
        out = []
        for c in range(self.n):
            if self.kind[c] in kinds:
                a = self.parent[c]
                while a is not None and a != p:
                    a = self.parent[a]
                if a == p:
                    out.append(c)
        return out

    def distinct(self):
        seen = {}
        for x in range(self.n):
            i = self.ir_of(x)
            if i is None:
                continue
            k = (i, self.uuid[x])
            if k in seen:
                return False
            seen[k] = x
        return True

    # -- abstract operations (return value = exception name or None)
    def detach(self, v):
        p = self.parent[v]
        if p is not None and self.kind[v] == "module":
            self.mods[p].remove(v)
        self.parent[v] = None

    def attach(self, v, p):
        self.detach(v)
        self.parent[v] = p
        if self.kind[v] == "module":
            self.mods[p].append(v)
        # the property's hypothesis covers every moment, also between the
        # elementary moves of one call (e.g. `^=` attaching one node before
        # detaching another with the same uuid)
        if self.track and not self.distinct():
            self.broke_distinct = True

    def apply(self, op):
        """op: tuple. Mutates self; returns exception name or None. Raises
        Outside for inputs the specification leaves open."""
        k = op[0]
        if k == "mkir":
            self.alloc("ir", op[1])
        elif k == "mk":
            _, kind, u, parent, kids = op
            v = self.alloc(kind, u)
            for slot, vs in kids:
                for c in vs:
                    self.attach(c, v)
            if parent is not None:
                self.attach(v, parent)
        elif k == "mksym":
            _, u, nm, pl, parent = op
            v = self.alloc("symbol", u)
            self.name[v] = nm
            self.payload[v] = pl
            if parent is not None:
                self.attach(v, parent)
        elif k == "setparent":
            _, c, p = op
            if p is None:
                self.detach(c)
            else:
                self.attach(c, p)
        elif k == "add":
            self.attach(op[3], op[1])
        elif k == "discard":
            if self.parent[op[3]] == op[1]:
                self.detach(op[3])
        elif k == "remove":
            if self.parent[op[3]] != op[1]:
                return "KeyError"
            self.detach(op[3])
        elif k == "pop":
            if self.parent[op[3]] != op[1]:
                return "invalid-pop"
            self.detach(op[3])
        elif k == "popempty":
            return "KeyError" if not self.kids(op[1], op[2]) else "invalid"
        elif k == "clear":
            for c in self.kids(op[1], op[2]):
                self.detach(c)
        elif k == "update":
            for c in op[3]:
                self.attach(c, op[1])
        elif k == "isub":
            for c in op[3]:
                if self.parent[c] == op[1]:
                    self.detach(c)
        elif k == "iand":
            for c in self.kids(op[1], op[2]):
                if c not in op[3]:
                    self.detach(c)
        elif k == "ixor":
            for c in op[3]:
                if self.parent[c] == op[1]:
                    self.detach(c)
                else:
                    self.attach(c, op[1])
        # ---- module list: built-in list semantics on the content after
        # removing the inserted nodes from their previous owners
        elif k == "insert":
            _, i, pos, v = op
            self.detach(v)
            self.parent[v] = i
            self.mods[i].insert(pos, v)
        elif k == "append":
            self.attach(op[2], op[1])
        elif k == "extend":
            for v in op[2]:
                self.attach(v, op[1])
        elif k == "delitem":
            _, i, pos = op
            l = self.mods[i]
            if not -len(l) <= pos < len(l):
                return "IndexError"
            self.detach(l[pos])
        elif k == "lpop":
            _, i, pos = op
            l = self.mods[i]
            if not -len(l) <= pos < len(l):
                return "IndexError"
            self.detach(l[pos])
        elif k == "setitem":
            _, i, pos, v = op
            l = self.mods[i]
            if not -len(l) <= pos < len(l):
                return "IndexError"
            old = l[pos]
            if v in l and v != old:
                raise Outside("value-elsewhere-in-same-list")
            if v != old:
                idx = pos % len(l)
                self.detach(v)
                self.parent[old] = None
                self.parent[v] = i
                l[idx] = v
        elif k == "delslice":
            _, i, sl = op
            l = self.mods[i]
            for idx in sorted(range(*sl.indices(len(l))), reverse=True):
                self.detach(l[idx])
        elif k == "setslice":
            _, i, sl, vs, how = op
            l = self.mods[i]
            idxs = list(range(*sl.indices(len(l))))
            replaced = [l[x] for x in idxs]
            if len(set(vs)) != len(vs):
                raise Outside("duplicate-values")
            if any(v in l and v not in replaced for v in vs):
                raise Outside("value-elsewhere-in-same-list")
            if sl.step not in (None, 1) and len(vs) != len(idxs):
                raise Outside("extended-slice-length")
            ref = list(l)
            ref[sl] = vs
            for old in replaced:
                if old not in vs:
                    self.detach(old)
            for v in vs:
                if self.parent[v] is not None and self.parent[v] != i:
                    self.detach(v)
                self.parent[v] = i
            self.mods[i] = ref
        elif k == "lremove":
            _, i, v = op
            if v not in self.mods[i]:
                return "ValueError"
            self.detach(v)
        elif k == "reverse":
            self.mods[op[1]].reverse()
        elif k == "lclear":
            for v in list(self.mods[op[1]]):
                self.detach(v)
        elif k == "setname":
            self.name[op[1]] = op[2]
        elif k == "setpayload":
            self.payload[op[1]] = op[2]
        else:
            raise ValueError(k)
        return None

    # -- snapshot
    def snapshot(self):
        uuids = sorted(set(self.uuid))
        names = sorted({99} | {self.name[x] for x in range(self.n)
                               if self.kind[x] == "symbol"})
        parts = []
        for x in range(self.n):
            kd = self.kind[x]
            base = "%d:%s:%s:ir=%s" % (
                x, kd, opt(self.parent[x]),
                "-" if kd == "ir" else opt(self.ir_of(x)))
            if kd == "ir":
                cache = {}
                for y in range(self.n):
                    if self.ir_of(y) == x:
                        cache[self.uuid[y]] = y
                code = self.descendants(x, ["code"])
                base += (" mods=%s secs=%s syms=%s prox=%s bis=%s blk=%s "
                         "code=%s data=%s cfgn=%s uu=%s" % (
                             fl(self.mods[x]),
                             fs(self.descendants(x, ["section"])),
                             fs(self.descendants(x, ["symbol"])),
                             fs(self.descendants(x, ["proxy"])),
                             fs(self.descendants(x, ["interval"])),
                             fs(self.descendants(x, ["code", "data"])),
                             fs(code), fs(self.descendants(x, ["data"])),
                             fs(code + self.descendants(x, ["proxy"])),
                             " ".join("%d>%s" % (u, opt(cache.get(u)))
                                      for u in uuids)))
            elif kd == "module":
                code = self.descendants(x, ["code"])
                syms = self.kids(x, "syms")
                base += (" secs=%s syms=%s prox=%s bis=%s blk=%s code=%s "
                         "data=%s cfgn=%s named=%s" % (
                             fs(self.kids(x, "secs")), fs(syms),
                             fs(self.kids(x, "proxies")),
                             fs(self.descendants(x, ["interval"])),
                             fs(self.descendants(x, ["code", "data"])),
                             fs(code), fs(self.descendants(x, ["data"])),
                             fs(code + self.kids(x, "proxies")),
                             " ".join("%d>%s" % (nm, fs(
                                 [y for y in syms if self.name[y] == nm]))
                                 for nm in names)))
            elif kd == "section":
                base += " bis=%s blk=%s code=%s data=%s mod=%s" % (
                    fs(self.kids(x, "bis")),
                    fs(self.descendants(x, ["code", "data"])),
                    fs(self.descendants(x, ["code"])),
                    fs(self.descendants(x, ["data"])),
                    opt(self.module_of(x)))
            elif kd == "interval":
                base += " blk=%s mod=%s" % (fs(self.kids(x, "blocks")),
                                            opt(self.module_of(x)))
            elif kd == "symbol":
                base += " name=%d pl=%s" % (self.name[x],
                                            pl_str(self.payload[x]))
            else:
                m = self.module_of(x)
                refs = [] if m is None else [
                    y for y in self.kids(m, "syms")
                    if self.payload[y] == ("b", x)]
                base += " mod=%s refs=%s" % (opt(m), fs(refs))
            parts.append(base)
        return " ; ".join(parts)


def pl_str(pl):
    if pl is None:
        return "-"
    return "%s%d" % pl


# ---------------------------------------------------------------------------
class Impl:
    """The real objects."""

    def __init__(self):
        import gtirb
        self.g = gtirb
        self.nodes = []
        self.index = {}
        self.kind = []
        self.uuids = []
        self.sym_codes = {}

    def reg(self, obj, kind, u):
        self.index[id(obj)] = len(self.nodes)
        self.nodes.append(obj)
        self.kind.append(kind)
        self.uuids.append(u)

    def ix(self, obj):
        if obj is None:
            return None
        return self.index.get(id(obj), "?%s" % type(obj).__name__)

    def ixs(self, objs):
        out = []
        for o in objs:
            i = self.ix(o)
            out.append(i if isinstance(i, int) else 10**6)
        return out

    def payload_obj(self, pl):
        if pl is None:
            return None
        if pl[0] == "i":
            return pl[1]
        return self.nodes[pl[1]]

    def apply(self, op):
        """Executes the operation on the real objects. Returns (exception
        name or None, extra) - extra is the reported order / popped element."""
        g = self.g
        N = self.nodes
        k = op[0]
        U = lambda u: uuidlib.UUID(int=u)   # noqa
        if k == "mkir":
            self.reg(g.IR(uuid=U(op[1])), "ir", op[1])
        elif k == "mk":
            _, kind, u, parent, kids = op
            kw = {"uuid": U(u)}
            for slot, vs in kids:
                kw[SLOT_ATTR[slot]] = [N[c] for c in vs]
            if parent is not None:
                kw[PARENT_ATTR[kind]] = N[parent]
            if kind == "module":
                obj = g.Module(name="m", **kw)
            elif kind == "section":
                obj = g.Section(name="s", **kw)
            elif kind == "interval":
                obj = g.ByteInterval(size=8, **kw)
            elif kind == "code":
                obj = g.CodeBlock(**kw)
            elif kind == "data":
                obj = g.DataBlock(**kw)
            else:
                obj = g.ProxyBlock(**kw)
            self.reg(obj, kind, u)
        elif k == "mksym":
            _, u, nm, pl, parent = op
            obj = g.Symbol(name_str(nm), uuid=U(u),
                           payload=self.payload_obj(pl),
                           module=None if parent is None else N[parent])
            self.reg(obj, "symbol", u)
        elif k == "setparent":
            _, c, p = op
            setattr(N[c], PARENT_ATTR[self.kind[c]],
                    None if p is None else N[p])
        elif k in ("add", "discard", "remove"):
            coll = getattr(N[op[1]], SLOT_ATTR[op[2]])
            r = getattr(coll, k)(N[op[3]])
            if r is not None:
                return "returned:%r" % (r,), None
        elif k == "pop" or k == "popempty":
            coll = getattr(N[op[1]], SLOT_ATTR[op[2]])
            v = coll.pop()
            return None, self.ix(v)
        elif k == "clear":
            getattr(N[op[1]], SLOT_ATTR[op[2]]).clear()
        elif k == "update":
            coll = getattr(N[op[1]], SLOT_ATTR[op[2]])
            how = op[4]
            vs = [N[c] for c in op[3]]
            if how == "update":
                coll.update(vs)
            elif how == "update2":
                h = len(vs) // 2
                coll.update(vs[:h], vs[h:])
            else:
                p = N[op[1]]
                coll |= op[5]
                if getattr(p, SLOT_ATTR[op[2]]) is not coll:
                    return "rebound", None
        elif k in ("isub", "iand", "ixor"):
            p = N[op[1]]
            coll = getattr(p, SLOT_ATTR[op[2]])
            it = op[4]
            if k == "isub":
                coll -= it
            elif k == "iand":
                coll &= it
            else:
                coll ^= it
            if getattr(p, SLOT_ATTR[op[2]]) is not coll:
                return "rebound", None
        elif k == "insert":
            N[op[1]].modules.insert(op[2], N[op[3]])
        elif k == "append":
            N[op[1]].modules.append(N[op[2]])
        elif k == "extend":
            if op[3] == "iadd":
                ir = N[op[1]]
                l = ir.modules
                l += [N[c] for c in op[2]]
                if ir.modules is not l:
                    return "rebound", None
            else:
                N[op[1]].modules.extend(N[c] for c in op[2])
        elif k == "delitem":
            del N[op[1]].modules[op[2]]
        elif k == "lpop":
            v = N[op[1]].modules.pop(op[2])
            return None, self.ix(v)
        elif k == "setitem":
            N[op[1]].modules[op[2]] = N[op[3]]
        elif k == "delslice":
            del N[op[1]].modules[op[2]]
        elif k == "setslice":
            vals = [N[c] for c in op[3]]
            how = op[4]
            if how == "tuple":
                vals = tuple(vals)
            elif how == "iter":
                vals = iter(vals)
            elif how == "gen":
                vals = (x for x in vals)
            N[op[1]].modules[op[2]] = vals
        elif k == "lremove":
            N[op[1]].modules.remove(N[op[2]])
        elif k == "reverse":
            N[op[1]].modules.reverse()
        elif k == "lclear":
            N[op[1]].modules.clear()
        elif k == "setname":
            N[op[1]].name = name_str(op[2])
        elif k == "setpayload":
            pl = op[2]
            s = N[op[1]]
            if pl is None:
                if op[3] == "value":
                    s.value = None
                else:
                    s.referent = None
            elif pl[0] == "i":
                s.value = pl[1]
            else:
                s.referent = N[pl[1]]
        else:
            raise ValueError(k)
        return None, None

    def code_of_name(self, s):
        if s == "":
            return 0
        try:
            return int(s[1:])
        except ValueError:
            return -1

    def snapshot(self):
        N = self.nodes
        ix, ixs = self.ix, self.ixs
        uuids = sorted(set(self.uuids))
        names = sorted({99} | {self.code_of_name(o.name)
                               for o, kd in zip(N, self.kind)
                               if kd == "symbol"})
        parts = []
        for x, (o, kd) in enumerate(zip(N, self.kind)):
            par = None if kd == "ir" else getattr(o, PARENT_ATTR[kd])
            base = "%d:%s:%s:ir=%s" % (x, kd, opt(ix(par)),
                                       "-" if kd == "ir" else opt(ix(o.ir)))
            if kd == "ir":
                base += (" mods=%s secs=%s syms=%s prox=%s bis=%s blk=%s "
                         "code=%s data=%s cfgn=%s uu=%s" % (
                             fl(ixs(o.modules)), fs(ixs(o.sections)),
                             fs(ixs(o.symbols)), fs(ixs(o.proxy_blocks)),
                             fs(ixs(o.byte_intervals)),
                             fs(ixs(o.byte_blocks)), fs(ixs(o.code_blocks)),
                             fs(ixs(o.data_blocks)), fs(ixs(o.cfg_nodes)),
                             " ".join("%d>%s" % (u, opt(ix(o.get_by_uuid(
                                 uuidlib.UUID(int=u))))) for u in uuids)))
            elif kd == "module":
                base += (" secs=%s syms=%s prox=%s bis=%s blk=%s code=%s "
                         "data=%s cfgn=%s named=%s" % (
                             fs(ixs(o.sections)), fs(ixs(o.symbols)),
                             fs(ixs(o.proxies)), fs(ixs(o.byte_intervals)),
                             fs(ixs(o.byte_blocks)), fs(ixs(o.code_blocks)),
                             fs(ixs(o.data_blocks)), fs(ixs(o.cfg_nodes)),
                             " ".join("%d>%s" % (nm, fs(ixs(o.symbols_named(
                                 name_str(nm))))) for nm in names)))
            elif kd == "section":
                base += " bis=%s blk=%s code=%s data=%s mod=%s" % (
                    fs(ixs(o.byte_intervals)), fs(ixs(o.byte_blocks)),
                    fs(ixs(o.code_blocks)), fs(ixs(o.data_blocks)),
                    opt(ix(o.module)))
            elif kd == "interval":
                base += " blk=%s mod=%s" % (fs(ixs(o.blocks)),
                                            opt(ix(o.module)))
            elif kd == "symbol":
                if o.referent is not None:
                    pl = "b%s" % ix(o.referent)
                elif o.value is not None:
                    pl = "i%d" % o.value
                else:
                    pl = "-"
                base += " name=%d pl=%s" % (self.code_of_name(o.name), pl)
            else:
                base += " mod=%s refs=%s" % (opt(ix(o.module)),
                                             fs(ixs(o.references)))
            parts.append(base)
        return " ; ".join(parts)


# ---------------------------------------------------------------------------
def op_line(op):
    """wire form for the Lean driver"""
    k = op[0]
    if k == "mkir":
        return "mkir %d" % op[1]
    if k == "mk":
        _, kind, u, parent, kids = op
        s = "mk %s %d %s" % (kind, u, opt(parent))
        for slot, vs in kids:
            s += " %s:%s" % (slot, ",".join(str(v) for v in vs))
        return s
    if k == "mksym":
        return "mksym %d %d %s %s" % (op[1], op[2], pl_str(op[3]), opt(op[4]))
    if k == "setparent":
        return "setparent %d %s" % (op[1], opt(op[2]))
    if k in ("add", "discard", "remove", "pop"):
        return "%s %d %s %d" % (k, op[1], op[2], op[3])
    if k == "popempty":
        return "popempty %d %s" % (op[1], op[2])
    if k in ("clear", "update", "isub", "ixor"):
        return "%s %d %s%s" % (k, op[1], op[2],
                               "".join(" %d" % v for v in op[3]))
    if k == "iand":
        return "iand %d %s%s /%s" % (op[1], op[2],
                                     "".join(" %d" % v for v in op[3]),
                                     "".join(" %d" % v for v in op[5]))
    if k == "insert":
        return "insert %d %d %d" % (op[1], op[2], op[3])
    if k == "append":
        return "append %d %d" % (op[1], op[2])
    if k == "extend":
        return "extend %d%s" % (op[1], "".join(" %d" % v for v in op[2]))
    if k == "delitem":
        return "delitem %d %d" % (op[1], op[2])
    if k == "lpop":
        return "lpop %d %d" % (op[1], op[2])
    if k == "setitem":
        return "setitem %d %d %d" % (op[1], op[2], op[3])
    if k in ("delslice", "setslice"):       # script text only
        sl = op[2]
        t = "%s %d %s %s %s" % (k, op[1], opt(sl.start), opt(sl.stop),
                                opt(sl.step))
        if k == "setslice":
            t += " %s%s" % (op[4], "".join(" %d" % v for v in op[3]))
        return t
    if k == "lremove":
        return "lremove %d %d" % (op[1], op[2])
    if k in ("reverse", "lclear"):
        return "%s %d" % (k, op[1])
    if k == "setname":
        return "setname %d %d" % (op[1], op[2])
    if k == "setpayload":
        return "setpayload %d %s" % (op[1], pl_str(op[2]))
    raise ValueError(k)


def parse_line(line, impl=None):
    """inverse of op_line (for --replay)"""
    t = line.split()
    k = t[0]

    def o(x):
        return None if x == "-" else int(x)

    def pl(x):
        if x == "-":
            return None
        return (x[0], int(x[1:]))
    if k == "mkir":
        return ("mkir", int(t[1]))
    if k == "mk":
        kids = []
        for a in t[4:]:
            slot, vs = a.split(":")
            kids.append((slot, [int(v) for v in vs.split(",") if v]))
        return ("mk", t[1], int(t[2]), o(t[3]), kids)
    if k == "mksym":
        return ("mksym", int(t[1]), int(t[2]), pl(t[3]), o(t[4]))
    if k == "setparent":
        return ("setparent", int(t[1]), o(t[2]))
    if k in ("add", "discard", "remove", "pop"):
        return (k, int(t[1]), t[2], int(t[3]))
    if k == "popempty":
        return ("popempty", int(t[1]), t[2])
    if k == "clear":
        return ("clear", int(t[1]), t[2], [int(v) for v in t[3:]])
    if k == "update":
        return ("update", int(t[1]), t[2], [int(v) for v in t[3:]], "update")
    if k in ("isub", "ixor"):
        vs = [int(v) for v in t[3:]]
        it = set(impl.nodes[c] for c in vs) if impl else set()
        return (k, int(t[1]), t[2], vs, it)
    if k == "iand":
        i = t.index("/")
        vs = [int(v) for v in t[3:i]]
        it = set(impl.nodes[c] for c in vs) if impl else set()
        return ("iand", int(t[1]), t[2], vs, it, [int(v) for v in t[i + 1:]])
    if k == "insert":
        return ("insert", int(t[1]), int(t[2]), int(t[3]))
    if k == "append":
        return ("append", int(t[1]), int(t[2]))
    if k == "extend":
        return ("extend", int(t[1]), [int(v) for v in t[2:]], "extend")
    if k in ("delitem", "lpop"):
        return (k, int(t[1]), int(t[2]))
    if k == "setitem":
        return ("setitem", int(t[1]), int(t[2]), int(t[3]))
    if k == "lremove":
        return ("lremove", int(t[1]), int(t[2]))
    if k in ("reverse", "lclear"):
        return (k, int(t[1]))
    if k == "setname":
        return ("setname", int(t[1]), int(t[2]))
    if k == "setpayload":
        return ("setpayload", int(t[1]), pl(t[2]), "value")
    if k == "delslice":
        return ("delslice", int(t[1]), slice(o(t[2]), o(t[3]), o(t[4])))
    if k == "setslice":
        return ("setslice", int(t[1]), slice(o(t[2]), o(t[3]), o(t[4])),
                [int(v) for v in t[6:]], t[5])
    raise ValueError("cannot parse %r" % line)


def register_loaded(sp, im, ir2):
    """a loaded IR joins the universe: the specification sees it as the
    constructor calls that build the same structure, the implementation side
    registers the real objects under the new ids; returns those operations"""
    g = im.g
    ops, objs = [], []
    new_id = {}
    nxt = [sp.n]

    def add(obj, op, kind, u):
        new_id[id(obj)] = nxt[0]
        nxt[0] += 1
        ops.append(op)
        objs.append((obj, kind, u))
    add(ir2, ("mkir", ir2.uuid.int), "ir", ir2.uuid.int)
    for m in ir2.modules:
        add(m, ("mk", "module", m.uuid.int, new_id[id(ir2)], []),
            "module", m.uuid.int)
        for p in sorted(m.proxies, key=lambda n: n.uuid.int):
            add(p, ("mk", "proxy", p.uuid.int, new_id[id(m)], []),
                "proxy", p.uuid.int)
        for s in sorted(m.sections, key=lambda n: n.uuid.int):
            add(s, ("mk", "section", s.uuid.int, new_id[id(m)], []),
                "section", s.uuid.int)
            for x in sorted(s.byte_intervals, key=lambda n: n.uuid.int):
                add(x, ("mk", "interval", x.uuid.int, new_id[id(s)], []),
                    "interval", x.uuid.int)
                for b in sorted(x.blocks, key=lambda n: n.uuid.int):
                    kd = "code" if isinstance(b, g.CodeBlock) else "data"
                    add(b, ("mk", kd, b.uuid.int, new_id[id(x)], []), kd,
                        b.uuid.int)
        for y in sorted(m.symbols, key=lambda n: n.uuid.int):
            if y.referent is not None:
                pl = ("b", new_id.get(id(y.referent), 10**6))
            elif y.value is not None:
                pl = ("i", y.value)
            else:
                pl = None
            add(y, ("mksym", y.uuid.int, im.code_of_name(y.name), pl,
                    new_id[id(m)]), "symbol", y.uuid.int)
    for (obj, kind, u), op in zip(objs, ops):
        sp.apply(op)
        im.reg(obj, kind, u)
    return ops


def replay_script(script, out=print):
    """re-execute a recorded history on the current tree: implementation vs
    abstract specification after every step; reports the first divergence"""
    sp, im = Spec(), Impl()
    for n, line in enumerate(script):
        if line.startswith("load "):
            import io
            i = int(line.split()[1])
            try:
                buf = io.BytesIO()
                im.nodes[i].save_protobuf_file(buf)
                buf.seek(0)
                ir2 = im.g.IR.load_protobuf_file(buf)
            except Exception as e:   # noqa
                out("REPRODUCED at step %d %r: save + load raised %s: %s"
                    % (n, line, type(e).__name__, str(e)[:80]))
                return (n, line)
            register_loaded(sp, im, ir2)
            a, b = im.snapshot(), sp.snapshot()
            if a != b:
                out("REPRODUCED at step %d %r: the loaded IR differs from "
                    "the specification in %s" % (n, line,
                                                 sorted(diff_parts(a, b))))
                return (n, line)
            continue
        try:
            op = parse_line(line, im)
        except ValueError as e:
            out("step %d: %s" % (n, e))
            return None
        exc = extra = None
        try:
            if op[0] == "pop":
                # which element a set pops is the implementation's choice:
                # the specification follows what it reports NOW
                exc, extra = im.apply(("pop", op[1], op[2]))
                if isinstance(extra, int):
                    op = ("pop", op[1], op[2], extra)
            else:
                exc, extra = im.apply(op)
        except tuple(EXC_NAMES) as e:
            exc = EXC_NAMES[type(e)]
        except Exception as e:   # noqa
            exc = "Other:" + type(e).__name__
        if op[0] == "pop" and exc == "KeyError":
            op = ("popempty", op[1], op[2])
        elif op[0] == "pop" and (len(op) < 4 or not isinstance(op[3], int)):
            out("REPRODUCED at step %d %r: pop returned something that is "
                "not a node of the universe" % (n, line))
            return (n, line)
        try:
            want_exc = sp.apply(op)
        except Outside as o:
            want_exc = "outside:%s" % o
        a, b = im.snapshot(), sp.snapshot()
        if str(want_exc).startswith("outside"):
            cons = consistent(im)
            out("step %d %r: outside the specification (K1 pattern); "
                "consistency of the real objects: %s" % (n, line,
                                                         cons or "ok"))
            return cons
        if exc != want_exc or a != b:
            out("REPRODUCED at step %d %r: exception %s (expected %s); parts "
                "that differ: %s" % (n, line, exc, want_exc,
                                     sorted(diff_parts(a, b))))
            out("  implementation: " + a[:1500])
            out("  specification : " + b[:1500])
            return (n, line)
    out("not reproduced: all %d steps agree with the specification on the "
        "current tree" % len(script))
    return None


EXC_NAMES = {KeyError: "KeyError", ValueError: "ValueError",
             IndexError: "IndexError"}


class History:
    """One history: generation, execution on the three parties, comparison."""

    def __init__(self, ctx, rng, tag):
        self.ctx, self.rng, self.tag = ctx, rng, tag
        self.spec = Spec()
        self.impl = Impl()
        self.lines = ["reset"]
        self.impl_out = ["ok"]
        self.script = []
        self.next_uuid = 100
        self.uuid_pool = []
        self.failed_parts = set()
        # set once the implementation has left the specification in a part
        # of the snapshot that is another property's business: the history
        # goes on for a while, this property's part is still compared
        self.degraded = None
        self.degraded_steps = 0
        self.loaded = False
        self.pending_seed = self.seed_ops() if rng.random() < 0.9 else []

    # ---- generation helpers
    def of_kind(self, kinds):
        return [x for x in range(self.spec.n) if self.spec.kind[x] in kinds]

    def fresh_uuid(self, new=False):
        rng = self.rng
        # share uuids across IRs on purpose: reuse an existing uuid sometimes
        if not new and self.uuid_pool and rng.random() < 0.25:
            return rng.choice(self.uuid_pool)
        self.next_uuid += 1
        self.uuid_pool.append(self.next_uuid)
        return self.next_uuid

    def pick(self, kinds):
        c = self.of_kind(kinds)
        return self.rng.choice(c) if c else None

    def seed_ops(self):
        """a small attached universe built through constructors with parent
        arguments, so that histories start in a non-trivial state"""
        rng = self.rng
        ops = [("mkir", self.fresh_uuid(True)), ("mkir", self.fresh_uuid(True))]
        plan = ["module", "module", "module", "section", "section",
                "section", "interval", "interval", "interval", "code",
                "data", "code", "data", "proxy", "proxy", "symbol", "symbol",
                "symbol"]
        made = {"ir": [0, 1]}
        idx = 2
        for kind in plan:
            cand = made.get(PARENT_KIND[kind], [])
            parent = rng.choice(cand) if cand and rng.random() < 0.85 \
                else None
            if kind == "symbol":
                blocks = made.get("code", []) + made.get("data", []) + \
                    made.get("proxy", [])
                pl = rng.choice([None, ("i", 0), ("b", rng.choice(blocks))])
                ops.append(("mksym", self.fresh_uuid(True), rng.choice([0, 1, 2]),
                            pl, parent))
            else:
                ops.append(("mk", kind, self.fresh_uuid(True), parent, []))
            made.setdefault(kind, []).append(idx)
            idx += 1
        return ops

    def gen_op(self):
        rng, sp = self.rng, self.spec
        if self.pending_seed:
            return self.pending_seed.pop(0)
        r = rng.random()
        if sp.n < 2 or (r < 0.015 and len(self.of_kind(["ir"])) < 3):
            return ("mkir", self.fresh_uuid())
        if r < 0.10 and sp.n < 30:
            kind = rng.choice(["module", "section", "interval", "code",
                               "data", "proxy", "symbol", "code", "interval"])
            parent = None
            if rng.random() < 0.6:
                parent = self.pick([PARENT_KIND[kind]])
            if kind == "symbol":
                return ("mksym", self.fresh_uuid(), rng.choice([0, 1, 2, 3]),
                        self.gen_payload(), parent)
            kids = []
            if kind in CHILD_SLOTS and rng.random() < 0.4:
                for slot in CHILD_SLOTS[kind]:
                    cand = self.of_kind(SLOT_CHILD_KINDS[slot])
                    if cand and rng.random() < 0.6:
                        vs = rng.sample(cand, min(len(cand),
                                                  rng.randrange(1, 3)))
                        kids.append((slot, vs))
            return ("mk", kind, self.fresh_uuid(), parent, kids)
        if r < 0.25:
            c = self.pick(["module", "section", "interval", "code", "data",
                           "proxy", "symbol"])
            if c is None:
                return None
            p = None
            if rng.random() < 0.75:
                p = self.pick([PARENT_KIND[sp.kind[c]]])
            return ("setparent", c, p)
        if r < 0.68:
            # set-wrapper operation
            slot = rng.choice(["secs", "syms", "proxies", "bis", "blocks",
                               "blocks", "bis"])
            pk = {"secs": "module", "syms": "module", "proxies": "module",
                  "bis": "section", "blocks": "interval"}[slot]
            p = self.pick([pk])
            if p is None:
                return None
            cand = self.of_kind(SLOT_CHILD_KINDS[slot])
            if not cand:
                return None
            members = sp.kids(p, slot)
            kind = rng.choice(["add", "add", "discard", "remove", "pop",
                               "clear", "update", "update", "isub", "iand",
                               "ixor"])

            def elem():
                if members and rng.random() < 0.4:
                    return rng.choice(members)
                return rng.choice(cand)
            if kind in ("add", "discard", "remove"):
                return (kind, p, slot, elem())
            if kind == "pop":
                return ("pop?", p, slot)
            if kind == "clear":
                return ("clear", p, slot, None)
            vs = []
            for _ in range(rng.randrange(0, 4)):
                v = elem()
                if v not in vs:
                    vs.append(v)
            if kind == "update":
                how = rng.choice(["update", "update2", "ior"])
                return ("update", p, slot, vs, how)
            return (kind, p, slot, vs)
        if r < 0.9:
            i = self.pick(["ir"])
            mods = self.of_kind(["module"])
            if i is None or not mods:
                return None
            l = sp.mods[i]
            kind = rng.choice(["insert", "append", "extend", "delitem",
                               "lpop", "setitem", "lremove", "reverse",
                               "lclear", "append", "insert", "delslice",
                               "setslice"])

            def m():
                if l and rng.random() < 0.35:
                    return rng.choice(l)
                return rng.choice(mods)

            def pos():
                if rng.random() < 0.15:
                    return rng.choice([-len(l) - 1, len(l), len(l) + 1])
                return rng.randrange(-len(l), len(l)) if l else 0
            if kind == "insert":
                return ("insert", i, pos(), m())
            if kind == "append":
                return ("append", i, m())
            if kind == "extend":
                vs = []
                for _ in range(rng.randrange(0, 3)):
                    v = m()
                    if v not in vs:
                        vs.append(v)
                return ("extend", i, vs, rng.choice(["extend", "iadd"]))
            if kind in ("delitem", "lpop"):
                return (kind, i, pos())
            if kind == "setitem":
                return ("setitem", i, pos(), m())
            if kind == "lremove":
                return ("lremove", i, m())
            if kind in ("delslice", "setslice"):
                def bound():
                    return rng.choice([None, None] + list(
                        range(-len(l) - 1, len(l) + 2)))
                sl = slice(bound(), bound(),
                           rng.choice([None, None, 1, 2, -1]))
                if kind == "delslice":
                    return ("delslice", i, sl)
                idxs = list(range(*sl.indices(len(l))))
                n = len(idxs) if sl.step not in (None, 1) and \
                    rng.random() < 0.85 else rng.randrange(0, 4)
                pool = [x for x in mods if x not in l or l.index(x) in idxs]
                if rng.random() < 0.1:
                    pool = mods          # K1 patterns, rarely
                vs = rng.sample(pool, min(n, len(pool)))
                return ("setslice", i, sl, vs,
                        rng.choice(["list", "tuple", "iter", "gen"]))
            return (kind, i)
        s = self.pick(["symbol"])
        if s is None:
            return None
        if rng.random() < 0.5:
            return ("setname", s, rng.choice([0, 1, 2, 3]))
        return ("setpayload", s, self.gen_payload(),
                rng.choice(["value", "referent"]))

    def gen_payload(self):
        rng = self.rng
        r = rng.random()
        if r < 0.2:
            return None
        if r < 0.4:
            return ("i", rng.choice([0, 0, 5, 2**64 - 1]))
        b = self.pick(["code", "data", "proxy"])
        return None if b is None else ("b", b)

    # ---- one step on all parties
    def step(self):
        """returns False when the history must stop"""
        ctx, rng, sp, im = self.ctx, self.rng, self.spec, self.impl
        if not self.pending_seed and not self.loaded and rng.random() < 0.03:
            return self.load_step()
        op = self.gen_op()
        if op is None:
            return True
        # resolve implementation-reported choices before the spec runs
        pre = None
        if op[0] == "pop?":
            _, p, slot = op
            before = im.snapshot()
            try:
                with core.time_limit(20):
                    exc, extra = im.apply(("pop", p, slot))
            except tuple(EXC_NAMES) as e:
                exc, extra = EXC_NAMES[type(e)], None
            except (Exception, core.ImplTimeout) as e:   # noqa
                exc, extra = "Other:" + type(e).__name__, None
            pre = (before, exc, extra)
            if exc == "KeyError" or not isinstance(extra, int):
                op = ("popempty", p, slot)
            else:
                op = ("pop", p, slot, extra)
        elif op[0] == "clear":
            coll = getattr(im.nodes[op[1]], SLOT_ATTR[op[2]])
            op = ("clear", op[1], op[2], im.ixs(list(coll)))
        elif op[0] == "update" and op[4] == "ior":
            it = set(im.nodes[c] for c in op[3])
            op = ("update", op[1], op[2], im.ixs(list(it)), "ior", it)
        elif op[0] in ("isub", "ixor", "iand"):
            it = set(im.nodes[c] for c in op[3])
            order = im.ixs(list(it))
            if op[0] == "iand":
                coll = getattr(im.nodes[op[1]], SLOT_ATTR[op[2]])
                diff = set(v for v in coll if v not in it)
                op = ("iand", op[1], op[2], order, it, im.ixs(list(diff)))
            else:
                op = (op[0], op[1], op[2], order, it)
        # ---- specification first, on a copy (to test the quantifier)
        trial = sp.copy()
        trial.track = True
        outside = None
        try:
            want_exc = trial.apply(op)
        except Outside as o:
            outside = str(o)
            want_exc = None
        if outside is None and want_exc is None and (
                trial.broke_distinct or not trial.distinct()):
            return True      # outside the property's quantifier: skip the op
        line = op_line(op)
        self.script.append(line)
        if op[0] in ("delslice", "setslice"):
            self.pre_list = list(sp.mods[op[1]])
        if pre is not None:
            before, exc, extra = pre
        else:
            before = im.snapshot()
            try:
                with core.time_limit(20):
                    exc, extra = im.apply(op)
            except tuple(EXC_NAMES) as e:
                exc, extra = EXC_NAMES[type(e)], None
            except (Exception, core.ImplTimeout) as e:   # noqa
                exc, extra = "Other:" + type(e).__name__, None
        ret_ok = True
        if op[0] == "lpop" and exc is None:
            l = sp.mods[op[1]]
            ret_ok = -len(l) <= op[2] < len(l) and extra == l[op[2]]
        try:
            after = im.snapshot()
        except Exception as e:   # noqa
            after = "snapshot-raised:%s:%s" % (type(e).__name__, e)
        ctx.evaluations += 1
        shape = (op[0], op[2] if op[0] in ("add", "discard", "remove", "pop",
                                           "clear", "update", "isub", "iand",
                                           "ixor") else "",
                 exc, before != after)
        ctx.count("op:%s%s" % (op[0], ":" + exc if exc else ""))
        if before != after or exc:
            ctx.nontriv(shape)
        replay = {"script": list(self.script), "impl_after": after}
        if outside is not None:
            # K1 patterns: the specification only demands consistency
            cons = consistent(im)
            # forest / UUID-table damage is C03, C04 and C16's business
            if (cons is not None or exc is not None) and \
                    ctx.prop in ("C03", "C04", "C16"):
                ctx.report({"op": "modules." + ("setitem" if op[0] in (
                    "setitem", "setslice") else op[0]), "feature": outside},
                           dict(replay, inconsistency=cons, exception=exc),
                           "module list %s with a value already elsewhere in "
                           "the list left the IR inconsistent: %s"
                           % (op[0], cons or exc))
            return False
        if want_exc is None:
            sp.apply(op)
            want = sp.snapshot()
        else:
            want = sp.snapshot()
        if op[0] == "popempty":
            ok = (exc == "KeyError") == (want_exc == "KeyError") and \
                after == want
        else:
            ok = exc == want_exc and after == want
        if not ok or not ret_ok:
            which = diff_parts(after, want)
            if exc != want_exc or not ret_ok:
                which.add("C16")
            self.failed_parts = which
            if ctx.prop in which or ctx.prop not in ("C03", "C04", "C10",
                                                     "C16"):
                sig = {"kind": "graph-semantics", "op": op[0]}
                extra = {}
                if self.degraded is not None:
                    extra["earlier_divergence"] = {
                        "step": self.degraded[0], "parts": self.degraded[1]}
                ctx.report(sig, dict(replay, expected=want, exception=exc,
                                     expected_exception=want_exc,
                                     parts=sorted(which), **extra),
                           "after %r the observable state differs from the "
                           "specification in %s (exception %s, expected %s)"
                           % (line, sorted(which), exc, want_exc))
                return False
            # not this property's part of the snapshot: its consequences for
            # this property (a later return value, exception or collection
            # content) are still looked for over the next operations
            if self.degraded is None:
                self.degraded = (len(self.script), sorted(which))
                ctx.count("degraded-history")
            self.degraded_steps += 1
            return self.degraded_steps <= 25
        if self.degraded is not None:
            self.degraded_steps += 1
            return self.degraded_steps <= 25
        if op[0] in ("delslice", "setslice") and exc is None:
            # the model sees the composite as deletions (highest index
            # first) followed by insertions; only the final state is compared
            sub = []
            n0 = len(self.pre_list)
            idxs = list(range(*op[2].indices(n0)))
            for idx in sorted(idxs, reverse=True):
                sub.append("delitem %d %d" % (op[1], idx))
            if op[0] == "setslice":
                if op[2].step in (None, 1):
                    a = op[2].indices(n0)[0]
                    for j, v in enumerate(op[3]):
                        sub.append("insert %d %d %d" % (op[1], a + j, v))
                else:
                    for idx, v in sorted(zip(idxs, op[3])):
                        sub.append("insert %d %d %d" % (op[1], idx, v))
            if not sub:
                return True
            for l in sub[:-1]:
                self.lines.append(l)
                self.impl_out.append(None)
            self.lines.append(sub[-1])
            self.impl_out.append("ok | " + after)
            return True
        self.lines.append(line)
        if op[0] == "popempty":
            self.impl_out.append("KeyError")
        else:
            self.impl_out.append((exc or "ok") + " | " + after)
        return True

    # ---- load as an operation of the history
    def loadable(self, i):
        """is IR i self-contained in the loader's sense (referents in the
        same or an earlier module)?"""
        sp = self.spec
        seen_blocks = set()
        for m in sp.mods[i]:
            seen_blocks |= set(sp.descendants(m, ["code", "data", "proxy"]))
            for y in sp.kids(m, "syms"):
                pl = sp.payload.get(y)
                if pl is not None and pl[0] == "b" and pl[1] not in seen_blocks:
                    return False
        return True

    def load_step(self):
        """save an IR of the universe and load it: the loaded IR joins the
        universe (same UUIDs in another IR); the model and the specification
        see it as the constructor calls that build the same structure."""
        import io
        ctx, sp, im = self.ctx, self.spec, self.impl
        irs = [x for x in self.of_kind(["ir"]) if self.loadable(x)]
        if not irs or sp.n > 24 or self.loaded:
            return True
        i = self.rng.choice(irs)
        self.loaded = True
        g = im.g
        buf = io.BytesIO()
        try:
            with core.time_limit(30):
                im.nodes[i].save_protobuf_file(buf)
                buf.seek(0)
                ir2 = g.IR.load_protobuf_file(buf)
        except (Exception, core.ImplTimeout) as e:   # noqa
            ctx.report({"kind": "load-in-history", "exception":
                        type(e).__name__}, {"script": list(self.script)},
                       "save + load of IR %d inside a history raised %s: %s"
                       % (i, type(e).__name__, str(e)[:80]))
            return False
        self.script.append("load %d" % i)
        ops = register_loaded(sp, im, ir2)
        for op in ops:
            self.lines.append(op_line(op))
            self.impl_out.append(None)
        after = im.snapshot()
        want = sp.snapshot()
        ctx.evaluations += 1
        ctx.count("op:load")
        ctx.nontriv(("load", min(len(ops) // 4, 6)))
        if after != want:
            which = diff_parts(after, want)
            if ctx.prop in which or ctx.prop not in ("C03", "C04", "C10",
                                                     "C16"):
                ctx.report({"kind": "graph-semantics", "op": "load"},
                           {"script": list(self.script), "impl_after": after,
                            "expected": want, "parts": sorted(which)},
                           "after loading a saved IR the observable state "
                           "differs from the specification in %s"
                           % sorted(which))
            return False
        self.impl_out[-1] = "ok | " + after
        return True

    def finish(self, tie):
        tie.add(self.tag, self.lines, self.impl_out)


def diff_parts(a, b):
    """which properties' part of the snapshot differs"""
    out = set()
    ta, tb = a.split(" "), b.split(" ")
    if len(ta) != len(tb):
        return {"C03", "C04", "C10", "C16"}
    mode = None
    for x, y in zip(ta, tb):
        key = x.split("=")[0] if "=" in x else None
        if key in ("uu", "named"):
            mode = key
        elif key is not None or x == ";":
            mode = None
        if x == y:
            continue
        if key == "uu" or (key is None and mode == "uu"):
            out.add("C03")
        elif key in ("named", "refs") or (key is None and mode == "named"):
            out.add("C10")
        elif key in ("name", "pl"):
            out.add("C10")
        else:
            out.add("C04")
            if key in ("mods", "secs", "syms", "prox", "bis", "blk"):
                out.add("C16")
    return out


# questions also put to the Lean model `ForestOps` (driver `forestops`):
# (line, the implementation's answer); flushed by graph_stream
NM_LINES = []
NM_OPS = {"|": "or", "&": "and", "-": "sub", "^": "xor", "r|": "ror",
          "r&": "rand", "r-": "rsub", "r^": "rxor", "<=": "le", "<": "lt",
          ">=": "ge", ">": "gt", "==": "eq", "!=": "ne",
          "isdisjoint": "disjoint"}


def check_nonmutating(hist):
    """C16: non-mutating operations of the owning collections return plain
    values with the mathematically correct contents (vs built-in set / list
    on the same elements) and leave ownership untouched."""
    im, sp, rng = hist.impl, hist.spec, hist.rng
    N = im.nodes
    before = im.snapshot()
    problems = []
    for p in range(sp.n):
        for slot in CHILD_SLOTS.get(sp.kind[p], []):
            coll = getattr(N[p], SLOT_ATTR[slot])
            members = [N[c] for c in sp.kids(p, slot)]
            cand = [N[c] for c in hist.of_kind(SLOT_CHILD_KINDS[slot])]
            other = set(rng.sample(cand, min(len(cand), rng.randrange(0, 4))))
            if slot == "mods":
                ref = list(members)
                try:
                    if list(coll) != ref or len(coll) != len(ref):
                        problems.append("iteration/len of modules of %d" % p)
                    if list(reversed(coll)) != ref[::-1]:
                        problems.append("reversed(modules)")
                    for a, b, c in [(None, None, None), (1, None, None),
                                    (None, -1, None), (None, None, -1),
                                    (0, 5, 2)]:
                        if list(coll[a:b:c]) != ref[a:b:c]:
                            problems.append("modules[%s:%s:%s]" % (a, b, c))
                    for k in range(-len(ref) - 1, len(ref) + 1):
                        try:
                            w = ref[k]
                        except IndexError:
                            w = IndexError
                        try:
                            g = coll[k]
                        except IndexError:
                            g = IndexError
                        if g is not w:
                            problems.append("modules[%d]" % k)
                    l_ids = ",".join(str(c) for c in sp.kids(p, slot)) or "-"
                    for k in range(-len(ref) - 1, len(ref) + 1):
                        try:
                            a = str(im.ix(coll[k]))
                        except IndexError:
                            a = "IndexError"
                        NM_LINES.append(("get %s %d" % (l_ids, k), a))
                    for a_, b_, c_ in [(None, None, None), (1, None, None),
                                       (None, -1, None), (None, None, -1),
                                       (0, 5, 2)]:
                        f = lambda v: "-" if v is None else str(v)   # noqa
                        NM_LINES.append((
                            "slice %s %s %s %s" % (l_ids, f(a_), f(b_), f(c_)),
                            "[" + ",".join(str(im.ix(o))
                                           for o in coll[a_:b_:c_]) + "]"))
                    for x in cand[:4]:
                        try:
                            a = str(coll.index(x))
                        except ValueError:
                            a = "ValueError"
                        NM_LINES.append(("idx %s %d" % (l_ids, im.ix(x)), a))
                        NM_LINES.append(("cnt %s %d" % (l_ids, im.ix(x)),
                                         str(coll.count(x))))
                    for x in cand[:4]:
                        if (x in coll) != (x in ref):
                            problems.append("in modules")
                        if coll.count(x) != ref.count(x):
                            problems.append("modules.count")
                        try:
                            w = ref.index(x)
                        except ValueError:
                            w = ValueError
                        try:
                            g = coll.index(x)
                        except ValueError:
                            g = ValueError
                        if g != w:
                            problems.append("modules.index")
                except Exception as e:   # noqa
                    problems.append("modules raised %s" % type(e).__name__)
                continue
            ref = set(members)
            # an object that can never be a member (a node of another kind,
            # e.g. a section offered to `symbols`): discard is a no-op,
            # remove raises KeyError, `in` is False - as for a built-in set
            wrong = [N[c] for c in range(sp.n)
                     if sp.kind[c] not in SLOT_CHILD_KINDS[slot]
                     and sp.kind[c] != "ir"]
            if wrong:
                wv = rng.choice(wrong)
                try:
                    if wv in coll:
                        problems.append("wrong-kind node reported as member "
                                        "of %s" % slot)
                    coll.discard(wv)
                    try:
                        coll.remove(wv)
                        problems.append("remove of a non-member did not raise")
                    except KeyError:
                        pass
                except Exception as e:   # noqa
                    problems.append("discard/remove of a non-member raised %s"
                                    % type(e).__name__)
            try:
                checks = [
                    ("|", coll | other, ref | other),
                    ("&", coll & other, ref & other),
                    ("-", coll - other, ref - other),
                    ("^", coll ^ other, ref ^ other),
                    ("r|", other | coll, other | ref),
                    ("r&", other & coll, other & ref),
                    ("r-", other - coll, other - ref),
                    ("r^", other ^ coll, other ^ ref),
                ]
                xs_ids = ",".join(str(c) for c in sp.kids(p, slot)) or "-"
                ys_ids = ",".join(str(im.ix(o)) for o in other) or "-"
                for nm, got, want in checks:
                    if set(got) != want or len(got) != len(want):
                        problems.append("%s on %s of %d" % (nm, slot, p))
                    else:
                        # the same question to the Lean model `ForestOps`
                        NM_LINES.append((
                            "nm %s %s %s" % (NM_OPS[nm], xs_ids, ys_ids),
                            "[" + ",".join(str(i) for i in sorted(
                                im.ix(o) for o in got)) + "]"))
                    if isinstance(got, type(coll)):
                        problems.append("%s returned an owning collection"
                                        % nm)
                for nm, got, want in [
                        ("<=", coll <= other, ref <= other),
                        ("<", coll < other, ref < other),
                        (">=", coll >= other, ref >= other),
                        (">", coll > other, ref > other),
                        ("==", coll == other, ref == other),
                        ("==self", coll == ref, True),
                        ("!=", coll != other, ref != other),
                        ("isdisjoint", coll.isdisjoint(other),
                         ref.isdisjoint(other)),
                        # any iterable is a legal argument (the built-in
                        # accepts one-shot iterators); non-members first
                        ("isdisjoint(list)", coll.isdisjoint(
                            sorted(other, key=lambda o: o in ref)),
                         ref.isdisjoint(other)),
                        ("isdisjoint(iter)", coll.isdisjoint(iter(
                            sorted(other, key=lambda o: o in ref))),
                         ref.isdisjoint(other)),
                        ("isdisjoint(gen)", coll.isdisjoint(
                            o for o in sorted(other,
                                              key=lambda o: o in ref)),
                         ref.isdisjoint(other)),
                        ("len", len(coll), len(ref)),
                        ("iter", set(coll) == ref
                         and len(list(coll)) == len(ref), True)]:
                    if got != want:
                        problems.append("%s on %s of %d" % (nm, slot, p))
                    elif nm in NM_OPS:
                        NM_LINES.append((
                            "nm %s %s %s" % (NM_OPS[nm], xs_ids, ys_ids),
                            "1" if got else "0"))
                for x in cand[:4]:
                    if (x in coll) != (x in ref):
                        problems.append("in on %s of %d" % (slot, p))
            except Exception as e:   # noqa
                problems.append("%s of %d raised %s: %s" % (
                    slot, p, type(e).__name__, str(e)[:60]))
    after = im.snapshot()
    if after != before:
        problems.append("a non-mutating operation changed ownership")
    hist.ctx.evaluations += 1
    hist.ctx.count("nonmutating-batch")
    return problems


def consistent(im):
    """two-ended forest consistency + UUID table = scan, on the real
    objects; returns a description of the first inconsistency or None"""
    N = im.nodes
    for x, (o, kd) in enumerate(zip(N, im.kind)):
        if kd == "ir":
            seen = set()
            for m in o.modules:
                if id(m) in seen:
                    return "module %s twice in ir %d" % (im.ix(m), x)
                seen.add(id(m))
                if m.ir is not o:
                    return "module %s in list of ir %d but .ir is %s" % (
                        im.ix(m), x, im.ix(m.ir))
            reach = {}
            for n in [o] + list(o.modules) + list(o.sections) + \
                    list(o.symbols) + list(o.proxy_blocks) + \
                    list(o.byte_intervals) + list(o.byte_blocks):
                reach[n.uuid] = n
            for u in im.uuids:
                uu = uuidlib.UUID(int=u)
                got = o.get_by_uuid(uu)
                if got is not reach.get(uu):
                    return "ir %d get_by_uuid(%d) = %s, scan says %s" % (
                        x, u, im.ix(got), im.ix(reach.get(uu)))
        elif kd == "module":
            if o.ir is not None and not any(m is o for m in o.ir.modules):
                return "module %d has .ir %s but is not in its list" % (
                    x, im.ix(o.ir))
    return None
