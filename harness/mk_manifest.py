"""Writes /verif/MANIFEST.json from the table below (kept here so the manifest
stays valid and consistent). Run after changing what is claimed."""
import json
import os

VERIF = os.path.dirname(os.path.dirname(os.path.abspath(__file__)))

LEVEL_NOTE = (
    "Trusted: Lean 4.33 kernel (axioms propext/Classical.choice/Quot.sound "
    "only, audited each run; no native_decide/bv_decide/sorry); the "
    "hand-written model is tied to /repo by tables regenerated each run and "
    "by a per-step correspondence check against the package built from the "
    "working tree; CPython, intervaltree, sortedcontainers and networkx are "
    "modelled as abstract types, not verified; protobuf's wire format and "
    "its serializer / parser for the GTIRB schema are a Lean model of their "
    "own (model W, round trip proved) compared with both protobuf back ends "
    "on every saved file - its behaviour on corrupted input is not "
    "modelled.")

# id -> (technique, level text, design_ref)
CLAIMED = {
}

NOT_YET = {
}


def check(pid, technique, text, ref):
    obl = json.load(open(os.path.join(VERIF, "lean", "obligations.json")))
    proved = bool(obl.get(pid, {}).get("theorems"))
    if not proved:
        text = ("[theorems for this property are not integrated yet: this "
                "check currently decides it by correspondence + direct oracle "
                "only] " + text)
    return {
        "property_id": pid,
        "quick_cmd": "./check %s --tier quick" % pid,
        "thorough_cmd": "./check %s --tier thorough" % pid,
        "evidence_file": "evidence/%s.json" % pid,
        "replay_cmd_template": "./check %s --replay {path}" % pid,
        "engine": "lean-proof+correspondence",
        "level_claimed": {"category": "proof" if proved else "exploration",
                          "text": text,
                          "design_ref": ref},
        "level_note": LEVEL_NOTE,
        "technique": technique,
    }


def main():
    import manifest_table as T
    man = {
        "version": 1,
        "setup_cmd": "./setup.sh",
        "hooks": {
            "guard": "GTIRB_VERIF",
            "enable": "no source hooks are needed: every check builds the "
                      "gtirb package from /repo's working tree into a "
                      "scratch directory and observes it through the public "
                      "API",
            "baseline_off_cmd": "cd /repo && /venv/bin/python -m pytest -ra "
                                "-q -p no:cacheprovider --timeout=900 "
                                "--continue-on-collection-errors",
            "source_commits": [],
            "add_only": True,
        },
        "engines": [{
            "name": "lean-proof+correspondence",
            "path": "lean/ + harness/",
            "serves_properties": sorted(T.CLAIMED),
            "kind_free_text": "Lean 4 theorems over hand-written executable "
                              "models; models tied to the code by regenerated "
                              "tables and a line-protocol differential "
                              "harness with direct oracles",
        }],
        "checks": [check(pid, *T.CLAIMED[pid]) for pid in sorted(T.CLAIMED)],
        "not_applicable": [{"property_id": p, "reason": r}
                           for p, r in sorted(T.NOT_CLAIMED.items())],
        "notes": T.NOTES,
    }
    with open(os.path.join(VERIF, "MANIFEST.json"), "w") as fh:
        json.dump(man, fh, indent=1)
        fh.write("\n")


if __name__ == "__main__":
    import sys
    sys.path.insert(0, os.path.dirname(os.path.abspath(__file__)))
    main()
