"""Common machinery of ./check: context, Lean driver, audit, evidence,
findings, classification. See DESIGN.md section 3."""
import collections
import fcntl
import hashlib
import json
import os
import random
import re
import shutil
import subprocess
import sys
import tempfile
import time

VERIF = os.path.dirname(os.path.dirname(os.path.abspath(__file__)))
LEAN = os.path.join(VERIF, "lean")
REPO = os.environ.get("VERIF_REPO", "/repo")
DRIVER = os.path.join(LEAN, ".lake", "build", "bin", "driver")
ALLOWED_AXIOMS = {"propext", "Classical.choice", "Quot.sound"}
LEAN_TIMEOUT = int(os.environ.get("VERIF_LEAN_TIMEOUT", "1500"))

TRUSTED_BASE = [
    "Lean 4.33.0 kernel; axioms allowed in property theorems: propext, "
    "Classical.choice, Quot.sound (audited with #print axioms each run); no "
    "native_decide, bv_decide, sorry, admit or own axioms (grep each run)",
    "harness/protoc_lite.py + harness/gen_tables.py (schema/enum/codec/version "
    "tables regenerated from /repo on every run)",
    "the per-step correspondence harness (canonicalisation, generators) and "
    "the direct oracles in harness/props/*.py",
    "modelled, not verified: CPython 3.12 built-ins and collections.abc "
    "mixins, protobuf 7.36.1 wire format, intervaltree 3.2.1, "
    "sortedcontainers 2.4.0, networkx 3.6.1 (abstract types, DESIGN 3.6)",
]


class ImplTimeout(BaseException):
    """The implementation did not return within the per-case time limit."""


class time_limit:
    """with time_limit(5): call the implementation. Raises ImplTimeout (a
    BaseException, so the code under test cannot swallow it by accident)."""

    def __init__(self, seconds):
        self.seconds = seconds

    def _fire(self, signum, frame):
        raise ImplTimeout("no answer within %ss" % self.seconds)

    def __enter__(self):
        import signal
        self.old = signal.signal(signal.SIGALRM, self._fire)
        signal.setitimer(signal.ITIMER_REAL, self.seconds)

    def __exit__(self, *a):
        import signal
        signal.setitimer(signal.ITIMER_REAL, 0)
        signal.signal(signal.SIGALRM, self.old)
        return False


class HarnessError(Exception):
    """Tool trouble: exit 2, never a VIOLATION."""


class Violation(Exception):
    pass


def log(*a):
    print(*a, file=sys.stderr, flush=True)


# --------------------------------------------------------------------------
# Lean build / audit

def _run(cmd, cwd=None, timeout=LEAN_TIMEOUT, env=None):
    try:
        p = subprocess.run(cmd, cwd=cwd, timeout=timeout, env=env,
                           stdout=subprocess.PIPE, stderr=subprocess.STDOUT,
                           text=True)
    except subprocess.TimeoutExpired:
        raise HarnessError("timeout: %s" % " ".join(cmd))
    return p.returncode, p.stdout


def lake_build(targets):
    """Build the given lake targets under a lock. Returns (ok, log)."""
    lock = open(os.path.join(LEAN, ".lake.lock"), "w")
    fcntl.flock(lock, fcntl.LOCK_EX)
    try:
        rc, out = _run(["lake", "build"] + list(targets), cwd=LEAN)
    finally:
        fcntl.flock(lock, fcntl.LOCK_UN)
        lock.close()
    return rc == 0, out


FORBIDDEN = re.compile(
    r"\bsorry\b|\badmit\b|^axiom\s|native_decide|bv_decide|implemented_by|"
    r"\bunsafe\s|maxHeartbeats\s+0\b", re.M)


def _strip_lean_comments(text):
    # nested block comments
    out, depth, i = [], 0, 0
    while i < len(text):
        if text.startswith("/-", i):
            depth += 1
            i += 2
        elif depth and text.startswith("-/", i):
            depth -= 1
            i += 2
        elif depth:
            if text[i] == "\n":
                out.append("\n")
            i += 1
        elif text.startswith("--", i):
            j = text.find("\n", i)
            i = len(text) if j < 0 else j
        else:
            out.append(text[i])
            i += 1
    return "".join(out)


def grep_forbidden():
    hits = []
    for root in ("GtirbModel", "GtirbProofs", "Driver"):
        for dp, _, fns in os.walk(os.path.join(LEAN, root)):
            for fn in fns:
                if not fn.endswith(".lean"):
                    continue
                path = os.path.join(dp, fn)
                body = _strip_lean_comments(open(path).read())
                # string literals may mention words; none of ours do
                for m in FORBIDDEN.finditer(body):
                    line = body.count("\n", 0, m.start()) + 1
                    hits.append("%s:%d:%s" % (os.path.relpath(path, LEAN),
                                              line, m.group(0).strip()))
    return hits


def load_obligations():
    with open(os.path.join(LEAN, "obligations.json")) as fh:
        return json.load(fh)


def audit_axioms(theorems, imports):
    """#print axioms on each theorem. Returns {thm: [axioms]} ; a missing
    theorem maps to None."""
    if not theorems:
        return {}, ""
    src = "".join("import %s\n" % m for m in imports)
    for t in theorems:
        src += "#print axioms %s\n" % t
    d = tempfile.mkdtemp(prefix="verif-audit-")
    try:
        path = os.path.join(d, "Audit.lean")
        with open(path, "w") as fh:
            fh.write(src)
        rc, out = _run(["lake", "env", "lean", path], cwd=LEAN, timeout=600)
    finally:
        shutil.rmtree(d, ignore_errors=True)
    res = {}
    for t in theorems:
        m = re.search(r"'%s' depends on axioms: \[([^\]]*)\]" % re.escape(t),
                      out)
        if m:
            res[t] = [a.strip() for a in m.group(1).replace("\n", " ")
                      .split(",") if a.strip()]
        elif re.search(r"'%s' does not depend on any axioms" % re.escape(t),
                       out):
            res[t] = []
        else:
            res[t] = None
    return res, out


# --------------------------------------------------------------------------
# Lean driver

class LeanDriver:
    """One driver process for one model; `ask` is synchronous per line,
    `batch` sends many lines and reads as many answers."""

    def __init__(self, model):
        if not os.path.exists(DRIVER):
            raise HarnessError("driver not built: " + DRIVER)
        self.model = model
        self.p = subprocess.Popen([DRIVER], stdin=subprocess.PIPE,
                                  stdout=subprocess.PIPE, text=True,
                                  bufsize=1)
        self.p.stdin.write("model %s\n" % model)
        self.p.stdin.flush()
        self.lines = 0

    def ask(self, line):
        assert "\n" not in line
        self.p.stdin.write(line + "\n")
        self.p.stdin.flush()
        out = self.p.stdout.readline()
        if not out:
            raise HarnessError("lean driver (%s) died on: %s"
                               % (self.model, line[:200]))
        self.lines += 1
        return out.rstrip("\n")

    def close(self):
        try:
            self.p.stdin.close()
            self.p.wait(timeout=30)
        except Exception:
            self.p.kill()


def lean_batch(model, lines):
    """Run a whole stream through a fresh driver; returns output lines."""
    if not os.path.exists(DRIVER):
        raise HarnessError("driver not built: " + DRIVER)
    data = "model %s\n" % model + "".join(l + "\n" for l in lines)
    try:
        p = subprocess.run([DRIVER], input=data, stdout=subprocess.PIPE,
                           text=True, timeout=LEAN_TIMEOUT)
    except subprocess.TimeoutExpired:
        raise HarnessError("lean driver timeout (%s)" % model)
    out = p.stdout.split("\n")
    if out and out[-1] == "":
        out.pop()
    if p.returncode != 0 or len(out) != len(lines):
        raise HarnessError("lean driver (%s): rc=%s, %d answers for %d lines"
                           % (model, p.returncode, len(out), len(lines)))
    return out


# --------------------------------------------------------------------------
# Findings

class Findings:
    def __init__(self):
        path = os.path.join(VERIF, "known_findings.json")
        with open(path) as fh:
            data = json.load(fh)
        self.known = data.get("known", [])
        self.fixed = data.get("fixed", [])

    def match(self, prop, signature):
        """signature: dict describing the failing input. A known entry
        matches if it lists this property and every key of its `match` dict
        equals the signature's value."""
        for k in self.known:
            if prop not in k["properties"]:
                continue
            if all(signature.get(a) == b for a, b in k["match"].items()):
                return k
        return None


# --------------------------------------------------------------------------
# Context handed to a property module

class Ctx:
    def __init__(self, prop, tier, seed, pkg_dir):
        self.prop = prop
        self.tier = tier
        self.seed = seed
        self.rng = random.Random(seed)
        self.pkg_dir = pkg_dir
        self.t0 = time.time()
        self.findings = Findings()
        self.violations = []          # (replay_path, text)
        self.known_hits = collections.OrderedDict()   # id -> what
        self.evaluations = 0
        self.nontrivial = set()
        self.samples = []
        self.hist = collections.Counter()
        self.extra = {}
        self.traces = 0
        self.exhaustive = False
        self.rule = ""
        self.assumptions = []
        self.tie_broken = []          # descriptions of broken obligations

    def thorough(self):
        return self.tier == "thorough"

    def scale(self, quick, thorough):
        return thorough if self.thorough() else quick

    def count(self, key, n=1):
        self.hist[key] += n

    def nontriv(self, key):
        self.nontrivial.add(key)

    def sample(self, obj, limit=6):
        if len(self.samples) < limit:
            self.samples.append(obj)

    # -- reporting ---------------------------------------------------------
    def replay_path(self, tag):
        d = os.path.join(VERIF, "replays")
        os.makedirs(d, exist_ok=True)
        h = hashlib.sha1(tag.encode()).hexdigest()[:10]
        return os.path.join(d, "%s-%s-%s.json" % (self.prop, self.seed, h))

    def report(self, signature, replay, what):
        """A direct-oracle failure (or a model/impl disagreement with a
        failing input). signature: dict for known-findings matching."""
        k = self.findings.match(self.prop, signature)
        if k is not None:
            if k["id"] not in self.known_hits:
                self.known_hits[k["id"]] = k["what"]
            return False
        self.extra["oracle_failures"] = self.extra.get("oracle_failures", 0) + 1
        if len(self.violations) >= 5:
            return True      # enough replays written; the rest are counted
        tag = json.dumps(signature, sort_keys=True) + what
        path = self.replay_path(tag)
        with open(path, "w") as fh:
            json.dump({"property": self.prop, "seed": self.seed,
                       "tier": self.tier, "signature": signature,
                       "what": what, "replay": replay}, fh, indent=1,
                      default=str)
        if not any(v[0] == path for v in self.violations):
            self.violations.append((path, what, False))
        return True

    def report_no_input(self, what, names):
        """Tie broken, no failing input found."""
        path = self.replay_path("noinput" + what)
        with open(path, "w") as fh:
            json.dump({"property": self.prop, "seed": self.seed,
                       "tier": self.tier, "what": what,
                       "no_longer_checks": names,
                       "note": "no-failing-input-found"}, fh, indent=1)
        self.violations.append((path, what, True))


def write_evidence(ctx, obligations, discharged, checker_cmd, level="proof"):
    cov = {
        "obligations": len(obligations),
        "discharged": discharged,
        "checker_cmd": checker_cmd,
        "trusted_base": TRUSTED_BASE,
        "obligation_names": obligations,
        "evaluations": ctx.evaluations,
        "distinct_nontrivial": len(ctx.nontrivial),
        "rule": ctx.rule,
        "samples": ctx.samples or ["(no generated cases in this run)"],
        "traces_validated_against_impl": ctx.traces,
        "exhaustive": ctx.exhaustive,
        "histogram": dict(sorted(ctx.hist.items())),
        "known_findings_seen": list(ctx.known_hits),
    }
    cov.update(ctx.extra)
    ev = {
        "property_id": ctx.prop,
        "tier": ctx.tier,
        "seed": ctx.seed,
        "level": level,
        "coverage": cov,
        "assumptions": ctx.assumptions,
        "wall_s": round(time.time() - ctx.t0, 2),
        "violations": len(ctx.violations),
    }
    d = os.path.join(VERIF, "evidence")
    os.makedirs(d, exist_ok=True)
    tmp = os.path.join(d, ".%s.json.tmp" % ctx.prop)
    with open(tmp, "w") as fh:
        json.dump(ev, fh, indent=1, default=str)
    os.replace(tmp, os.path.join(d, "%s.json" % ctx.prop))


class BatchTie:
    """Collects (script lines, implementation observations) of many histories
    and runs them through one Lean driver process; every history must start
    with a line that resets the model's state."""

    def __init__(self, ctx, model, name, skip=None, flush_at=400,
                 skip_line=None):
        self.ctx, self.model, self.name = ctx, model, name
        self.skip = skip
        # skip_line(line, impl, lean): a difference on this line is one the
        # property allows (its direct oracle has already judged the
        # implementation's answer); counted, not a broken tie
        self.skip_line = skip_line
        self.flush_at = flush_at
        self.pending = []

    def add(self, tag, lines, impl):
        assert len(lines) == len(impl)
        self.pending.append((tag, list(lines), list(impl)))
        if len(self.pending) >= self.flush_at:
            self.flush()

    def flush(self):
        if not self.pending:
            return
        all_lines = [l for _, ls, _ in self.pending for l in ls]
        out = lean_batch(self.model, all_lines)
        pos = 0
        for tag, ls, impl in self.pending:
            got = out[pos:pos + len(ls)]
            pos += len(ls)
            ok = True
            for i, (a, b) in enumerate(zip(impl, got)):
                if a is None:
                    continue      # intermediate line of a composite operation
                if a != b and self.skip_line and self.skip_line(ls[i], a, b):
                    self.ctx.count("tie:%s:legal-difference" % self.name)
                    continue
                if a != b and not (self.skip and self.skip(a, b)):
                    if os.environ.get("VERIF_DEBUG"):
                        log("DEBUG mismatch in", tag)
                        for j in range(len(ls)):
                            log("  line", j, ls[j])
                            log("   impl", impl[j])
                            log("   lean", got[j])
                    self.ctx.tie_broken.append(
                        "correspondence:%s %s line %d %r impl=%s lean=%s"
                        % (self.name, tag, i, ls[i][:80], a[:100], b[:100]))
                    ok = False
                    break
            if ok:
                self.ctx.traces += len(ls)
        self.pending = []
