"""Fault enumeration for C17 (the loader either rejects a file or returns a
coherent IR) and the fault half of C09 (a dangling or ill-typed reference is
rejected with DeserializationError).

On saved files of small generated IRs: every truncation at every cut point,
single-bit / single-byte corruptions (all of the header, a sample or all of
the body), header variations, and every single structural fault at message
level: each reference re-pointed to a missing UUID and to every kind of wrong
node, UUID of node j overwritten with the UUID of node i for ordered pairs,
an unknown enum number in each enum field, a wrong-length UUID in each UUID
field, a missing one-of, a wrong version field.

Outcome classes are compared with the model (`fromMsg` on the dump of the
parsed message, when protobuf can parse it); every accepted file's IR is
checked for coherence on the real objects and saved again."""
import io
import uuid as uuidlib

import core
import irdump
import irgen
import msg_stream as ms


def coherence_problem(gtirb, ir):
    """C03 + C04 + typed references + stored bytes <= size on the real
    objects of a loaded IR; returns a description or None."""
    seen_mod = set()
    for m in ir.modules:
        if id(m) in seen_mod:
            return "module twice in ir.modules"
        seen_mod.add(id(m))
        if m.ir is not ir:
            return "module in ir.modules whose .ir is not the IR"
        for coll, attr in ((m.sections, "module"), (m.symbols, "module"),
                           (m.proxies, "module")):
            for c in coll:
                if getattr(c, attr) is not m:
                    return "%s in a module's collection with another parent"\
                        % type(c).__name__
        for s in m.sections:
            for x in s.byte_intervals:
                if x.section is not s:
                    return "interval in a section with another parent"
                if len(x.contents) > x.size:
                    return "interval stores %d bytes, size %d" % (
                        len(x.contents), x.size)
                for b in x.blocks:
                    if b.byte_interval is not x:
                        return "block in an interval with another parent"
                for k, e in x.symbolic_expressions.items():
                    for sy in e.symbols:
                        if not isinstance(sy, gtirb.Symbol):
                            return "expression symbol is %s" % type(
                                sy).__name__
        if m.entry_point is not None and not isinstance(m.entry_point,
                                                        gtirb.CodeBlock):
            return "entry point is %s" % type(m.entry_point).__name__
        for sy in m.symbols:
            if sy.referent is not None and not isinstance(sy.referent,
                                                          gtirb.Block):
                return "symbol referent is %s" % type(sy.referent).__name__
    for e in ir.cfg:
        for n in (e.source, e.target):
            if not isinstance(n, gtirb.CfgNode):
                return "CFG endpoint is %s" % type(n).__name__
    # UUID table, in the form that is meaningful without distinctness
    attached = [ir] + list(ir.modules) + list(ir.sections) + \
        list(ir.symbols) + list(ir.proxy_blocks) + list(ir.byte_intervals) + \
        list(ir.byte_blocks)
    ids = set()
    for n in attached:
        if id(n) in ids:
            return "%s reachable twice through containment" % type(
                n).__name__
        ids.add(id(n))
        got = ir.get_by_uuid(n.uuid)
        if got is None:
            return "attached %s has no UUID-table entry" % type(n).__name__
        if got.uuid != n.uuid or id(got) not in ids and got is not n and \
                not any(got is a for a in attached):
            return "UUID-table entry for %s names a detached/other node" % \
                n.uuid
    by_uuid = {}
    for n in attached:
        by_uuid.setdefault(n.uuid, []).append(n)
    for u, ns in by_uuid.items():
        if len(ns) == 1 and ir.get_by_uuid(u) is not ns[0]:
            return "get_by_uuid(%s) is not the attached node" % u
    return None


_n = [0]


def load_outcome(gtirb, raw, limit=20):
    _n[0] += 1
    try:
        if _n[0] % 5 == 0:      # the path-based entry point, on a real file
            path = ms._scratch_path()
            with open(path, "wb") as fh:
                fh.write(raw)
            with core.time_limit(limit):
                ir = gtirb.IR.load_protobuf(path)
        else:
            with core.time_limit(limit):
                ir = gtirb.IR.load_protobuf_file(io.BytesIO(raw))
        return "ok", ir, None
    except core.ImplTimeout:
        return "hang", None, "no answer within %ds" % limit
    except Exception as e:   # noqa
        return ms.exc_class(gtirb, e), None, "%s: %s" % (type(e).__name__,
                                                          str(e)[:80])
    except BaseException as e:   # noqa  (SystemExit, RecursionError is Exception)
        return "exc:" + type(e).__name__, None, str(e)[:80]


def check_accepted(ctx, gtirb, ir, replay, what, fclass=""):
    try:
        with core.time_limit(60):
            prob = coherence_problem(gtirb, ir)
    except (Exception, core.ImplTimeout) as e:   # noqa
        prob = "inspecting the returned IR raised %s: %s" % (
            type(e).__name__, str(e)[:80])
    if prob is None:
        # files with a duplicated UUID are C17's quantifier, not C09's (the
        # loader lets one duplicate through: a block and its own interval)
        prob_id = ms.identity_problems(gtirb, ir) if ctx.prop == "C09" \
            and fclass != "duplicate-uuid" else None
        if prob_id:
            ctx.report({"kind": "reference-identity"}, replay, prob_id)
            return False
        try:
            ms.save(ir)
        except (Exception, core.ImplTimeout) as e:   # noqa
            prob = "cannot be saved again: %s" % type(e).__name__
    if prob and ctx.prop == "C17":
        ctx.report({"kind": "incoherent-ir-returned", "fault": what},
                   replay, "load accepted a %s file and returned an IR that "
                   "is not coherent: %s" % (what, prob))
        return False
    return prob is None


def uuid_fields(msg):
    """(description, getter, setter, role) for every bytes field holding a
    UUID: role 'node' (defines a node) or a reference kind."""
    out = []

    def f(desc, obj, attr, role):
        out.append((desc, obj, attr, role))
    f("ir.uuid", msg, "uuid", "node")
    for mi, m in enumerate(msg.modules):
        f("module%d.uuid" % mi, m, "uuid", "node")
        if m.entry_point:
            f("module%d.entry_point" % mi, m, "entry_point", "entry")
        for p in m.proxies:
            f("proxy.uuid", p, "uuid", "node")
        for s in m.sections:
            f("section.uuid", s, "uuid", "node")
            for x in s.byte_intervals:
                f("interval.uuid", x, "uuid", "node")
                for b in x.blocks:
                    w = b.WhichOneof("value")
                    if w:
                        f("block.uuid", getattr(b, w), "uuid", "node")
                for k in sorted(x.symbolic_expressions):   # map order differs between copies
                    e = x.symbolic_expressions[k]
                    w = e.WhichOneof("value")
                    if w == "addr_const":
                        f("expr.symbol", e.addr_const, "symbol_uuid", "expr")
                    elif w == "addr_addr":
                        f("expr.symbol1", e.addr_addr, "symbol1_uuid", "expr")
                        f("expr.symbol2", e.addr_addr, "symbol2_uuid", "expr")
        for sy in m.symbols:
            f("symbol.uuid", sy, "uuid", "node")
            if sy.WhichOneof("optional_payload") == "referent_uuid":
                f("symbol.referent", sy, "referent_uuid", "referent")
    for e in msg.cfg.edges:
        f("edge.source", e, "source_uuid", "edge")
        f("edge.target", e, "target_uuid", "edge")
    return out


def node_uuids_by_kind(msg):
    kinds = {"ir": [bytes(msg.uuid)], "module": [], "proxy": [],
             "section": [], "interval": [], "code": [], "data": [],
             "symbol": []}
    for m in msg.modules:
        kinds["module"].append(bytes(m.uuid))
        kinds["proxy"] += [bytes(p.uuid) for p in m.proxies]
        for s in m.sections:
            kinds["section"].append(bytes(s.uuid))
            for x in s.byte_intervals:
                kinds["interval"].append(bytes(x.uuid))
                for b in x.blocks:
                    w = b.WhichOneof("value")
                    if w:
                        kinds[w].append(bytes(getattr(b, w).uuid))
        kinds["symbol"] += [bytes(sy.uuid) for sy in m.symbols]
    return kinds


ALLOWED = {"entry": {"code"}, "referent": {"code", "data", "proxy"},
           "expr": {"symbol"}, "edge": {"code", "proxy"}}


def clone(msg):
    c = type(msg)()
    c.CopyFrom(msg)
    return c


def structural_faults(gtirb, msg, rng, full):
    """yields (description, fault class, mutated message)"""
    fields = uuid_fields(msg)
    kinds = node_uuids_by_kind(msg)
    # 1. references re-pointed
    for i, (desc, _, attr, role) in enumerate(fields):
        if role == "node":
            continue
        cands = [("missing", rng.getrandbits(128).to_bytes(16, "big"))]
        present = set(u for us in kinds.values() for u in us)
        for nm, u in (("missing-nil", bytes(16)),
                      ("missing-ones", b"\xff" * 16)):
            if u not in present:
                cands.append((nm, u))
        for k, us in kinds.items():
            if k not in ALLOWED[role] and us:
                cands.append(("wrong-kind:" + k, rng.choice(us)))
        for what, u in cands:
            c = clone(msg)
            setattr(uuid_fields(c)[i][1], attr, u)
            yield ("%s -> %s" % (desc, what), "bad-reference", c)
    # 2. wrong-length UUID in each UUID field
    for i, (desc, _, attr, role) in enumerate(fields):
        if not full and rng.random() < 0.6:
            continue
        for bad in (b"", b"\x01" * 15, b"\x01" * 17):
            if role == "entry" and bad == b"":
                continue      # empty entry_point = no entry point
            c = clone(msg)
            setattr(uuid_fields(c)[i][1], attr, bad)
            yield ("%s length %d" % (desc, len(bad)), "bad-uuid-length", c)
    # 3. duplicated UUIDs: node j gets the UUID of node i
    nodes = [i for i, f in enumerate(fields) if f[3] == "node"]
    pairs = [(a, b) for a in nodes for b in nodes if a != b]
    if not full and len(pairs) > 40:
        pairs = rng.sample(pairs, 40)
    for a, b in pairs:
        c = clone(msg)
        fa = uuid_fields(c)
        setattr(fa[b][1], fa[b][2], bytes(getattr(fa[a][1], fa[a][2])))
        yield ("%s := uuid of %s" % (fields[b][0], fields[a][0]),
               "duplicate-uuid", c)
    # 4. unknown enum numbers
    def enum_sites(c):
        for m in c.modules:
            yield (m, "isa"), (m, "file_format"), (m, "byte_order")
            for s in m.sections:
                if len(s.section_flags):
                    yield ((s.section_flags, 0),)
                for x in s.byte_intervals:
                    for b in x.blocks:
                        if b.WhichOneof("value") == "code":
                            yield ((b.code, "decode_mode"),)
        for e in c.cfg.edges:
            if e.HasField("label"):
                yield ((e.label, "type"),)
    n_sites = sum(len(t) for t in enum_sites(msg))
    for idx in range(n_sites):
        c = clone(msg)
        flat = [x for t in enum_sites(c) for x in t]
        obj, attr = flat[idx]
        if isinstance(attr, int):
            obj[attr] = 77
        else:
            setattr(obj, attr, 77)
        yield ("enum site %d := 77" % idx, "unknown-enum", c)
    # 5. missing one-of, wrong version field, contents longer than size
    c = clone(msg)
    done = False
    for m in c.modules:
        for s in m.sections:
            for x in s.byte_intervals:
                for b in x.blocks:
                    if not done and b.WhichOneof("value"):
                        b.ClearField(b.WhichOneof("value"))
                        done = True
    if done:
        yield ("block one-of cleared", "missing-oneof", c)
    c = clone(msg)
    c.version = msg.version + 1
    yield ("version field + 1", "version-field", c)
    c = clone(msg)
    c.version = 0
    yield ("version field 0", "version-field", c)
    for m in msg.modules:
        for si, s in enumerate(m.sections):
            for xi, x in enumerate(s.byte_intervals):
                c = clone(msg)
                tgt = c.modules[list(msg.modules).index(m)].sections[
                    si].byte_intervals[xi]
                tgt.contents = bytes(tgt.size + 1) if tgt.size < 64 else \
                    tgt.contents
                if len(tgt.contents) > tgt.size:
                    yield ("contents longer than size", "contents>size", c)
                    break


def run(ctx):
    import gtirb
    import gtirb.version
    ctx.rule = ("saved files of small generated IRs: every truncation, "
                "single-bit and single-byte corruptions (header: all; body: "
                "sampled in quick, all in thorough), header variations, and "
                "every single structural fault (each reference re-pointed "
                "to a missing UUID and to each wrong kind of node, wrong-"
                "length UUIDs, UUID duplication over ordered node pairs, "
                "unknown enum numbers, missing one-of, version field, "
                "contents longer than size); non-trivial = distinct (fault "
                "class, outcome class)")
    rng = ctx.rng
    ver = gtirb.version.PROTOBUF_VERSION
    hdr = b"GTIRB\0\0" + bytes([ver])
    tie = ms.CheckedTie(ctx, "msg", "msg", flush_at=200)
    wire = None
    if ctx.prop == "C17":       # model W on faulty files (see pbwire_tie.py)
        import pbwire_tie
        wire = pbwire_tie.WireTie(ctx, gtirb, flush_at=150)
    n_files = ctx.scale(6, 40)
    for fno in range(n_files):
        gen = irgen.Gen(gtirb, rng, rng.choice([0.4, 0.8]))
        if fno % 3 == 2:
            ir0 = gen.build()
        else:
            # every node kind and every reference kind present: each
            # (reference role, wrong kind) fault is injected in this file
            ir0 = irgen.build_rich(gtirb, rng, gen.size)
        ctx.count("rich-ir" if irgen.is_rich(gtirb, ir0) else "plain-ir")
        if fno % 2 == 0:
            ms.add_aux(gen, gtirb, rng, ir0)
        raw = ms.save(ir0)
        msg = ms.canonical_order(ms.parse_file(gtirb, raw))
        raw = raw[:8] + msg.SerializeToString()

        def case(what, fclass, data, mmsg=None):
            """one faulty file"""
            out, ir, detail = load_outcome(gtirb, data)
            ctx.evaluations += 1
            ctx.count("%s:%s" % (fclass, out))
            ctx.nontriv((fclass, out))
            replay = {"file_no": fno, "fault": what, "file_hex":
                      data.hex()[:6000], "outcome": out, "detail": detail}
            if out == "hang":
                if ctx.prop == "C17":
                    ctx.report({"kind": "hang", "fault": fclass}, replay,
                               "load did not return on a %s file" % what)
                return
            if fclass == "bad-reference" and out != "err:deser" and \
                    ctx.prop == "C09":
                ctx.report({"kind": "bad-reference-not-rejected"}, replay,
                           "a file with reference fault %r was not rejected "
                           "with DeserializationError (%s)" % (what, out))
                return
            if ir is not None:
                if not check_accepted(ctx, gtirb, ir, replay, what, fclass):
                    return
            # specific exception types the properties name
            if fclass in ("magic", "version-byte", "version-field") and \
                    out != "err:value" and ctx.prop == "C17":
                ctx.report({"kind": "header-not-rejected", "fault": fclass},
                           replay, "a file with a wrong %s was not rejected "
                           "with ValueError (%s)" % (fclass, out))
                return
            if wire is not None and mmsg is not None and len(data) >= 8:
                wire.add("file %d %s" % (fno, what), mmsg, data[8:],
                         strict=(fclass == "none"))
            elif wire is not None and len(data) >= 8:
                wire.add_raw("file %d %s" % (fno, what), data[8:])
            if wire is not None and mmsg is None and ir is None:
                wire.add_faulty_file("file %d %s" % (fno, what), data, out)
            # model comparison on the message level
            if mmsg is not None:
                M = irdump.dump_mir(mmsg)
                if ir is not None:
                    try:
                        V = irdump.dump_irv(gtirb, ir, ms.msg_aux_bytes(
                            gtirb, mmsg, ir))
                        obs = "ok " + " ".join(V)
                    except Exception as e:   # noqa (ill-typed IR: judged
                        obs = "ok ?dump-raised:" + type(e).__name__   # above)
                else:
                    obs = out
                if wire is not None:    # the whole-file model loader
                    wire.add_faulty_file("file %d %s" % (fno, what), data,
                                         obs)

                def cb(i, line, a, b, fclass=fclass):
                    # duplicates are outside the value-level reader; with
                    # several faults the first error may differ; a corrupted
                    # file can parse to a message outside the model's
                    # notation (e.g. a negative enum number): `bad-op`
                    if b == "bad-op" and fclass in ("bitflip", "byteflip"):
                        return True
                    if ms.is_rejection(a) and ms.is_rejection(b):
                        return True     # rejected by both (class: see there)
                    return b == "err:dup" or fclass == "duplicate-uuid"
                tie.add_checked("file %d %s" % (fno, what),
                                ["frommsg " + " ".join(M)], [obs], cb)

        # --- the unmodified file must load
        case("unmodified", "none", raw, msg)
        # --- truncations at every cut point
        cuts = range(len(raw)) if ctx.thorough() or len(raw) < 400 else \
            sorted(set(list(range(0, 40)) + rng.sample(range(len(raw)), 200)))
        for cut in cuts:
            case("truncation at %d" % cut, "truncation", raw[:cut])
        # --- header
        for i in range(5):
            for bit in range(8):
                d = bytearray(raw)
                d[i] ^= 1 << bit
                case("magic byte %d bit %d" % (i, bit), "magic", bytes(d))
        for i in (5, 6):
            for v in (1, 255, rng.randrange(256)):
                d = bytearray(raw)
                d[i] = v
                case("reserved byte %d := %d" % (i, v), "reserved", bytes(d))
        for v in [x for x in range(256) if x != ver][::(1 if ctx.thorough()
                                                       else 9)]:
            d = bytearray(raw)
            d[7] = v
            case("version byte := %d" % v, "version-byte", bytes(d))
        # the header missing altogether or in part: the body alone is a
        # well-formed protobuf message, the file is not a GTIRB file
        case("header removed", "magic", raw[8:])
        for k in (1, 5, 7):
            case("first %d header bytes removed" % k, "magic", raw[k:])
        case("header twice", "none-or-reject", raw[:8] + raw)
        case("empty file", "magic", b"")
        case("magic only", "version-byte", b"GTIRB")
        case("lower-case magic", "magic", b"gtirb" + raw[5:])
        # --- body corruption
        body = range(8, len(raw))
        positions = body if ctx.thorough() else rng.sample(
            list(body), min(len(raw) - 8, 120))
        for pos in positions:
            d = bytearray(raw)
            d[pos] ^= 1 << rng.randrange(8)
            case("bit flip at %d" % pos, "bitflip", bytes(d),
                 try_parse(gtirb, bytes(d)))
            d = bytearray(raw)
            d[pos] = rng.choice([0, 255, rng.randrange(256)])
            case("byte at %d overwritten" % pos, "byteflip", bytes(d),
                 try_parse(gtirb, bytes(d)))
        # --- structural faults
        for what, fclass, m2 in structural_faults(gtirb, msg, rng,
                                                  ctx.thorough()):
            case(what, fclass, hdr + m2.SerializeToString(), m2)
        if len(ctx.violations) >= 3:
            break
    tie.flush()
    if wire is not None:
        wire.flush()


def try_parse(gtirb, raw):
    from gtirb.proto import IR_pb2
    if raw[:5] != b"GTIRB":
        return None
    m = IR_pb2.IR()
    try:
        m.ParseFromString(raw[8:])
    except Exception:   # noqa
        return None
    return m
