"""What MANIFEST.json claims. id -> (technique, level text, DESIGN.md ref)."""
NOTES = ("Every check rebuilds the gtirb package from /repo's working tree "
         "(the pinned pytest suite imports site-packages, not /repo). See "
         "DESIGN.md. known_findings.json lists recorded defects and fix: "
         "commits.")

CLAIMED = {
 "C15": ("Lean 4 proof (parser = grammar, both directions) + exhaustive/"
         "random correspondence of model, code and reference parser",
         "Theorems over the model of _parse_type: every grammatical name "
         "parses to its tree and every accepted string is the rendering of "
         "the returned tree; tied to the code by an exhaustive small-scope "
         "and random differential run with exception types compared.",
         "5 C15"),
}

_PENDING = "check not built yet in this session (work in progress; see DESIGN.md section 8)"
NOT_CLAIMED = {p: _PENDING for p in
               ["C%02d" % i for i in range(1, 20)] if p not in CLAIMED}
