"""What MANIFEST.json claims. id -> (technique, level text, DESIGN.md ref)."""
NOTES = ("Every check rebuilds the gtirb package from /repo's working tree "
         "(the pinned pytest suite imports site-packages, not /repo). See "
         "DESIGN.md. known_findings.json lists recorded defects and fix: "
         "commits.")

CLAIMED = {
 "C15": ("Lean 4 proof (parser = grammar, both directions) + exhaustive/"
         "random correspondence of model, code and reference parser",
         "Theorems over the model of _parse_type: every grammatical name "
         "parses to its tree and every accepted string is the rendering of "
         "the returned tree; tied to the code by an exhaustive small-scope "
         "and random differential run with exception types compared.",
         "5 C15"),

 "C07": ("Lean 4 proof by mutual structural induction (decode (encode v ++ rest) = (v, rest)) + "
         "type-directed differential run of model, code and format encoder",
         "C07_roundtrip is proved for every type tree and every value of the type's value set "
         "(hasType, evaluated by the driver on every generated case), with exact consumption "
         "(the rest is returned untouched) and UUID/Offset resolution lemmas; the model's "
         "encode/decode are compared with serialization.py byte for byte and value for value "
         "on boundary tables, all small type trees and random deep types.",
         "5 C07"),
 "C08": ("Lean 4 characterisation lemmas of the documented wire format + table theorem over "
         "the regenerated codec table + byte-for-byte differential run",
         "The format definition is the Lean encoder (transcribed from AuxData.hpp); one lemma "
         "per clause of the property; the codec table regenerated from the source must equal "
         "the expected one (rfl) and agree with the model's heads (decide); every generated "
         "case is compared byte for byte, and bytes in a foreign element order are decoded by "
         "the implementation.",
         "5 C08"),
}

_PENDING = "check not built yet in this session (work in progress; see DESIGN.md section 8)"
NOT_CLAIMED = {p: _PENDING for p in
               ["C%02d" % i for i in range(1, 20)] if p not in CLAIMED}
