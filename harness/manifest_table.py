"""What MANIFEST.json claims. id -> (technique, level text, DESIGN.md ref)."""
NOTES = ("Every check rebuilds the gtirb package from /repo's working tree "
         "(the pinned pytest suite imports site-packages, not /repo). See "
         "DESIGN.md. known_findings.json lists recorded defects and fix: "
         "commits.")

CLAIMED = {
 "C15": ("Lean 4 proof (parser = grammar, both directions) + exhaustive/"
         "random correspondence of model, code and reference parser",
         "Theorems over the model of _parse_type: every grammatical name "
         "parses to its tree and every accepted string is the rendering of "
         "the returned tree; tied to the code by an exhaustive small-scope "
         "and random differential run with exception types compared.",
         "5 C15"),

 "C07": ("Lean 4 proof by mutual structural induction (decode (encode v ++ rest) = (v, rest)) + "
         "type-directed differential run of model, code and format encoder",
         "C07_roundtrip is proved for every type tree and every value of the type's value set "
         "(hasType, evaluated by the driver on every generated case), with exact consumption "
         "(the rest is returned untouched) and UUID/Offset resolution lemmas; the model's "
         "encode/decode are compared with serialization.py byte for byte and value for value "
         "on boundary tables, all small type trees and random deep types. Session 2: type NAMES (tyOfName_nameOf, C07_roundtrip_name), node resolution at any depth (C07_resolution), decode-side typing (decode_hasType); lazy arity errors (Ty.badArity); values through AuxData tables across save/load cycles; resolution across edits.",
         "5 C07"),
 "C08": ("Lean 4 characterisation lemmas of the documented wire format + table theorem over "
         "the regenerated codec table + byte-for-byte differential run",
         "The format definition is the Lean encoder (transcribed from AuxData.hpp); one lemma "
         "per clause of the property; the codec table regenerated from the source must equal "
         "the expected one (rfl) and agree with the model's heads (decide); every generated "
         "case is compared byte for byte, and bytes in a foreign element order are decoded by "
         "the implementation. Session 2: an INDEPENDENT statement of the wire format (inductive Wire, little-endian and two's complement defined positionally) with encode_iff_Wire, C08_injective, C08_prefix_free, content of UUID/Offset encodings; Java cross-decoding in both directions; re-tag probe.",
         "5 C08"),
 "C03": ("Lean 4 invariant proof (UUID table = scan, by induction over operations) + per-step "
         "correspondence of model, code and abstract specification on graph histories",
         "CacheInv is proved preserved by every public operation of the object-graph model "
         "(which mirrors the incremental _add_to/_remove_from_uuid_cache mechanism), so "
         "get_by_uuid equals a fresh scan in every reachable state under the property's "
         "distinctness hypothesis; the model is compared with the real objects' complete "
         "observable snapshot after every step of random histories over 2-3 IRs. Session 2: lookup = scan over the owning collections (C03_lookup_scan); under the distinctness hypothesis no step ever fails mid-way (C03_history_no_keyerror, runStrict); the load clause (C03_load, C03_loadX: a load keeps ForestInv, CacheInv of all IRs, Distinct, IndexInv; histories continued from a loaded state).",
         "5 C03"),
 "C04": ("Lean 4 invariant proof (two-ended forest consistency, derived accessors) + per-step "
         "snapshot correspondence on graph histories",
         "ForestInv (membership iff back-pointer, no duplicates, rank-correct kinds) is proved "
         "preserved by every public operation; derived accessors and aggregate iterators are "
         "proved equal to what the forest implies; tied to the code by the shared graph stream. Session 2: frame theorem (C04_frame: nodes an operation does not name keep parent, name, payload; other collections keep their contents), strict histories (C04_history_strict), aliasing stream also for property setters.",
         "5 C04"),
 "C05": ("Lean 4 proof (lazy index = current set; lookup = scan) + differential run of every "
         "edit and lookup against the model and a fresh scan",
         "Over the model of LazyIntervalTree and the util lookup functions: the index is exact "
         "after any history (all three branches of get), block lookups at interval scope equal "
         "the scan with each block once, section scope is characterised exactly (sandwich as "
         "corollary); tied by edit histories with lookup batches on all scopes and all 18 methods. Session 2: code_/data_ variants (C05_kind_*), must side for 'at' and for blocks partly inside the declared extent (C05Must); the tie compares scope-level answers up to the sandwich the property states; save+load as an edit.",
         "5 C05"),
 "C06": ("Lean 4 proof (interval lookups and section extents = scan) + differential run",
         "Same model as C05: byte_intervals_on/at and Section.address/size are proved equal to "
         "the scan; tied by the same stream with address edits to and from None. Session 2: Module/IR sections_on/at and the extent as a scan (C06_sections_*, C06_extent_scan).",
         "5 C06"),
 "C10": ("Lean 4 invariant proof (symbol indexes = scan) + per-step snapshot correspondence",
         "IndexInv (name and referent index hold exactly the module's symbols under their "
         "current keys) is proved preserved by every operation incl. the _IndexedAttribute "
         "setters; symbols_named/references are corollaries; tied by the graph stream with "
         "renames, payload switches and moves. Session 2: strict histories (C10_history_strict), loaded start states (C04_C10_history_after_load).",
         "5 C10"),
 "C11": ("Lean 4 refinement proof (CFG store refines a mathematical set) + per-step correspondence",
         "Every CFG operation incl. the MutableSet mixins is proved to act on membership as the "
         "set operation, with KeyError exactly for remove/pop of an absent edge, Nodup invariant "
         "over histories, adjacency views as filters; tied by histories over attached/detached "
         "nodes and 5 labels with all candidate memberships probed each step. Session 2: the keyed multigraph mechanism is modelled (CfgKeyed: _edge_key search, networkx new_edge_key) and proved to refine the set model per operation and over histories (C11_refine_*, C11_newKey_fresh); cfg.nx() keys compared with the keyed model; block views (C11Views); one-shot operands.",
         "5 C11"),
 "C12": ("Lean 4 proof (get returns the current set on all branches; schedule independence) + "
         "metamorphic replay of each history under several lookup schedules",
         "Answers are proved to be functions of the structure only (lookups preserve the "
         "structure and the invariant), hence independent of lookup schedule; on the real code "
         "each history is replayed under 5-7 schedules hitting pending <,=,> size and the final "
         "battery compared across schedules, with the scan and with the model. Session 2: schedules of ARBITRARY structure-preserving lookups (C12_scheduleG), scope lookups and section scans as final queries, histories from the empty state incl. creation (C12_reachable), the sentence verbatim (C12_schedule_none); bulk index events and bursts in the stream.",
         "5 C12"),
 "C14": ("Lean 4 proof over the table life-cycle model (+ decided counterexample for the false "
         "corner) + differential run through public load/save over generations",
         "Untouched tables are proved written back verbatim for any name/bytes over any number "
         "of generations; read/assigned/retyped tables are proved saved as the encoding of the "
         "current value under the current name; the unknown-codec clause is proved where "
         "decoding reaches the unknown head, with a decided counterexample (known finding K4) "
         "otherwise; tied by random action sequences on real files. Session 2: histories (C14History), touched tables across generations (C14_touched_generation, C14_read_generations), the exact extent of K4 (C14_rewritten_iff), C14_unknown_top_head, C14_lazy_trichotomy; lazy arity; second save of the same object after an in-place edit; the other table of the container.",
         "5 C14"),
 "C16": ("Lean 4 refinement proofs for the owning collections (content after each wrapper "
         "operation) + per-step correspondence against built-in list/set and the abstract spec",
         "The graph model composes the collections.abc mixins as CPython does; the abstract "
         "specification run side by side is built-in list/set semantics on the content after "
         "removing inserted nodes from previous owners; non-mutating operators and comparisons "
         "are checked against plain sets/lists; return values and exception types compared. Session 2: slices (C16Slices), return values and non-mutating operations as model functions with theorems (ForestOps, C16Ops: C16_listPop_returns, C16_nm*_mem, ...) and a tie of their own; extend with repeated arguments; setters never raise; only built-in guard exceptions are skipped by histories (C16_history_skips_only_builtin).",
         "5 C16"),
 "C19": ("Lean 4 invariant proof (stored bytes <= size over all assignment histories; block "
         "views) + differential run with save/load",
         "StoreInv is proved preserved by size / initialized_size assignments and content edits "
         "from any constructed interval, and equivalent to the loader accepting the saved "
         "interval; block address/contents/contains_* are characterised; tied by histories on "
         "real intervals with probes around both ends of each block. Session 2: whole-contents assignment (bytes / bytearray) as an edit, a twin interval built from the same bytearray.",
         "5 C19"),
 "C01": ("Lean 4 proof (fromMsg (toMsg v) = v for every self-contained IR, lifted through the "
         "header) + save/parse/load/save differential run under both protobuf back ends",
         "C01_roundtrip is proved over the value-level writer and staged reader for the decidable "
         "precondition wfir (evaluated by the driver on every generated IR); re-saving gives the "
         "same message; on the real code every generated IR's object dump equals the loaded "
         "IR's, deep_eq holds both ways, the re-saved message is equal and AuxData values decode "
         "equal; the forward-entry-point corner is the known finding K5. Session 2: second saves of the same IR after in-place edits; the value-level reader is proved to agree with the graph-level loader on every accepted message (C01_link_accepts/_shape); wfir is proved to be exactly the round-trip domain (C01_wfir_iff; IR.version must be the current one: C01_version_rejected); decoded AuxData values survive (C01_aux_values). Session 3: the protobuf layer is no longer a parameter: model W (PbWire: varints, tags, wire types; PbMsg: serializer and parser of every message of the schema, field numbers looked up in the regenerated schema table) with parseMIR (serMIR m) = some m proved for every message in the format's ranges, hence C01_roundtrip_bytes on FILES; tied on every saved file to the real protobuf library in both directions (correspondence:pbwire); in-place edits of expressions / blocks / sections before the second save; path-based save / load entry points.",
         "5 C01"),
 "C02": ("Lean 4 table theorems re-proved against the regenerated schema / enums / version on "
         "every run + writer and reader field lemmas + two-direction differential run",
         "schema_matches_model (rfl), enum_bijection and version_magic (decide) are re-checked "
         "against tables regenerated from proto/*.proto and the built package; toMsg is the "
         "field-by-field writer statement with one lemma per clause; reader lemmas say every "
         "attribute of an accepted message equals the field; messages parsed by the generated "
         "classes (writer) and built from the descriptors with every declared enum constant "
         "(reader) are compared with the model under upb and pure Python. Session 2: C02_reader_exact (toMsg v = normMsg m: nothing lost, nothing invented), C02_accepts_iff_closed, writer probe for IR.version. Session 3: per-message wire-level round trips (parseXW (wX x) = some x for all 18 messages, C01_fno_table: the field numbers written and read are the schema's, ascending and in range); the writer half is compared also when load rejects the saved file; second saves of built and loaded IRs after in-place edits.",
         "5 C02"),
 "C09": ("Lean 4 lemmas (accepted messages have typed, resolved references; UUID/Offset "
         "resolution of the codec) + identity checks and exhaustive reference-fault stream",
         "C17_accepted_refs proves every reference of an accepted message denotes a node of the "
         "required kind; C07_*_resolution prove AuxData UUIDs naming attached nodes decode to "
         "those nodes; on the real code every loaded IR's references are compared by identity "
         "with containment and get_by_uuid, and every reference re-pointed to a missing UUID or "
         "to each wrong kind must raise DeserializationError. Session 2: the error class of every reference fault (C09_reference_fault_deser, C09_deser_iff, per kind); identity at the loader level for all four reference kinds (loadR: C09_loadR_identity, C09_load_referent_identity); lazy-table probe.",
         "5 C09"),
 "C13": ("Lean 4 proof (sorted key-unique store; lookup = scan in offset order) + differential "
         "run against a built-in dict and a scan",
         "The store invariant is proved over all MutableMapping operations, irange bounds are "
         "proved to exclude no member, at/at_offset equal the scan in increasing offset order; "
         "tied by histories of all mapping operations with lookups on every scope. Session 2: section / module / IR scope (SymScopes model; C13_section_at, C13_scope_at_union, _sandwich, _nodup, unobservability), tied by the symscopes driver; ranges longer than a machine word; malformed update items; assignment of another interval's mapping.",
         "5 C13"),
 "C17": ("Lean 4 proof (header/version rejection, totality, accepted messages are well formed) "
         "+ fault enumeration with coherence oracle on the real objects",
         "Over the reader model: magic / version byte / version field are always rejected, the "
         "reader is total, accepted messages have 16-byte UUIDs, typed references, bytes <= "
         "size and can be saved and loaded again (Nodup up to the block/own-interval corner); "
         "every file saved from a self-contained IR is accepted; tied by truncations, bit and "
         "byte flips, header variants and all single structural faults, each accepted IR "
         "checked for coherence on the real objects and saved again, with a per-case timeout. Session 2: the staged loader as a program over the object-graph model for EVERY message, duplicated UUIDs included (Loader, LoaderX: C17_load_coherent, C17_loadX_coherent), children decoded and attached one by one, expression symbols checked per decoded interval object; tied on single faults, duplication pairs and mixed multi-fault messages; C17_accepted_bytes_inv lifts the accepted-IR theorems to any byte string. Session 3: C17_accepted_file_inv / C17_malformed_wire_rejected / C17_accepts_saved_file over the concrete wire model; the model parser is run on every faulty file (binding on the layer-1 field list, informative on the message layer where protobuf's leniencies on corrupt input are not modelled).",
         "5 C17"),
 "C18": ("Lean 4 proof (deepEq <-> canonical forms equal; reflexive, symmetric, order-"
         "insensitive, one lemma per compared field) + perturbation enumeration",
         "C18_iff, C18_symm (unconditional), C18_refl, permutation lemmas and 35 field lemmas "
         "are proved over the model mirroring every class's deep_eq; tied by equal copies and "
         "every applicable single-field perturbation with deep_eq both ways vs canonical-dump "
         "equality vs the model. Session 2: deep_eq between nodes of one kind (C18_node_*: = equality of what the nodes show, references resolved), C18_refl_iff; node-level comparison of every same-UUID pair, chains of comparisons of the same pair after in-place edits, stratified perturbations.",
         "5 C18"),
}

_PENDING = "check not built yet in this session (work in progress; see DESIGN.md section 8)"
NOT_CLAIMED = {p: _PENDING for p in
               ["C%02d" % i for i in range(1, 20)] if p not in CLAIMED}
