"""Streams for C07 (round trip, exact consumption, UUID resolution) and C08
(bytes equal the documented format = the Lean encoder; foreign element orders
decode to the same value)."""
import io
import itertools
import struct
import uuid as uuidlib

import core
import codec_common as cc


def to_tokens_rev(world, t, v):
    """Like cc.to_tokens, with set and mapping elements in reversed
    iteration order (an encoding another producer could emit)."""
    name, kids = t
    if name == "set":
        out = ["S", str(len(v))]
        for x in reversed(list(v)):
            out += to_tokens_rev(world, kids[0], x)
        return out
    if name == "mapping":
        out = ["M", str(len(v))]
        for k, x in reversed(list(v.items())):
            out += to_tokens_rev(world, kids[0], k)
            out += to_tokens_rev(world, kids[1], x)
        return out
    if name == "sequence":
        out = ["L", str(len(v))]
        for x in v:
            out += to_tokens_rev(world, kids[0], x)
        return out
    if name == "tuple":
        out = ["T", str(len(v))]
        for k, x in zip(kids, v):
            out += to_tokens_rev(world, k, x)
        return out
    if name == "variant":
        return ["V", str(v.index)] + to_tokens_rev(world, kids[v.index], v.val)
    return cc.to_tokens(world, t, v)


def expected_after_roundtrip(world, c):
    """What the property says comes back: attached nodes as themselves,
    detached nodes as plain UUIDs, a plain UUID naming an attached node as
    that node."""
    if isinstance(c, tuple):
        if len(c) == 2 and c[0] == "n":
            if c[1] >= len(world.attached):
                return ("u", world.nodes[c[1]].uuid.bytes.hex())
            return c
        if len(c) == 2 and c[0] == "u" and isinstance(c[1], str):
            for i, n in enumerate(world.attached):
                if n.uuid.bytes.hex() == c[1]:
                    return ("n", i)
            return c
        return tuple(expected_after_roundtrip(world, x) for x in c)
    return c


def shape(t):
    name, kids = t
    return name[0:3] + ("(" + ",".join(shape(k) for k in kids) + ")"
                        if kids else "")


def small_types(depth):
    """All type trees up to a depth over all leaves (arity 1/2 containers,
    tuple/variant of 1 or 2)."""
    leaves = [(l, []) for l in cc.LEAVES]
    cur = list(leaves)
    for _ in range(depth):
        nxt = list(leaves)
        hashable = [t for t in cur if cc.hashable_type(t)]
        for t in cur:
            nxt.append(("sequence", [t]))
            nxt.append(("tuple", [t]))
            nxt.append(("variant", [t]))
        for t in hashable:
            nxt.append(("set", [t]))
        for k in hashable[:len(leaves)]:
            for v in cur[:len(leaves)]:
                nxt.append(("mapping", [k, v]))
        for a in cur[:len(leaves)]:
            for b in cur[:len(leaves)]:
                nxt.append(("tuple", [a, b]))
                nxt.append(("variant", [a, b]))
        cur = nxt
    # de-duplicate by rendering
    seen, out = set(), []
    for t in cur:
        r = cc.render(t)
        if r not in seen:
            seen.add(r)
            out.append(t)
    return out


class Case:
    __slots__ = ("t", "name", "v", "toks", "rev", "impl_bytes", "impl_exc",
                 "garbage", "stream")


def run_cases(ctx, world, cases, which):
    """which: 'C07' or 'C08' - selects which disagreements are this
    property's business; all comparisons are made either way."""
    gtirb = world.gtirb
    lookup = world.ir.get_by_uuid
    lines = ["reset"] + world.node_lines()
    idx = []
    for c in cases:
        c.name = cc.render(c.t)
        try:
            c.toks = cc.to_tokens(world, c.t, c.v)
            c.rev = to_tokens_rev(world, c.t, c.v)
        except TypeError as e:
            raise core.HarnessError("generator produced ill-shaped value: %s"
                                    % e)
        c.impl_exc = None
        try:
            c.impl_bytes = cc.impl_encode(gtirb, c.name, c.v)
        except (Exception, core.ImplTimeout) as e:   # noqa
            c.impl_bytes = None
            c.impl_exc = type(e).__name__
        start = len(lines)
        nh = cc.hexs(c.name)
        lines.append("typed %s %s" % (nh, " ".join(c.toks)))
        lines.append("enc %s %s" % (nh, " ".join(c.toks)))
        lines.append("enc %s %s" % (nh, " ".join(c.rev)))
        if c.impl_bytes is not None:
            lines.append("dec %s %s" % (nh, cc.hexb(c.impl_bytes + c.garbage)))
        idx.append(start)
    out = core.lean_batch("codec", lines)
    for c, start in zip(cases, idx):
        ctx.evaluations += 1
        typed, lenc, lrev = out[start], out[start + 1], out[start + 2]
        ldec = out[start + 3] if c.impl_bytes is not None else None
        sh = shape(c.t)
        ctx.count("%s:%s" % (c.stream, c.t[0]))
        want = cc.nan_normalise(expected_after_roundtrip(
            world, cc.canon(c.toks)))
        replay = {"type": c.name, "value_tokens": " ".join(c.toks),
                  "garbage": c.garbage.hex(), "stream": c.stream}
        if typed != "1" and c.stream != "resolution":
            # the theorem's hypothesis must be met by what we test
            ctx.tie_broken.append("hypothesis:hasType false on generated "
                                  "value %s %s" % (c.name, " ".join(c.toks)[:80]))
            continue
        if c.impl_bytes is None:
            ctx.report({"kind": "encode-raises", "exception": c.impl_exc},
                       replay, "encode(%s) raised %s" % (c.name, c.impl_exc))
            continue
        if len(c.impl_bytes) > 12 or c.t[1]:
            ctx.nontriv((sh, len(c.impl_bytes) // 8, c.stream))
        replay["impl_bytes"] = c.impl_bytes.hex()
        # --- C08: bytes are the documented format (Lean encoder)
        if not lenc.startswith("ok "):
            ctx.tie_broken.append("correspondence:codec-enc %s lean=%s"
                                  % (c.name, lenc))
            continue
        lbytes = bytes.fromhex(lenc[3:]) if lenc[3:] != "-" else b""
        bytes_ok = lbytes == c.impl_bytes
        if not bytes_ok and ldec and ldec.startswith("ok "):
            # the format does not prescribe an element order for sets and
            # mappings: the bytes conform if the format decoder reads them
            # back to a set-equal value, consumes exactly the encoding, and
            # the format encoder reproduces them from the decoded order
            parts0 = ldec.split(" ")
            try:
                same_val = cc.nan_normalise(cc.canon(parts0[2:])) == \
                    cc.nan_normalise(cc.canon(c.toks)) and \
                    int(parts0[1]) == len(c.garbage)
            except Exception:   # noqa
                same_val = False
            if same_val:
                re = core.lean_batch("codec", ["reset"] + world.node_lines() + [
                    "enc %s %s" % (cc.hexs(c.name), " ".join(parts0[2:]))])[-1]
                if re.startswith("ok ") and (bytes.fromhex(re[3:]) if re[3:]
                                             != "-" else b"") == c.impl_bytes:
                    bytes_ok = True
                    ctx.count("bytes-conform-in-another-element-order")
        if not bytes_ok:
            replay["format_bytes"] = lbytes.hex()
            if which == "C08":
                ctx.report({"kind": "bytes-differ", "head": c.t[0]}, replay,
                           "encoding of %s differs from the documented format"
                           % c.name)
                continue
            # C07 speaks about decode(encode v) only; the model's encoder no
            # longer matches, which breaks the tie but is not a failing input
            if not any(b.startswith("correspondence:codec-enc") for b in
                       ctx.tie_broken):
                ctx.tie_broken.append("correspondence:codec-enc bytes differ "
                                      "for %s" % c.name)
        # --- C07: decode(encode v) == v (as the property expects), exact use
        try:
            v2 = cc.impl_decode(gtirb, c.name, c.impl_bytes, lookup)
            got = cc.nan_normalise(cc.canon(cc.to_tokens(world, c.t, v2)))
        except (Exception, core.ImplTimeout) as e:   # noqa
            sig = {"kind": "decode-raises", "exception": type(e).__name__}
            if isinstance(e, TypeError) and hashed_unhashable(c.t):
                # known finding K3 concerns exactly the types whose decoded
                # Python value has an unhashable object in a hashed position
                sig = {"kind": "unhashable-decode"}
            ctx.report(sig, replay, "decode(encode v) for %s raised %s: %s"
                       % (c.name, type(e).__name__, str(e)[:80]))
            continue
        if got != want:
            replay["decoded_tokens"] = repr(got)[:400]
            ctx.report({"kind": "roundtrip-differs", "head": c.t[0]}, replay,
                       "decode(encode v) != v for %s" % c.name)
            continue
        # exact consumption: (1) stream position, (2) sentinel after the value
        ser = gtirb.AuxData.serializer
        tree = gtirb.Serialization._parse_type(c.name)
        stream = io.BytesIO(c.impl_bytes + c.garbage)
        try:
            with core.time_limit(cc.IMPL_LIMIT):
                ser._decode_tree(stream, tree, lookup)
            pos = stream.tell()
        except (Exception, core.ImplTimeout) as e:   # noqa
            pos = "exc:" + type(e).__name__
        if pos != len(c.impl_bytes):
            ctx.report({"kind": "consumption", "head": c.t[0]}, replay,
                       "decoder consumed %s of %d bytes for %s"
                       % (pos, len(c.impl_bytes), c.name))
            continue
        wrapped = "tuple<%s,uint64_t>" % c.name
        try:
            wv = cc.impl_decode(gtirb, wrapped, c.impl_bytes
                                + (0x1122334455667788).to_bytes(8, "little"),
                                lookup)
            ok = isinstance(wv, tuple) and wv[1] == 0x1122334455667788
        except (Exception, core.ImplTimeout):   # noqa
            ok = False
        if not ok:
            ctx.report({"kind": "consumption-sentinel", "head": c.t[0]},
                       replay, "value of %s followed by a sentinel is misread"
                       % c.name)
            continue
        if not bytes_ok:
            continue
        # --- model decode agrees (tie)
        if not ldec.startswith("ok "):
            ctx.tie_broken.append("correspondence:codec-dec %s lean=%s"
                                  % (c.name, ldec[:60]))
            continue
        parts = ldec.split(" ")
        lgot = cc.nan_normalise(cc.canon(parts[2:]))
        if int(parts[1]) != len(c.garbage) or lgot != want:
            ctx.tie_broken.append("correspondence:codec-dec %s value/rest "
                                  "differ" % c.name)
            continue
        # --- C08: a foreign element order decodes to the same value
        if lrev.startswith("ok "):
            fb = bytes.fromhex(lrev[3:]) if lrev[3:] != "-" else b""
            try:
                v3 = cc.impl_decode(gtirb, c.name, fb, lookup)
                got3 = cc.nan_normalise(cc.canon(cc.to_tokens(world, c.t, v3)))
            except (Exception, core.ImplTimeout) as e:   # noqa
                got3 = "exc:" + type(e).__name__
            if got3 != want:
                replay["foreign_bytes"] = fb.hex()
                ctx.report({"kind": "foreign-order", "head": c.t[0]}, replay,
                           "bytes in another element order decode "
                           "differently for %s" % c.name)
                continue
        ctx.traces += 1
        ctx.sample({"type": c.name, "value": " ".join(c.toks)[:160],
                    "bytes": c.impl_bytes.hex()[:96]})


def run(ctx, which):
    import gtirb
    rng = ctx.rng
    world = cc.World(rng)
    ctx.rule = ("type-directed values over the whole AuxData grammar "
                "(random trees to a depth, every leaf, boundary values "
                "forced, empty containers, every variant alternative), each "
                "compared: Python bytes vs Lean encoder, Python decode vs "
                "value vs Lean decode, exact consumption with trailing "
                "garbage, foreign element order; non-trivial = distinct "
                "(type shape, encoded length/8, stream) with a container or "
                "more than 12 bytes")
    cases = []

    def add(t, v, stream):
        c = Case()
        c.t, c.v, c.stream = t, v, stream
        c.garbage = bytes(rng.getrandbits(8)
                          for _ in range(rng.choice([0, 1, 3, 9])))
        cases.append(c)

    # 1. boundary table: every leaf, every boundary value
    for leaf in cc.LEAVES:
        t = (leaf, [])
        if leaf in cc.INT_RANGE:
            lo, hi = cc.INT_RANGE[leaf]
            for v in sorted({lo, hi, 0, 1, lo + 1, hi - 1, hi // 2,
                             -1 if lo < 0 else 2, 255 if hi >= 255 else 3}):
                add(t, v, "boundary")
        elif leaf == "bool":
            add(t, True, "boundary")
            add(t, False, "boundary")
        elif leaf == "double":
            for b in cc.F64_BITS:
                add(t, struct.unpack("<d", struct.pack("<Q", b))[0],
                    "boundary")
        elif leaf == "float":
            for b in cc.F32_BITS:
                add(t, struct.unpack("<f", struct.pack("<I", b))[0],
                    "boundary")
        elif leaf == "string":
            for s in cc.STRINGS:
                add(t, s, "boundary")
        elif leaf == "UUID":
            for n in world.attached:
                add(t, n, "boundary")
            for u in world.foreign_uuids:
                add(t, u, "boundary")
        elif leaf == "Offset":
            for n in world.attached[:3] + world.foreign_uuids[:2]:
                for d in (0, 2**64 - 1, 7):
                    add(t, gtirb.Offset(n, d), "boundary")
    # strings inside containers (a character-count prefix shows up here)
    for s in cc.STRINGS:
        add(("sequence", [("string", [])]), [s, "z", s], "boundary")
        add(("mapping", [("string", []), ("string", [])]), {s: s},
            "boundary")
    # 2. exhaustive small scope over type trees
    depth = ctx.scale(1, 2)
    for t in small_types(depth):
        for _ in range(ctx.scale(1, 2)):
            add(t, cc.gen_value(rng, world, t), "small-types")
    ctx.extra["small_type_depth"] = depth
    # 3. random deep types
    n = ctx.scale(15000, 120000)
    maxd = ctx.scale(4, 6)
    for _ in range(n):
        t = cc.gen_type(rng, rng.randrange(1, maxd + 1))
        add(t, cc.gen_value(rng, world, t, True, rng.choice([1, 3, 6])),
            "random")
    # 4. UUID resolution (no hashed positions): detached nodes come back as
    # UUIDs, plain UUIDs naming attached nodes come back as the nodes
    for _ in range(ctx.scale(300, 5000)):
        t = rng.choice([("UUID", []), ("Offset", []),
                        ("sequence", [("UUID", [])]),
                        ("tuple", [("UUID", []), ("Offset", [])]),
                        ("variant", [("uint8_t", []), ("UUID", [])]),
                        ("sequence", [("tuple", [("Offset", []),
                                                 ("string", [])])])])
        add(t, cc.gen_value(rng, world, t, False), "resolution")
    # 5. known finding probe: container type in hashed position
    add(("set", [("sequence", [("uint8_t", [])])]), {(1, 2)}, "hashed-probe")
    add(("mapping", [("sequence", [("uint8_t", [])]), ("bool", [])]),
        {(1, 2): True}, "hashed-probe")
    add(("set", [("set", [("uint8_t", [])])]), {frozenset({1})},
        "hashed-probe")
    for i in range(0, len(cases), 20000):
        run_cases(ctx, world, cases[i:i + 20000], which)
    if which == "C08":
        jsel = cases if ctx.thorough() else \
            [c for c in cases if c.stream != "random"] + \
            [c for c in cases if c.stream == "random"][:400]
        java_cross(ctx, world, jsel)

    if len(ctx.violations) >= 3:
        return      # decided; the later streams only add more of the same
    bad_arity_stream(ctx, world)
    if which == "C07":
        ill_typed_stream(ctx, world)
    resolution_across_edits(ctx, world)
    if which == "C07":
        table_cycle_stream(ctx)
    if which == "C08":
        retag_probe(ctx)

    # 6. glue: string length and float32 rounding against Lean's own
    lines, meta = [], []
    for s in cc.STRINGS + ["".join(chr(rng.randrange(0x80, 0x3000))
                                   for _ in range(5)) for _ in range(50)]:
        lines.append("strlen " + cc.hexs(s))
        meta.append(("strlen", s))
    for _ in range(ctx.scale(300, 20000)):
        b = rng.getrandbits(64) if rng.random() < 0.5 else \
            struct.unpack("<Q", struct.pack("<d", struct.unpack(
                "<f", struct.pack("<I", rng.getrandbits(32)))[0]
                * rng.choice([1.0, 1.0000001, 0.9999999])))[0]
        x = struct.unpack("<d", struct.pack("<Q", b))[0]
        try:
            pb = cc.f32_bits(x)
        except OverflowError:
            continue       # outside the float32 value set (Appendix A)
        lines.append("f32round %d" % b)
        meta.append(("f32round", (b, pb)))
    out = core.lean_batch("codec", lines)
    for (kind, m), o in zip(meta, out):
        ctx.evaluations += 1
        if kind == "strlen":
            chars, nbytes = o.split(" ")
            if int(chars) != len(m) or int(nbytes) != len(m.encode("utf-8")):
                ctx.tie_broken.append("glue:strlen %r lean=%s" % (m, o))
        else:
            b, pb = m
            lb = int(o)
            nan = lambda z: ((z >> 23) & 0xff) == 0xff and (z & 0x7fffff)
            if lb != pb and not (nan(lb) and nan(pb)):
                ctx.tie_broken.append("glue:f32round %x python=%x lean=%x"
                                      % (b, pb, lb))
    ctx.extra["node_table"] = "%d attached, %d detached" % (
        len(world.attached), len(world.detached))


def table_cycle_stream(ctx):
    """C07's second observation point: `AuxData.data` after a save / load
    cycle. Values go into AuxData tables of an IR (IR and module level),
    the IR is saved and loaded, the decoded values are compared; then the
    SAME IR's values are edited in place through the references the caller
    holds and the cycle is repeated (what is encoded must be the value as it
    is when save is called)."""
    import gtirb
    import msg_stream as ms
    rng = ctx.rng
    for rnd in range(ctx.scale(25, 400)):
        ir = gtirb.IR()
        m = gtirb.Module(name="m", ir=ir)
        px = gtirb.ProxyBlock(module=m)
        w = ms.NodeWorld(gtirb, ir)
        w.attached, w.detached = w.nodes, []
        w.foreign_uuids = [uuidlib.UUID(int=rng.getrandbits(128))
                           for _ in range(3)]
        tabs = {}
        for i in range(rng.randrange(1, 5)):
            t = cc.gen_type(rng, rng.randrange(0, 4))
            while hashed_unhashable(t):     # known finding K3: see stream 5
                t = cc.gen_type(rng, rng.randrange(0, 3))
            v = cc.gen_value(rng, w, t, True)
            cont = rng.choice([ir, m])
            cont.aux_data["t%d" % i] = gtirb.AuxData(v, cc.render(t))
            tabs[(cont is ir, "t%d" % i)] = (t, v)
        for cycle in (1, 2, 3):
            try:
                with core.time_limit(30):
                    ir2 = ms.load(gtirb, ms.save(ir))
            except (Exception, core.ImplTimeout) as e:   # noqa
                ctx.report({"kind": "table-cycle-raises",
                            "exception": type(e).__name__},
                           {"types": [cc.render(t) for t, _ in tabs.values()]},
                           "save / load of an IR with AuxData tables raised "
                           "%s: %s" % (type(e).__name__, str(e)[:80]))
                return
            w2 = ms.NodeWorld(gtirb, ir2)
            for (at_ir, key), (t, v) in tabs.items():
                cont2 = ir2 if at_ir else ir2.modules[0]
                try:
                    with core.time_limit(20):
                        data2 = cont2.aux_data[key].data
                    got = cc.nan_normalise(cc.canon(cc.to_tokens(
                        w2, t, data2)))
                    want = cc.nan_normalise(cc.canon(cc.to_tokens(w, t, v)))
                except (Exception, core.ImplTimeout) as e:   # noqa
                    got, want = "raised:" + type(e).__name__, "value"
                ctx.evaluations += 1
                if got != want:
                    ctx.report({"kind": "table-cycle-differs", "cycle": cycle},
                               {"type": cc.render(t), "cycle": cycle},
                               "AuxData table of type %s: .data after save / "
                               "load cycle %d is not the value the table "
                               "held when it was saved" % (cc.render(t),
                                                           cycle))
                    return
            ctx.count("table-cycle:%d" % cycle)
            ctx.nontriv(("table-cycle", cycle, len(tabs)))
            # edit in place through the held references
            for (at_ir, key), (t, v) in tabs.items():
                if isinstance(v, list) and v:
                    v.append(v[0])
                elif isinstance(v, dict) and v:
                    v.pop(next(iter(v)))
                elif isinstance(v, set) and v:
                    v.pop()


def retag_probe(ctx):
    """bytes written under a type name are that type's encoding of the value
    also when the name of a loaded table was changed before anything read it
    (the codec's own bytes are compared with the format by the streams above;
    here: what `save` puts into the file)"""
    import io
    import gtirb
    import props.C14 as c14
    rng = ctx.rng
    pairs = [("sequence<uint32_t>", "sequence<uint64_t>", [1, 2, 2**32 - 1]),
             ("mapping<string,uint16_t>", "mapping<string,uint64_t>",
              {"a": 1, "é": 65535}),
             ("uint8_t", "int64_t", 200), ("int16_t", "int32_t", -2),
             ("tuple<uint8_t,uint16_t>", "tuple<uint64_t,uint16_t>", (1, 2)),
             ("set<uint16_t>", "set<uint32_t>", {7})]
    for old_t, new_t, v in pairs:
        ir = gtirb.IR()
        m = gtirb.Module(name="m", ir=ir)
        level = rng.choice(["ir", "module"])
        (ir if level == "ir" else m).aux_data["t"] = gtirb.AuxData(v, old_t)
        buf = io.BytesIO()
        ir.save_protobuf_file(buf)
        try:
            with core.time_limit(20):
                ir2 = gtirb.IR.load_protobuf_file(io.BytesIO(buf.getvalue()))
                holder = ir2 if level == "ir" else ir2.modules[0]
                holder.aux_data["t"].type_name = new_t     # nothing read
                out = io.BytesIO()
                ir2.save_protobuf_file(out)
            tn, data = c14.parse_tables(gtirb, out.getvalue(), level)["t"]
            want = cc.impl_encode(gtirb, new_t, v)
            got = (tn, data)
        except (Exception, core.ImplTimeout) as e:   # noqa
            got, want = ("raised", type(e).__name__), None
        ctx.evaluations += 1
        ctx.count("retag-probe")
        ctx.nontriv(("retag", old_t))
        if got != (new_t, want):
            ctx.report({"kind": "retagged-bytes", "from": old_t, "to": new_t},
                       {"from": old_t, "to": new_t, "got": repr(got)[:200]},
                       "a loaded table re-typed from %s to %s (never read) "
                       "was written as %r; the %s encoding of its value is "
                       "%s" % (old_t, new_t, got, new_t,
                               None if want is None else want.hex()))
            return


def unhashable_type(t):
    """is the Python value of this type unhashable (list, set, dict, Variant,
    or a tuple with such a field)?"""
    name, kids = t
    if name in ("sequence", "set", "mapping", "variant"):
        return True
    return name == "tuple" and any(unhashable_type(k) for k in kids)


def hashed_unhashable(t):
    """does the type put an unhashable value into a hashed position (a set
    element, a mapping key) somewhere?"""
    name, kids = t
    if name in ("set", "mapping") and kids and unhashable_type(kids[0]):
        return True
    return any(hashed_unhashable(k) for k in kids)


def resolution_across_edits(ctx, world):
    """the lookup a decode resolves UUIDs with is the IR as it is at that
    moment: the same bytes decoded before a node is detached, after, and after
    it is attached again (direct oracle; in the theorems the table is the
    parameter `lookup`)"""
    import gtirb
    rng = ctx.rng
    ir = world.ir
    m = ir.modules[0]
    for rnd in range(ctx.scale(30, 300)):
        px = gtirb.ProxyBlock(module=m)
        sym = gtirb.Symbol(name="t", module=m)
        n = rng.choice([px, sym])
        shape_ = rng.choice(["UUID", "Offset", "sequence<UUID>",
                             "mapping<string,UUID>"])
        val = {"UUID": n, "Offset": gtirb.Offset(n, 7),
               "sequence<UUID>": [n, n],
               "mapping<string,UUID>": {"k": n}}[shape_]
        raw = cc.impl_encode(gtirb, shape_, val)

        def elem(v):
            if shape_ == "UUID":
                return v
            if shape_ == "Offset":
                return v.element_id
            if shape_ == "sequence<UUID>":
                return v[0]
            return v["k"]
        seq = []
        try:
            seq.append(("attached", elem(cc.impl_decode(
                gtirb, shape_, raw, ir.get_by_uuid))))
            n.module = None
            seq.append(("detached", elem(cc.impl_decode(
                gtirb, shape_, raw, ir.get_by_uuid))))
            n.module = m
            seq.append(("re-attached", elem(cc.impl_decode(
                gtirb, shape_, raw, ir.get_by_uuid))))
        except (Exception, core.ImplTimeout) as e:   # noqa
            seq.append(("raised", type(e).__name__))
        finally:
            px.module = None
            sym.module = None
        ctx.evaluations += 3
        ctx.count("resolution-across-edits:" + shape_)
        ctx.nontriv(("resolution-across-edits", shape_, type(n).__name__))
        want = [("attached", n), ("detached", n.uuid), ("re-attached", n)]
        ok = len(seq) == 3 and all(
            (g is w) if not isinstance(w, uuidlib.UUID) else
            (type(g) is uuidlib.UUID and g == w)
            for (_, g), (_, w) in zip(seq, want))
        if not ok:
            ctx.report({"kind": "stale-resolution", "type": shape_},
                       {"type": shape_, "bytes": raw.hex(),
                        "observed": [(a, repr(b)[:80]) for a, b in seq]},
                       "a %s entry naming a node decoded to %s while the "
                       "node was attached / detached / attached again"
                       % (shape_, [(a, type(b).__name__) for a, b in seq]))
            return


def ill_typed_stream(ctx, world):
    """The `none` branch of the model's encoder: a value whose Python class
    is not the one the type name asks for. The model says `none`
    (`hasType'_iff_encode`); the codecs raise. Where Python's duck typing is
    more liberal than the model (a bool where an integer is asked for, any
    Sequence for `sequence`, any Collection for `set` / `tuple`) the pair is
    left out. Informative: C07 speaks of values OF the type, so a codec
    that started to accept more would not violate it - disagreements are
    counted in the evidence (`ill-typed:...`), not reported."""
    import gtirb
    u = uuidlib.UUID(int=0x1234)
    vals = {     # kind -> (python value, tokens)
        "int": (5, ["i", "5"]),
        "bool": (True, ["b", "1"]),
        "float": (1.5, ["d", str(cc.f64_bits(1.5))]),
        "str": ("x", ["s", cc.hexs("x")]),
        "uuid": (u, ["u", u.bytes.hex()]),
        "list": ([1], ["L", "1", "i", "1"]),
        "set": ({1}, ["S", "1", "i", "1"]),
        "dict": ({1: 2}, ["M", "1", "i", "1", "i", "2"]),
        "tuple": ((1, 2), ["T", "2", "i", "1", "i", "2"]),
        "variant": (gtirb.serialization.Variant(0, 1), ["V", "0", "i", "1"]),
        "offset": (gtirb.Offset(u, 3), ["o", "u", u.bytes.hex(), "3"]),
    }
    # type name -> kinds of value that are NOT of the type and that Python's
    # isinstance tests do not let through either
    types = {
        "uint8_t": ["float", "str", "uuid", "list", "set", "dict", "tuple",
                    "variant", "offset"],
        "int64_t": ["float", "str", "uuid", "list", "dict", "variant"],
        "bool": ["int", "float", "str", "uuid", "list", "variant"],
        "double": ["int", "bool", "str", "uuid", "list", "tuple"],
        "float": ["int", "str", "set", "offset"],
        "string": ["int", "bool", "float", "uuid", "list", "set", "dict",
                   "tuple", "variant", "offset"],
        "UUID": ["int", "bool", "float", "str", "list", "set", "dict",
                 "tuple", "variant", "offset"],
        "Offset": ["int", "bool", "float", "str", "uuid", "list", "set",
                   "dict", "tuple", "variant"],
        "sequence<uint8_t>": ["int", "bool", "float", "str", "uuid", "set",
                              "dict", "variant", "offset"],
        "set<uint8_t>": ["int", "bool", "float", "str", "uuid", "variant",
                         "offset"],
        "mapping<uint8_t,uint8_t>": ["int", "bool", "float", "str", "uuid",
                                     "list", "set", "tuple", "variant",
                                     "offset"],
        "tuple<uint8_t,uint8_t>": ["int", "bool", "float", "str", "uuid",
                                   "variant", "offset"],
        "variant<uint8_t,string>": ["int", "bool", "float", "str", "uuid",
                                    "list", "set", "dict", "tuple",
                                    "offset"],
    }
    cases = [(tn, vals[k][0], vals[k][1], k) for tn, ks in types.items()
             for k in ks]
    # out of range and ill-typed inside containers
    cases += [("uint8_t", 256, ["i", "256"], "range"),
              ("uint8_t", -1, ["i", "-1"], "range"),
              ("int8_t", -129, ["i", "-129"], "range"),
              ("int8_t", 128, ["i", "128"], "range"),
              ("uint64_t", 2**64, ["i", str(2**64)], "range"),
              ("int64_t", 2**63, ["i", str(2**63)], "range"),
              ("int64_t", -2**63 - 1, ["i", str(-2**63 - 1)], "range"),
              ("sequence<string>", [5], ["L", "1", "i", "5"], "nested"),
              ("mapping<string,uint8_t>", {"a": "b"},
               ["M", "1", "s", cc.hexs("a"), "s", cc.hexs("b")], "nested"),
              ("mapping<string,uint8_t>", {1: 2},
               ["M", "1", "i", "1", "i", "2"], "nested"),
              ("tuple<uint8_t,string>", (1, 2), ["T", "2", "i", "1", "i", "2"],
               "nested"),
              ("tuple<uint8_t,string>", (1,), ["T", "1", "i", "1"], "nested"),
              ("variant<uint8_t,string>",
               gtirb.serialization.Variant(1, 7), ["V", "1", "i", "7"],
               "nested"),
              ("variant<uint8_t,string>",
               gtirb.serialization.Variant(2, 7), ["V", "2", "i", "7"],
               "nested"),
              ("set<string>", {5}, ["S", "1", "i", "5"], "nested"),
              ("sequence<sequence<uint8_t>>", [[1], 2],
               ["L", "2", "L", "1", "i", "1", "i", "2"], "nested")]
    lines = ["reset"] + ["enc %s %s" % (cc.hexs(tn), " ".join(tok))
                         for tn, _, tok, _ in cases]
    out = core.lean_batch("codec", lines)[1:]
    for (tn, v, tok, kind), lean in zip(cases, out):
        try:
            b = cc.impl_encode(gtirb, tn, v)
            impl = "ok " + (b.hex() or "-")
        except (Exception, core.ImplTimeout):   # noqa
            impl = "none"
        ctx.evaluations += 1
        if impl == lean:
            ctx.count("ill-typed:both-reject" if lean == "none"
                      else "ill-typed:both-accept")
        elif lean == "none":
            ctx.count("ill-typed:implementation-more-liberal")
            ctx.extra.setdefault("ill_typed_liberal", []).append(
                "%s <- %s" % (tn, kind))
        else:
            ctx.count("ill-typed:model-more-liberal")
            ctx.extra.setdefault("ill_typed_model_liberal", []).append(
                "%s <- %s: %s vs %s" % (tn, kind, impl[:30], lean[:30]))


def bad_arity_stream(ctx, world):
    """KNOWN heads with an arity their codec rejects: the codecs notice only
    when decoding / encoding reaches the head (behind an empty container or
    an unselected variant alternative it is never noticed; behind an unknown
    head the whole table becomes UnknownData first)"""
    import gtirb
    from gtirb.serialization import (DecodeError, EncodeError,
                                     UnknownCodecError)
    rng = ctx.rng
    leaf = lambda n: (n, [])   # noqa
    BAD = [  # (type tree, a Python value one might try to encode, tokens)
        (("string", [leaf("int8_t")]), "a", ["s", cc.hexs("a")]),
        (("sequence", [leaf("uint8_t"), leaf("bool")]), [5], ["L", "1", "i", "5"]),
        (("sequence", []), [], ["L", "0"]),
        (("set", []), set(), ["S", "0"]),
        (("mapping", [leaf("string")]), {}, ["M", "0"]),
        (("uint8_t", [leaf("bool")]), 5, ["i", "5"]),
        (("bool", [leaf("bool")]), True, ["b", "1"]),
        (("double", [leaf("bool")]), 1.0, ["d", str(cc.f64_bits(1.0))]),
        (("UUID", [leaf("bool")]), world.foreign_uuids[0],
         cc.elem_tokens(world, world.foreign_uuids[0])),
    ]
    lines, want, what = [], [], []
    for _ in range(ctx.scale(400, 6000)):
        bad, bval, btoks = rng.choice(BAD)
        kt = cc.gen_type(rng, 1)
        kv = cc.gen_value(rng, world, kt, False)
        ktoks = cc.to_tokens(world, kt, kv)
        kb = cc.impl_encode(gtirb, cc.render(kt), kv)
        junk = bytes(rng.getrandbits(8) for _ in range(rng.randrange(0, 9)))
        shape_ = rng.choice(["empty", "top", "tuple", "variant-other",
                             "variant-bad", "unknown-first"])
        if shape_ == "empty":
            wrap = rng.choice(["sequence", "set"])
            t = ("tuple", [kt, (wrap, [bad])])
            v = (kv, [] if wrap == "sequence" else set())
            toks = ["T", "2"] + ktoks + ["L" if wrap == "sequence" else "S",
                                         "0"]
            data = kb + (0).to_bytes(8, "little") + junk
        elif shape_ == "top":
            t, v, toks, data = bad, bval, btoks, junk
        elif shape_ == "tuple":
            t, v, toks = ("tuple", [kt, bad]), (kv, bval), \
                ["T", "2"] + ktoks + btoks
            data = kb + junk
        elif shape_ == "variant-other":
            t = ("variant", [kt, bad])
            v = gtirb.serialization.Variant(0, kv)
            toks = ["V", "0"] + ktoks
            data = (0).to_bytes(8, "little") + kb + junk
        elif shape_ == "variant-bad":
            t = ("variant", [kt, bad])
            v = gtirb.serialization.Variant(1, bval)
            toks = ["V", "1"] + btoks
            data = (1).to_bytes(8, "little") + junk
        else:
            t = ("tuple", [("foo", []), bad])
            v, toks, data = None, None, junk
        name = cc.render(t)
        nh = cc.hexs(name)
        # ---- decode
        try:
            got = cc.impl_decode(gtirb, name, data, world.ir.get_by_uuid)
            obs = "unknown" if isinstance(
                got, gtirb.serialization.UnknownData) else "value"
            if obs == "value":
                try:
                    obs = "value " + " ".join(cc.nan_normalise(cc.canon(
                        cc.to_tokens(world, t, got))))
                except Exception:   # noqa
                    obs = "value"
        except UnknownCodecError:
            obs = "unknown"
        except DecodeError:
            # bad arity reached, or junk bytes rejected by a strict read: the
            # message text is not looked at; the model must not return a value
            obs = "decode-error"
        except (Exception, core.ImplTimeout) as e:   # noqa
            obs = "exc:" + type(e).__name__
        lines.append("dec %s %s" % (nh, cc.hexb(data)))
        want.append(obs)
        what.append((name, "dec", data.hex()))
        ctx.count("bad-arity:%s:dec:%s" % (shape_, obs.split(" ")[0]))
        ctx.nontriv(("bad-arity", shape_, "dec", obs.split(" ")[0], bad[0]))
        # ---- encode
        if toks is not None:
            try:
                out = cc.impl_encode(gtirb, name, v)
                eobs = "ok " + cc.hexb(out)
            except EncodeError:
                eobs = "none"
            except (Exception, core.ImplTimeout) as e:   # noqa
                eobs = "exc:" + type(e).__name__
            lines.append("enc %s %s" % (nh, " ".join(toks)))
            want.append(eobs)
            what.append((name, "enc", " ".join(toks)))
            ctx.count("bad-arity:%s:enc:%s" % (shape_, eobs.split(" ")[0]))
        ctx.evaluations += 1
    out = core.lean_batch("codec", world.node_lines() + lines)[
        len(world.node_lines()):]
    for (name, op, arg), w, o in zip(what, want, out):
        if op == "dec":
            head = o.split(" ")[0]
            lean = {"ok": "value", "unknown": "unknown",
                    "unsupported": "unsupported"}.get(head, o)
            # strict reads of the model (short input) are outside C07 / C08
            if lean in ("short", "badutf8", "badindex") or \
                    (w.startswith("value") and lean != "value"
                     and lean not in ("unknown", "unsupported")):
                continue
            if w.startswith("exc:"):
                continue       # junk bytes: Python's lenient reads
            if w == "decode-error":
                ok = lean == "unsupported"   # DecodeError <-> bad arity reached
            elif w.startswith("value ") and lean == "value":
                try:
                    ok = w[6:] == " ".join(cc.nan_normalise(cc.canon(
                        o.split(" ")[2:])))
                except Exception:   # noqa
                    ok = False
            else:
                ok = lean == w.split(" ")[0]
        elif o != w and o.startswith("ok ") and w.startswith("ok ") and \
                ("set<" in name or "mapping<" in name):
            # the order of set elements / mapping entries in the bytes is
            # Python's iteration order: same length and same multiset of
            # bytes is what is compared here (the exact conformance of
            # unordered containers is the business of the main stream)
            ok = len(o) == len(w) and sorted(
                bytes.fromhex(o[3:])) == sorted(bytes.fromhex(w[3:]))
        else:
            ok = o == w
        if not ok:
            ctx.tie_broken.append(
                "correspondence:codec bad-arity %s %s %s impl=%s lean=%s"
                % (op, name, arg[:40], w, o[:60]))
            break


def java_supported(t):
    name, kids = t
    if name in ("Addr", "double"):
        return False
    if name == "tuple" and not 1 <= len(kids) <= 5:
        return False
    if name == "variant" and len(kids) not in (2, 3, 11):
        return False
    return all(java_supported(k) for k in kids)


def nodes_as_uuids(world, toks):
    """Java has no node objects: a node travels as its UUID"""
    out = []
    i = 0
    while i < len(toks):
        if toks[i] == "n":
            out += ["u", world.nodes[int(toks[i + 1])].uuid.bytes.hex()]
            i += 2
        else:
            out.append(toks[i])
            i += 1
    return out


def java_cross(ctx, world, cases):
    """C08: the repository's Java codec decodes this API's bytes to the same
    value, and this API decodes the Java codec's bytes to the same value."""
    import java_cross as jx
    if not jx.available(rebuild=True):
        ctx.extra["java_cross"] = "unavailable: " + jx.why_unavailable()[:200]
        if ctx.thorough():
            raise core.HarnessError("Java cross-check unavailable: "
                                    + jx.why_unavailable()[:300])
        return
    gtirb = world.gtirb
    lookup = world.ir.get_by_uuid
    sel = [c for c in cases if java_supported(c.t) and c.impl_bytes is not None
           and c.stream != "hashed-probe"]
    lines = []
    for c in sel:
        lines.append(jx.dec_line(c.name, c.impl_bytes))
        lines.append(jx.enc_line(c.name, nodes_as_uuids(world, c.toks)))
    out = jx.run(lines)
    n_ok = 0
    for i, c in enumerate(sel):
        d, e = out[2 * i], out[2 * i + 1]
        ctx.evaluations += 1
        replay = {"type": c.name, "value_tokens": " ".join(c.toks),
                  "impl_bytes": c.impl_bytes.hex(), "java_dec": d[:300],
                  "java_enc": e[:300]}
        want = cc.nan_normalise(cc.canon(nodes_as_uuids(world, c.toks)))
        if d == "unsupported" or e == "unsupported":
            ctx.count("java:unsupported")
            continue
        if not d.startswith("ok "):
            ctx.report({"kind": "java-decode", "head": c.t[0]}, replay,
                       "the Java codec cannot decode this API's bytes for "
                       "%s: %s" % (c.name, d))
            continue
        parts = d.split(" ")
        got = cc.nan_normalise(cc.canon(parts[2:]))
        if int(parts[1]) != len(c.impl_bytes) or got != want:
            ctx.report({"kind": "java-decode", "head": c.t[0]}, replay,
                       "the Java codec decodes this API's bytes for %s to "
                       "another value" % c.name)
            continue
        if not e.startswith("ok "):
            ctx.report({"kind": "java-encode", "head": c.t[0]}, replay,
                       "the Java codec cannot encode the value for %s: %s"
                       % (c.name, e))
            continue
        jb = jx.unhex(e[3:])
        try:
            v = cc.impl_decode(gtirb, c.name, jb, lookup)
            back = cc.nan_normalise(cc.canon(nodes_as_uuids(
                world, cc.to_tokens(world, c.t, v))))
        except (Exception, core.ImplTimeout) as ex:   # noqa
            back = "exc:" + type(ex).__name__
        if back != want:
            ctx.report({"kind": "java-bytes-decode", "head": c.t[0]}, replay,
                       "bytes produced by the Java codec for %s decode to "
                       "another value here" % c.name)
            continue
        n_ok += 1
    ctx.count("java:cross-decoded", n_ok)
    ctx.extra["java_cross"] = "%d cases cross-decoded both ways" % n_ok


def replay(ctx, data, which):
    import gtirb
    r = data["replay"]
    world = cc.World(ctx.rng)
    print("replay of a codec case: type=%s value=%s" % (
        r.get("type"), r.get("value_tokens")))
    print("(node-free cases re-run below; cases with nodes are regenerated "
          "by the seeded run: VERIF_SEED=%s ./check %s)" % (
              data.get("seed"), ctx.prop))
    toks = r.get("value_tokens", "").split(" ")
    if "n" in toks or "u" in toks:
        run(ctx, which)
        return
    t = tree_of_name(r["type"])
    v = value_of_tokens(gtirb, t, toks)
    c = Case()
    c.t, c.v, c.stream = t, v, "replay"
    c.garbage = bytes.fromhex(r.get("garbage", ""))
    run_cases(ctx, world, [c], which)


def tree_of_name(name):
    import props.C15 as c15
    t = c15.ref_parse(name)
    def conv(x):
        return (x[0], [conv(k) for k in x[1]])
    return conv(t)


def value_of_tokens(gtirb, t, toks):
    def go(t, p):
        name, kids = t
        k = toks[p]
        if k == "i":
            return int(toks[p + 1]), p + 2
        if k == "b":
            return toks[p + 1] == "1", p + 2
        if k == "f":
            return struct.unpack("<f", struct.pack(
                "<I", int(toks[p + 1])))[0], p + 2
        if k == "d":
            return struct.unpack("<d", struct.pack(
                "<Q", int(toks[p + 1])))[0], p + 2
        if k == "s":
            h = toks[p + 1]
            return ("" if h == "-" else bytes.fromhex(h).decode()), p + 2
        if k in ("L", "S", "T"):
            n = int(toks[p + 1])
            p += 2
            xs = []
            for j in range(n):
                x, p = go(kids[j] if k == "T" else kids[0], p)
                xs.append(x)
            return ({"L": list, "S": set, "T": tuple}[k](xs)), p
        if k == "M":
            n = int(toks[p + 1])
            p += 2
            d = {}
            for _ in range(n):
                a, p = go(kids[0], p)
                b, p = go(kids[1], p)
                d[a] = b
            return d, p
        if k == "V":
            i = int(toks[p + 1])
            x, p = go(kids[i], p + 2)
            return gtirb.Variant(i, x), p
        raise ValueError(k)
    v, p = go(t, 0)
    return v
