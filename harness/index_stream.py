"""Streams for C05 / C06 / C12 (and the address part of C13): edit histories
on real sections / byte intervals / blocks over tiny coordinates, with lookup
batches; direct oracle = fresh scan; tie = Lean model `Gtirb.Index`."""
import core

N_SEC, N_BI, N_BLK = 3, 5, 9


def sandwich_line(line, a, b):
    """section / module / IR scope block and symbolic-expression lookups:
    the property fixes the answer only up to the must / may sandwich (what
    lies beyond an interval's declared extent may or may not be reported),
    which the direct oracle has checked on the implementation's answer; the
    model's answer is the current code's choice inside that sandwich
    (theorems C05_scope_*_sound / _inside, C13_scope_at_sandwich)"""
    return line.startswith(("q sbon ", "q sbat ", "symq "))
ADDRS = [None, 0, 1, 2, 3, 4, 5, 6, 8, 10, 12]
BIG = [2**64 - 8, 2**63]
# beyond what a file can store: accepted by the setters of the unmodified
# code; a setter that rejects them must leave the structure (and every index)
# as it was
HUGE = [2**64, 2**64 + 5, 2**64 + 2**32, 2**70]


class World:
    """Real objects + an abstract mirror (plain dicts) used for the scan."""

    def __init__(self, rng, sym=False):
        import gtirb
        self.g = gtirb
        self.rng = rng
        # C13: intervals also carry symbolic expressions (identified by the
        # `offset` operand of the SymAddrConst) and the scope-level
        # symbolic_expressions_at lookups are driven (model `symscopes`)
        self.sym = sym
        self.next_expr = 1
        self.ir = gtirb.IR()
        self.mods = [gtirb.Module(name="m0", ir=self.ir),
                     gtirb.Module(name="m1", ir=self.ir)]
        self.secs, self.bis, self.blks = [], [], []
        self.symbols = [gtirb.Symbol(name="y%d" % i, module=self.mods[0])
                        for i in range(2)] if sym else []
        self.lines = ["reset"]
        self.impl = ["ok"]

    def emit(self, line, out="ok"):
        self.lines.append(line)
        self.impl.append(out)

    def setup(self, crowded=None):
        g, rng = self.g, self.rng
        if crowded is None:
            crowded = rng.random() < 0.4
        for i in range(N_SEC):
            s = g.Section(name="s%d" % i, module=self.mods[i % 2])
            self.secs.append(s)
            self.emit("sec %d" % i)
        self.addressless = rng.random() < 0.3
        for i in range(N_BI):
            a = None if self.addressless else rng.choice(ADDRS)
            z = rng.randrange(0, 7)
            bi = g.ByteInterval(address=a, size=z)
            self.bis.append(bi)
            self.emit("bi %d %s %d" % (i, "-" if a is None else a, z))
        for i in range(N_BLK):
            code = i % 2 == 0
            o, z = rng.randrange(0, 7), rng.randrange(0, 5)
            b = (g.CodeBlock if code else g.DataBlock)(offset=o, size=z)
            self.blks.append(b)
            self.emit("blk %d %s %d %d" % (i, "code" if code else "data", o, z))
        if crowded:
            # most blocks in one addressed interval of section 0, so that the
            # incremental branch of the lazy index (fewer pending events than
            # members) is the common one
            self.apply(("bi-parent", 0, 0))
            if self.bis[0].address is None and not self.addressless:
                self.apply(("biaddr", 0, rng.choice([0, 2, 4])))
            for i in range(N_BLK - 2):
                self.apply(("blk-add", i, 0))
            for i in (1, 2):
                self.apply(("bi-add", i, 0))
        elif self.addressless:
            # several address-less intervals in one section: its index is
            # first built while it holds nothing
            for i in range(4):
                self.apply(("bi-add", i, 1))

    # ---- abstract edits; each returns the driver line(s) it corresponds to
    def apply(self, op):
        k = op[0]
        self.rejected = None
        if k == "blkoff":
            b = self.blks[op[1]]
            self.assign(b, "offset", op[2])
            self.emit("blkset %d %d %d" % (op[1], b.offset, b.size))
        elif k == "blksize":
            b = self.blks[op[1]]
            self.assign(b, "size", op[2])
            self.emit("blkset %d %d %d" % (op[1], b.offset, b.size))
        elif k == "biaddr":
            x = self.bis[op[1]]
            a = self.assign(x, "address", op[2])
            self.emit("biset %d %s %d" % (op[1], "-" if a is None
                                          else a, x.size))
        elif k == "bisize":
            x = self.bis[op[1]]
            z = self.assign(x, "size", op[2])
            self.emit("biset %d %s %d" % (
                op[1], "-" if x.address is None else x.address, z))
        elif k == "blk-parent":       # b.byte_interval = x / None
            b = self.blks[op[1]]
            b.byte_interval = None if op[2] is None else self.bis[op[2]]
            self.emit("blkmove %d %s 1" % (op[1], "-" if op[2] is None
                                           else op[2]))
        elif k == "blk-add":          # x.blocks.add(b)
            self.bis[op[2]].blocks.add(self.blks[op[1]])
            self.emit("blkmove %d %d 0" % (op[1], op[2]))
        elif k == "blk-update":       # x.blocks.update([b1, b2, ...])
            self.bis[op[2]].blocks.update([self.blks[i] for i in op[1]])
            for i in op[1]:
                self.emit("blkmove %d %d 0" % (i, op[2]))
        elif k == "burst":            # several edits of one interval in a row
            x = self.bis[op[1]]
            for a in op[2]:
                x.address = a
                self.emit("biset %d %s %d" % (op[1], "-" if a is None else a,
                                              x.size))
        elif k == "blk-discard":      # x.blocks.discard(b)
            b = self.blks[op[1]]
            member = b.byte_interval is self.bis[op[2]]
            self.bis[op[2]].blocks.discard(b)
            if member:
                self.emit("blkmove %d - 0" % op[1])
        elif k == "bi-parent":
            x = self.bis[op[1]]
            x.section = None if op[2] is None else self.secs[op[2]]
            self.emit("bimove %d %s 1" % (op[1], "-" if op[2] is None
                                          else op[2]))
        elif k == "bi-add":
            self.secs[op[2]].byte_intervals.add(self.bis[op[1]])
            self.emit("bimove %d %d 1" % (op[1], op[2]))
        elif k == "bi-discard":
            x = self.bis[op[1]]
            member = x.section is self.secs[op[2]]
            self.secs[op[2]].byte_intervals.discard(x)
            if member:
                self.emit("bimove %d - 1" % op[1])
        elif k == "blk-toggle":       # change an attribute and restore it
            b = self.blks[op[1]]
            if op[2] == "offset":
                old = b.offset
                b.offset = op[3]
                self.emit("blkset %d %d %d" % (op[1], b.offset, b.size))
                b.offset = old
            else:
                old = b.size
                b.size = op[3]
                self.emit("blkset %d %d %d" % (op[1], b.offset, b.size))
                b.size = old
            self.emit("blkset %d %d %d" % (op[1], b.offset, b.size))
        elif k == "bi-toggle":
            x = self.bis[op[1]]
            old = x.address
            x.address = op[2]
            self.emit("biset %d %s %d" % (op[1], "-" if op[2] is None
                                          else op[2], x.size))
            x.address = old
            self.emit("biset %d %s %d" % (op[1], "-" if old is None else old,
                                          x.size))
        elif k == "sym-set":
            x = self.bis[op[1]]
            eid = self.next_expr
            self.next_expr += 1
            x.symbolic_expressions[op[2]] = self.g.SymAddrConst(
                eid, self.rng.choice(self.symbols))
            self.emit("sym %d %d %d" % (op[1], op[2], eid))
        elif k == "sym-del":
            x = self.bis[op[1]]
            if op[2] in x.symbolic_expressions:
                del x.symbolic_expressions[op[2]]
                self.emit("symdel %d %d" % (op[1], op[2]))
        elif k == "reload" and not self.loadable():
            pass        # values a file cannot store: no save + load here
        elif k == "reload":
            # save + load: everything attached to the IR is replaced by the
            # loaded objects (same UUIDs, fresh indexes); detached nodes stay
            import io
            buf = io.BytesIO()
            self.ir.save_protobuf_file(buf)
            buf.seek(0)
            ir2 = self.g.IR.load_protobuf_file(buf)
            by = {}
            for n in list(ir2.modules) + list(ir2.sections) + \
                    list(ir2.byte_intervals) + list(ir2.byte_blocks) + \
                    list(ir2.symbols):
                by[n.uuid] = n

            def swap(lst):
                ids = []
                for i, o in enumerate(lst):
                    if o.uuid in by and o.ir is self.ir:
                        lst[i] = by[o.uuid]
                        ids.append(i)
                return ids
            # order matters: `o.ir is self.ir` is asked of the OLD objects
            bl = swap(self.blks)
            bi_ids = swap(self.bis)
            sec_ids = swap(self.secs)
            swap(self.symbols)
            self.mods = [by[m.uuid] for m in self.mods]
            self.ir = ir2
            fmt_ = lambda l: ",".join(str(i) for i in l) or "-"   # noqa
            self.emit("reload %s %s" % (fmt_(bi_ids), fmt_(sec_ids)))
        elif k == "sec-move":         # changes module-scope composition only
            self.secs[op[1]].module = self.mods[op[2]]
        else:
            raise ValueError(k)

    def assign(self, obj, attr, value):
        """obj.attr = value. The value the model is told is the one asked for;
        if the setter REJECTS the assignment (an exception, which no property
        here forbids for values a file cannot store), the model is told what
        the attribute holds now, and the lookups that follow are compared with
        a scan of the structure as it is."""
        try:
            setattr(obj, attr, value)
        except (ValueError, OverflowError, TypeError) as e:
            self.rejected = type(e).__name__
            return getattr(obj, attr)
        return value

    def gen_edit(self):
        rng = self.rng
        if rng.random() < 0.02 and self.loadable():
            return ("reload",)
        if self.sym and rng.random() < 0.3:
            if rng.random() < 0.75:
                return ("sym-set", rng.randrange(N_BI), rng.randrange(0, 9))
            return ("sym-del", rng.randrange(N_BI), rng.randrange(0, 9))
        r = rng.random()
        if r < 0.08:
            return ("blk-toggle", rng.randrange(N_BLK),
                    rng.choice(["offset", "size"]), rng.randrange(0, 8))
        if r < 0.12:
            return ("bi-toggle", rng.randrange(N_BI), rng.choice(ADDRS))
        if r < 0.24:
            return ("blkoff", rng.randrange(N_BLK), rng.randrange(0, 8)
                    if rng.random() < 0.96 else rng.choice(HUGE))
        if r < 0.38:
            return ("blksize", rng.randrange(N_BLK), rng.randrange(0, 6)
                    if rng.random() < 0.96 else rng.choice(HUGE))
        if r < 0.5:
            r2 = rng.random()
            a = rng.choice(ADDRS) if r2 < 0.86 else rng.choice(BIG) \
                if r2 < 0.94 else rng.choice(HUGE)
            return ("biaddr", rng.randrange(N_BI), a)
        if r < 0.6:
            return ("bisize", rng.randrange(N_BI), rng.randrange(0, 8)
                    if rng.random() < 0.96 else rng.choice(HUGE))
        if r < 0.7:
            return ("blk-parent", rng.randrange(N_BLK),
                    rng.choice([None] + list(range(N_BI)) * 2))
        if r < 0.74:
            return ("blk-add", rng.randrange(N_BLK), rng.randrange(N_BI))
        if r < 0.765:
            return ("blk-update", rng.sample(range(N_BLK),
                                             rng.randrange(2, 6)),
                    rng.randrange(N_BI))
        if r < 0.78:
            return ("burst", rng.randrange(N_BI),
                    [rng.choice(ADDRS) for _ in range(rng.randrange(3, 8))])
        if r < 0.83:
            return ("blk-discard", rng.randrange(N_BLK), rng.randrange(N_BI))
        if r < 0.9:
            return ("bi-parent", rng.randrange(N_BI),
                    rng.choice([None] + list(range(N_SEC)) * 2))
        if r < 0.95:
            return ("bi-add", rng.randrange(N_BI), rng.randrange(N_SEC))
        if r < 0.98:
            return ("bi-discard", rng.randrange(N_BI), rng.randrange(N_SEC))
        return ("sec-move", rng.randrange(N_SEC), rng.randrange(2))

    def loadable(self):
        """can the IR be saved and loaded back unchanged? (stored bytes within
        size hold by construction; symbolic expressions refer to symbols of
        module 0, which comes first)"""
        lim = 2 ** 64
        return all(m.ir is self.ir for m in self.mods) and all(
            (x.address or 0) < lim and x.size < lim for x in self.bis) and \
            all(b.offset < lim and b.size < lim for b in self.blks)

    # ---- scans (specification side), computed from the real objects'
    # plain attributes only
    def blk_addr(self, b):
        x = b.byte_interval
        if x is None or x.address is None:
            return None
        return x.address + b.offset

    def scan_blocks(self, blocks, rng_, mode, space):
        """qualifying blocks among `blocks` for a query; space: 'addr' or
        'off'; mode 'on' or 'at'. Returns list of indices."""
        start, stop, step = rng_
        out = []
        for b in blocks:
            pos = b.offset if space == "off" else self.blk_addr(b)
            if pos is None:
                continue
            if mode == "on":
                if b.size != 0 and start < stop and pos < stop and \
                        pos + b.size > start:
                    out.append(b)
            else:
                if start <= pos < stop and (pos - start) % step == 0:
                    out.append(b)
        return out

    def must_blocks(self, blocks, rng_, mode):
        """blocks the section/module/IR scopes must report: the qualifying
        part lies inside the declared extent of the block's interval"""
        start, stop, step = rng_
        out = []
        for b in self.scan_blocks(blocks, rng_, mode, "addr"):
            x = b.byte_interval
            lo, hi = x.address, x.address + x.size
            pos = x.address + b.offset
            if mode == "on":
                a, e = max(pos, start, lo), min(pos + b.size, stop, hi)
                if a < e:
                    out.append(b)
            else:
                if lo <= pos < hi:
                    out.append(b)
        return out

    def scan_bis(self, bis, rng_, mode):
        start, stop, step = rng_
        out = []
        for x in bis:
            a = x.address
            if a is None:
                continue
            if mode == "on":
                if x.size != 0 and start < stop and a < stop and \
                        a + x.size > start:
                    out.append(x)
            else:
                if start <= a < stop and (a - start) % step == 0:
                    out.append(x)
        return out

    # ---- lookups on the implementation + comparison
    def rnd_range(self):
        rng = self.rng
        if rng.random() < 0.04:
            # ranges with more members than fit a machine word
            start = rng.choice([0, -3, 2**63, 2])
            step = rng.choice([1, 1, 2, 3])
            return (start, 2**64, step), range(start, 2**64, step)
        r = rng.random()
        if r < 0.45:
            p = rng.randrange(-1, 17)
            return (p, p + 1, 1), p
        start = rng.randrange(-1, 15)
        stop = start + rng.randrange(-2, 9)
        step = rng.choice([1, 1, 2, 3, 5])
        return (start, stop, step), range(start, stop, step)

    def ids(self, objs, pool):
        idx = {id(o): i for i, o in enumerate(pool)}
        return sorted(idx.get(id(o), 999) for o in objs)

    def lookups(self, ctx, prop, report, n=None):
        """One batch of lookups on every scope. Returns False after a
        reported violation."""
        rng = self.rng
        blks, bis, secs = self.blks, self.bis, self.secs

        def fmt(l):
            return "[" + ",".join(str(x) for x in l) + "]"

        def kinds(objs, cls):
            return [o for o in objs if isinstance(o, cls)]
        g = self.g
        for xi, x in enumerate(bis):
            for fn, meth, space, mode in (
                    ("bono", "byte_blocks_on_offset", "off", "on"),
                    ("bato", "byte_blocks_at_offset", "off", "at"),
                    ("bon", "byte_blocks_on", "addr", "on"),
                    ("bat", "byte_blocks_at", "addr", "at")):
                if rng.random() < 0.5:
                    continue
                rg, arg = self.rnd_range()
                got = list(getattr(x, meth)(arg))
                mine = [b for b in blks if b.byte_interval is x]
                want = self.scan_blocks(mine, rg, mode, space)
                ctx.evaluations += 1
                gi, wi = self.ids(got, blks), self.ids(want, blks)
                self.emit("q %s %d %d %d %d" % (fn, xi, rg[0], rg[1], rg[2]),
                          fmt(gi))
                if got:
                    ctx.nontriv((fn, len(got), rg[2] > 1, rg[1] - rg[0] > 1))
                cm = meth.replace("byte_", "code_")
                dm = meth.replace("byte_", "data_")
                gc = self.ids(getattr(x, cm)(arg), blks)
                gd = self.ids(getattr(x, dm)(arg), blks)
                wc = self.ids(kinds(want, g.CodeBlock), blks)
                wd = self.ids(kinds(want, g.DataBlock), blks)
                if (gi, gc, gd) != (wi, wc, wd):
                    return report("C05", "%s(%s) on interval %d returned "
                                  "byte=%s code=%s data=%s, a scan says "
                                  "byte=%s code=%s data=%s" % (
                                      meth, arg, xi, gi, gc, gd, wi, wc, wd))
        if self.sym:
            for xi, x in enumerate(bis):
                if rng.random() < 0.5:
                    continue
                rg, arg = self.rnd_range()
                got = sorted("%d:%d:%d" % (xi, k, e.offset) for _, k, e in
                             x.symbolic_expressions_at(arg))
                want = []
                if x.address is not None:
                    for k, e in x.symbolic_expressions.items():
                        p = x.address + k
                        if rg[0] <= p < rg[1] and (p - rg[0]) % rg[2] == 0:
                            want.append("%d:%d:%d" % (xi, k, e.offset))
                ctx.evaluations += 1
                self.emit("symqi %d %d %d %d" % (xi, rg[0], rg[1], rg[2]),
                          "[" + ",".join(got) + "]")
                if got != sorted(want):
                    return report("C13", "symbolic_expressions_at(%s) on "
                                  "interval %d returned %s, a scan says %s"
                                  % (arg, xi, got, sorted(want)))
        scopes = [("sec", si, [s]) for si, s in enumerate(secs)]
        scopes += [("mod", mi, list(m.sections))
                   for mi, m in enumerate(self.mods)]
        scopes.append(("ir", 0, list(self.ir.sections)))
        for kind, si, members in scopes:
            owner = {"sec": secs, "mod": self.mods,
                     "ir": [self.ir]}[kind][si]
            sec_ids = self.ids(members, secs)
            arg_ids = ",".join(str(i) for i in [
                secs.index(s) for s in members]) or "-"
            in_scope_bis = [x for x in bis if x.section is not None and
                            any(x.section is s for s in members)]
            in_scope_blks = [b for b in blks if b.byte_interval is not None
                             and any(b.byte_interval is x
                                     for x in in_scope_bis)]
            for fn, meth, mode in (("sbison", "byte_intervals_on", "on"),
                                   ("sbisat", "byte_intervals_at", "at")):
                rg, arg = self.rnd_range()
                got = self.ids(getattr(owner, meth)(arg), bis)
                want = self.ids(self.scan_bis(in_scope_bis, rg, mode), bis)
                ctx.evaluations += 1
                self.emit("q %s %s %d %d %d" % (fn, arg_ids, rg[0], rg[1],
                                                rg[2]), fmt(got))
                if got:
                    ctx.nontriv((kind, fn, len(got), rg[2] > 1))
                if got != want:
                    return report("C06", "%s(%s) on %s %d returned %s, a "
                                  "scan says %s" % (meth, arg, kind, si, got,
                                                    want))
            for fn, meth, mode in (("sbon", "byte_blocks_on", "on"),
                                   ("sbat", "byte_blocks_at", "at")):
                rg, arg = self.rnd_range()
                gobjs = list(getattr(owner, meth)(arg))
                got = self.ids(gobjs, blks)
                may = self.ids(self.scan_blocks(in_scope_blks, rg, mode,
                                                "addr"), blks)
                must = self.ids(self.must_blocks(in_scope_blks, rg, mode),
                                blks)
                ctx.evaluations += 1
                self.emit("q %s %s %d %d %d" % (fn, arg_ids, rg[0], rg[1],
                                                rg[2]), fmt(got))
                if got:
                    ctx.nontriv((kind, fn, len(got), rg[2] > 1,
                                 len(may) - len(must)))
                gc = self.ids(getattr(owner, meth.replace("byte_", "code_"))(
                    arg), blks)
                gd = self.ids(getattr(owner, meth.replace("byte_", "data_"))(
                    arg), blks)
                wc = self.ids(kinds(gobjs, g.CodeBlock), blks)
                wd = self.ids(kinds(gobjs, g.DataBlock), blks)
                ok = (len(set(got)) == len(got)
                      and set(must) <= set(got) <= set(may)
                      and gc == wc and gd == wd)
                if not ok:
                    return report("C05", "%s(%s) on %s %d returned byte=%s "
                                  "code=%s data=%s; must contain %s, may "
                                  "contain %s" % (meth, arg, kind, si, got,
                                                  gc, gd, must, may))
            if self.sym:
                rg, arg = self.rnd_range()
                gobjs = list(owner.symbolic_expressions_at(arg))
                bidx = {id(x): i for i, x in enumerate(bis)}
                got = ["%d:%d:%d" % (bidx.get(id(x), 999), k, e.offset)
                       for x, k, e in gobjs]
                may, must = [], []
                for x in in_scope_bis:
                    if x.address is None:
                        continue
                    for k, e in x.symbolic_expressions.items():
                        p = x.address + k
                        if rg[0] <= p < rg[1] and (p - rg[0]) % rg[2] == 0:
                            it = "%d:%d:%d" % (bidx[id(x)], k, e.offset)
                            may.append(it)
                            if k < x.size:
                                must.append(it)
                ctx.evaluations += 1
                self.emit("symq %s %d %d %d" % (arg_ids, rg[0], rg[1], rg[2]),
                          "[" + ",".join(sorted(got)) + "]")
                if got:
                    ctx.nontriv((kind, "symat", len(got), rg[2] > 1,
                                 len(may) - len(must)))
                ctx.count("symq:%s:%s" % (kind, "hit" if got else "empty"))
                if len(set(got)) != len(got) or \
                        not set(must) <= set(got) <= set(may):
                    return report("C13", "symbolic_expressions_at(%s) on %s "
                                  "%d returned %s; must contain %s, may "
                                  "contain %s" % (arg, kind, si, sorted(got),
                                                  sorted(must), sorted(may)))
            if kind in ("mod", "ir"):
                for meth, mode in (("sections_on", "on"),
                                   ("sections_at", "at")):
                    rg, arg = self.rnd_range()
                    got = self.ids(getattr(owner, meth)(arg), secs)
                    self.emit("q %s %s %d %d %d" % (
                        "secson" if mode == "on" else "secsat", arg_ids,
                        rg[0], rg[1], rg[2]), fmt(got))
                    want = []
                    for s in members:
                        ext = self.sec_extent_scan(s)
                        if ext is None:
                            continue
                        a, z = ext
                        if mode == "on":
                            if z != 0 and rg[0] < rg[1] and a < rg[1] and \
                                    a + z > rg[0]:
                                want.append(s)
                        elif rg[0] <= a < rg[1] and (a - rg[0]) % rg[2] == 0:
                            want.append(s)
                    want = self.ids(want, secs)
                    ctx.evaluations += 1
                    if got != want:
                        return report("C06", "%s(%s) on %s %d returned %s, "
                                      "a scan says %s" % (meth, arg, kind, si,
                                                          got, want))
            if kind == "sec":
                s = members[0]
                a, z = s.address, s.size
                want = self.sec_extent_scan(s)
                self.emit("ext %d" % si, "%s %s" % (
                    "-" if a is None else a, "-" if z is None else z))
                ctx.evaluations += 1
                if (None if a is None else (a, z)) != want or \
                        (a is None) != (z is None):
                    return report("C06", "section %d address/size = %s/%s, "
                                  "a scan says %s" % (si, a, z, want))
        return True

    def sec_extent_scan(self, s):
        mine = [x for x in self.bis if x.section is s]
        if not mine or any(x.address is None for x in mine):
            return None
        lo = min(x.address for x in mine)
        hi = max(x.address + x.size for x in mine)
        return (lo, hi - lo)


def run_history(ctx, hno, steps, tie, lookup_every, sym=False):
    w = World(ctx.rng, sym)
    w.setup()
    script = []
    state = {"ok": True}
    first_lookup = w.addressless

    def report(prop, what):
        if ctx.prop in (prop, "C12") or (sym and prop in ("C05", "C06")):
            ctx.report({"kind": "lookup-vs-scan", "prop": prop},
                       {"script": script, "lines": w.lines[-40:]}, what)
        state["ok"] = False
        return False
    for s in range(steps):
        if first_lookup:
            first_lookup = False
            if not w.lookups(ctx, ctx.prop, report):
                return None
        op = w.gen_edit()
        script.append(op)
        try:
            with core.time_limit(20):
                w.apply(op)
        except (Exception, core.ImplTimeout) as e:   # noqa
            ctx.report({"kind": "edit-raises", "exception": type(e).__name__},
                       {"script": script}, "edit %r raised %s: %s"
                       % (op, type(e).__name__, str(e)[:80]))
            return None
        ctx.evaluations += 1
        ctx.count("edit:" + op[0])
        if getattr(w, "rejected", None):
            ctx.count("edit-rejected:" + w.rejected)
        if ctx.rng.random() < lookup_every or getattr(w, "rejected", None):
            try:
                with core.time_limit(60):
                    ok = w.lookups(ctx, ctx.prop, report)
            except (Exception, core.ImplTimeout) as e:   # noqa
                ctx.report({"kind": "lookup-raises",
                            "exception": type(e).__name__},
                           {"script": script}, "a lookup raised %s: %s"
                           % (type(e).__name__, str(e)[:80]))
                return None
            if not ok:
                return None
    tie.add("history %d" % hno, w.lines, w.impl)
    if hno < 2:
        ctx.sample({"script": [list(o) for o in script[:12]],
                    "lines": w.lines[-6:]})
    return script


def run(ctx):
    ctx.rule = ("edit histories (block offset/size, interval address/size "
                "incl. None and values near 2^64, moves of blocks and "
                "intervals from either end, removal, re-adding) over 3 "
                "sections / 5 intervals / 9 blocks with coordinates 0..12 so "
                "that zero sizes, equal offsets, overlaps and shared "
                "addresses are the norm; lookup batches (points -1..16, "
                "ranges with step 1,2,3,5 incl. empty and reversed) on "
                "every scope and all 18 methods; oracle = fresh scan (exact "
                "at interval scope, must/may sandwich above); non-trivial = "
                "distinct (scope, method, result size, stepped?, ...)")
    tie = core.BatchTie(ctx, "index", "index", flush_at=60,
                         skip_line=sandwich_line)
    n = ctx.scale(250, 6000)
    for h in range(n):
        run_history(ctx, h, ctx.scale(40, 60), tie,
                    ctx.rng.choice([0.15, 0.4, 1.0]))
        if len(ctx.violations) >= 3:
            break
    tie.flush()


def search(ctx, broken):
    tie = core.BatchTie(ctx, "index", "index", flush_at=60,
                         skip_line=sandwich_line)
    for h in range(3000):
        run_history(ctx, 10**6 + h, 60, tie, 0.5)
        if ctx.violations:
            break
    tie.flush()


def replay(ctx, data):
    print("replay script:", data["replay"].get("script"))
    run(ctx)


def run_sym(ctx, n=None):
    """C13 at section / module / IR scope: the same edit histories with
    symbolic expressions stored in the intervals (also beyond their declared
    size), every scope's symbolic_expressions_at against the may/must
    sandwich and against the Lean model `SymScopes` (exact)."""
    tie = core.BatchTie(ctx, "symscopes", "symscopes", flush_at=60,
                         skip_line=sandwich_line)
    for h in range(n or ctx.scale(150, 3000)):
        run_history(ctx, 5 * 10**5 + h, ctx.scale(40, 60), tie,
                    ctx.rng.choice([0.3, 0.6, 1.0]), sym=True)
        if len(ctx.violations) >= 3:
            break
    tie.flush()
