#!/bin/sh
# Compile the AuxData codec subset of the GTIRB Java API straight from the
# repository working tree (nothing is copied), together with the ByteString
# stub and JDriver, into ./build. Quiet on success, non-zero exit on failure.
#   VERIF_REPO   repository root (default /repo)
set -u
HERE=$(cd "$(dirname "$0")" && pwd)
REPO=${VERIF_REPO:-/repo}
SRC="$REPO/java/com/grammatech/gtirb"
OUT=${VERIF_JAVA_OUT:-"$HERE/build"}   # one directory per run: concurrent runs must not share it

rm -rf "$OUT"     # never leave a stale build behind a failed one
command -v javac >/dev/null 2>&1 || { echo "build.sh: javac not found" >&2; exit 127; }
[ -d "$SRC/auxdatacodec" ] || { echo "build.sh: $SRC/auxdatacodec not found" >&2; exit 2; }

mkdir -p "$OUT" || exit 2
LOG=$(mktemp "${TMPDIR:-/tmp}/jdriver-build.XXXXXX") || exit 2
trap 'rm -f "$LOG"' EXIT

# No -sourcepath on purpose: if one of these files starts to depend on more of
# the repository, the build fails loudly instead of silently pulling it in.
javac -nowarn -Xlint:none -encoding UTF-8 -proc:none -d "$OUT" \
    "$HERE"/stub/com/google/protobuf/ByteString.java \
    "$SRC"/Util.java \
    "$SRC"/Offset.java \
    "$SRC"/tuple/*.java \
    "$SRC"/variant/*.java \
    "$SRC"/auxdatacodec/*.java \
    "$HERE"/JDriver.java >"$LOG" 2>&1
rc=$?
if [ $rc -ne 0 ]; then
    cat "$LOG" >&2
    rm -rf "$OUT"
    exit $rc
fi
exit 0
