// Minimal stand-in for com.google.protobuf.ByteString: only what
// /repo/java/com/grammatech/gtirb/Util.java needs (EMPTY, toByteArray,
// copyFrom(byte[])), so that the AuxData codec subset of the GTIRB Java API
// compiles with plain javac and no protobuf jar. Not part of the code under
// test.
package com.google.protobuf;

public final class ByteString {
    public static final ByteString EMPTY = new ByteString(new byte[0]);

    private final byte[] bytes;

    private ByteString(byte[] b) { this.bytes = b; }

    public static ByteString copyFrom(byte[] b) {
        if (b.length == 0) {
            return EMPTY;
        }
        return new ByteString(b.clone());
    }

    public byte[] toByteArray() { return this.bytes.clone(); }

    public int size() { return this.bytes.length; }

    public boolean isEmpty() { return this.bytes.length == 0; }

    @Override
    public boolean equals(Object o) {
        return o instanceof ByteString &&
            java.util.Arrays.equals(this.bytes, ((ByteString)o).bytes);
    }

    @Override
    public int hashCode() { return java.util.Arrays.hashCode(this.bytes); }
}
