// Line-protocol driver around the GTIRB Java AuxData codecs
// (/repo/java/com/grammatech/gtirb/auxdatacodec). One answer line per input
// line:
//
//   dec <typename-hex> <bytes-hex>     -> ok <consumed> <value tokens>
//   enc <typename-hex> <value tokens>  -> ok <bytes-hex>
//
// or `unsupported` (the type cannot be expressed with the Java codecs) or
// `err:<ExceptionClass>`. Empty byte strings are written `-`.
//
// Value tokens (prefix notation, same as harness/codec_common.py):
//   i <dec> | b 0|1 | f <u32 bits> | d <u64 bits> | s <hex|-> | u <32 hex>
//   o u <32 hex> <disp> | L n e* | S n e* | M n (k v)* | T n e* | V idx v
//
// Conventions of this driver (the Java codecs themselves carry no such
// notion, see the comments at IntTy and UuidTy):
//   * uintN_t values are Java's signed Byte/Short/Integer/Long reinterpreted
//     as unsigned according to the type name;
//   * `u` is the canonical (RFC 4122, big-endian) form of the java.util.UUID,
//     i.e. UUID.toString() without the dashes; with --uuid=wire it is the 16
//     bytes Util.uuidToByteArray gives for it (see printUuid).

import com.grammatech.gtirb.Offset;
import com.grammatech.gtirb.Util;
import com.grammatech.gtirb.auxdatacodec.BoolCodec;
import com.grammatech.gtirb.auxdatacodec.ByteCodec;
import com.grammatech.gtirb.auxdatacodec.Codec;
import com.grammatech.gtirb.auxdatacodec.FloatCodec;
import com.grammatech.gtirb.auxdatacodec.IntegerCodec;
import com.grammatech.gtirb.auxdatacodec.ListCodec;
import com.grammatech.gtirb.auxdatacodec.LongCodec;
import com.grammatech.gtirb.auxdatacodec.MapCodec;
import com.grammatech.gtirb.auxdatacodec.OffsetCodec;
import com.grammatech.gtirb.auxdatacodec.SetCodec;
import com.grammatech.gtirb.auxdatacodec.ShortCodec;
import com.grammatech.gtirb.auxdatacodec.StringCodec;
import com.grammatech.gtirb.auxdatacodec.Tuple1Codec;
import com.grammatech.gtirb.auxdatacodec.Tuple2Codec;
import com.grammatech.gtirb.auxdatacodec.Tuple3Codec;
import com.grammatech.gtirb.auxdatacodec.Tuple4Codec;
import com.grammatech.gtirb.auxdatacodec.Tuple5Codec;
import com.grammatech.gtirb.auxdatacodec.UuidCodec;
import com.grammatech.gtirb.auxdatacodec.Variant11Codec;
import com.grammatech.gtirb.auxdatacodec.Variant2Codec;
import com.grammatech.gtirb.auxdatacodec.Variant3Codec;
import com.grammatech.gtirb.tuple.Tuple1;
import com.grammatech.gtirb.tuple.Tuple2;
import com.grammatech.gtirb.tuple.Tuple3;
import com.grammatech.gtirb.tuple.Tuple4;
import com.grammatech.gtirb.tuple.Tuple5;
import com.grammatech.gtirb.variant.Token;
import com.grammatech.gtirb.variant.Variant11;
import com.grammatech.gtirb.variant.Variant2;
import com.grammatech.gtirb.variant.Variant3;
import java.io.BufferedReader;
import java.io.ByteArrayInputStream;
import java.io.ByteArrayOutputStream;
import java.io.InputStreamReader;
import java.io.PrintStream;
import java.math.BigInteger;
import java.nio.charset.StandardCharsets;
import java.util.ArrayList;
import java.util.HashMap;
import java.util.LinkedHashMap;
import java.util.LinkedHashSet;
import java.util.List;
import java.util.Map;
import java.util.Set;
import java.util.UUID;

@SuppressWarnings({"unchecked", "rawtypes"})
public class JDriver {

    // ------------------------------------------------------------ errors
    /** The type is well formed or not, but the Java codecs cannot express
     * it. */
    static final class Unsupported extends RuntimeException {
        Unsupported(String m) { super(m); }
    }

    /** The value tokens do not have the shape of the type. */
    static final class BadTokens extends RuntimeException {
        BadTokens(String m) { super(m); }
    }

    /** The request line itself is malformed. */
    static final class BadRequest extends RuntimeException {
        BadRequest(String m) { super(m); }
    }

    // ------------------------------------------------------------ tokens
    static final class Toks {
        final String[] t;
        int p;
        Toks(String[] t, int p) {
            this.t = t;
            this.p = p;
        }
        String next() {
            if (p >= t.length) {
                throw new BadTokens("out of tokens");
            }
            return t[p++];
        }
        void expect(String k) {
            String s = next();
            if (!s.equals(k)) {
                throw new BadTokens("expected " + k + ", got " + s);
            }
        }
        int count() {
            String s = next();
            int n;
            try {
                n = Integer.parseInt(s);
            } catch (NumberFormatException e) {
                throw new BadTokens("bad count " + s);
            }
            if (n < 0) {
                throw new BadTokens("negative count");
            }
            return n;
        }
        BigInteger dec() {
            String s = next();
            try {
                return new BigInteger(s);
            } catch (NumberFormatException e) {
                throw new BadTokens("bad decimal " + s);
            }
        }
    }

    static final char[] HEX = "0123456789abcdef".toCharArray();

    static String hex(byte[] b) {
        if (b.length == 0) {
            return "-";
        }
        char[] c = new char[b.length * 2];
        for (int i = 0; i < b.length; i++) {
            c[2 * i] = HEX[(b[i] >> 4) & 0xf];
            c[2 * i + 1] = HEX[b[i] & 0xf];
        }
        return new String(c);
    }

    static byte[] unhex(String s) {
        if (s.equals("-")) {
            return new byte[0];
        }
        if (s.length() % 2 != 0) {
            throw new BadRequest("odd hex length");
        }
        byte[] b = new byte[s.length() / 2];
        for (int i = 0; i < b.length; i++) {
            int hi = Character.digit(s.charAt(2 * i), 16);
            int lo = Character.digit(s.charAt(2 * i + 1), 16);
            if (hi < 0 || lo < 0) {
                throw new BadRequest("bad hex digit");
            }
            b[i] = (byte)((hi << 4) | lo);
        }
        return b;
    }

    static final BigInteger TWO64 = BigInteger.ONE.shiftLeft(64);

    // ---------------------------------------------- concrete tuple/variant
    // The repository's TupleN / VariantN classes are abstract; these are the
    // thinnest possible concrete subclasses.
    static final class DT1 extends Tuple1<Object> {
        DT1(Object a) { super(a); }
    }
    static final class DT2 extends Tuple2<Object, Object> {
        DT2(Object a, Object b) { super(a, b); }
    }
    static final class DT3 extends Tuple3<Object, Object, Object> {
        DT3(Object a, Object b, Object c) { super(a, b, c); }
    }
    static final class DT4 extends Tuple4<Object, Object, Object, Object> {
        DT4(Object a, Object b, Object c, Object d) { super(a, b, c, d); }
    }
    static final class DT5
        extends Tuple5<Object, Object, Object, Object, Object> {
        DT5(Object a, Object b, Object c, Object d, Object e) {
            super(a, b, c, d, e);
        }
    }

    static final class DV2 extends Variant2<Object, Object> {
        DV2(Token.T0 t, Object o) { super(t, o); }
        DV2(Token.T1 t, Object o) { super(t, o); }
        static DV2 make(int i, Object o) {
            switch (i) {
            case 0:
                return new DV2(new Token.T0(), o);
            case 1:
                return new DV2(new Token.T1(), o);
            }
            throw new BadTokens("variant index " + i);
        }
        Object payload() {
            switch (getIndex()) {
            case 0:
                return get0().get();
            default:
                return get1().get();
            }
        }
    }

    static final class DV3 extends Variant3<Object, Object, Object> {
        DV3(Token.T0 t, Object o) { super(t, o); }
        DV3(Token.T1 t, Object o) { super(t, o); }
        DV3(Token.T2 t, Object o) { super(t, o); }
        static DV3 make(int i, Object o) {
            switch (i) {
            case 0:
                return new DV3(new Token.T0(), o);
            case 1:
                return new DV3(new Token.T1(), o);
            case 2:
                return new DV3(new Token.T2(), o);
            }
            throw new BadTokens("variant index " + i);
        }
        Object payload() {
            switch (getIndex()) {
            case 0:
                return get0().get();
            case 1:
                return get1().get();
            default:
                return get2().get();
            }
        }
    }

    static final class DV11
        extends Variant11<Object, Object, Object, Object, Object, Object,
                          Object, Object, Object, Object, Object> {
        DV11(Token.T0 t, Object o) { super(t, o); }
        DV11(Token.T1 t, Object o) { super(t, o); }
        DV11(Token.T2 t, Object o) { super(t, o); }
        DV11(Token.T3 t, Object o) { super(t, o); }
        DV11(Token.T4 t, Object o) { super(t, o); }
        DV11(Token.T5 t, Object o) { super(t, o); }
        DV11(Token.T6 t, Object o) { super(t, o); }
        DV11(Token.T7 t, Object o) { super(t, o); }
        DV11(Token.T8 t, Object o) { super(t, o); }
        DV11(Token.T9 t, Object o) { super(t, o); }
        DV11(Token.T10 t, Object o) { super(t, o); }
        static DV11 make(int i, Object o) {
            switch (i) {
            case 0:
                return new DV11(new Token.T0(), o);
            case 1:
                return new DV11(new Token.T1(), o);
            case 2:
                return new DV11(new Token.T2(), o);
            case 3:
                return new DV11(new Token.T3(), o);
            case 4:
                return new DV11(new Token.T4(), o);
            case 5:
                return new DV11(new Token.T5(), o);
            case 6:
                return new DV11(new Token.T6(), o);
            case 7:
                return new DV11(new Token.T7(), o);
            case 8:
                return new DV11(new Token.T8(), o);
            case 9:
                return new DV11(new Token.T9(), o);
            case 10:
                return new DV11(new Token.T10(), o);
            }
            throw new BadTokens("variant index " + i);
        }
        Object payload() {
            switch (getIndex()) {
            case 0:
                return get0().get();
            case 1:
                return get1().get();
            case 2:
                return get2().get();
            case 3:
                return get3().get();
            case 4:
                return get4().get();
            case 5:
                return get5().get();
            case 6:
                return get6().get();
            case 7:
                return get7().get();
            case 8:
                return get8().get();
            case 9:
                return get9().get();
            default:
                return get10().get();
            }
        }
    }

    // ------------------------------------------------------------- types
    /** A node of the parsed type tree: the Java codec object for it plus the
     * token printer / parser for the Java values of that codec. */
    abstract static class Ty {
        Codec codec;
        abstract void print(Object v, StringBuilder sb);
        abstract Object parse(Toks t);
    }

    /** intN_t and uintN_t. The Java codecs ByteCodec / ShortCodec /
     * IntegerCodec / LongCodec exist in an INTn and a UINTn instance which
     * differ in getTypeName() only: both produce the signed Java box type.
     * The driver does the unsigned reinterpretation (mask on print, two's
     * complement wrap on parse) from the type name. */
    static final class IntTy extends Ty {
        final int bits;
        final boolean unsigned;
        IntTy(int bits, boolean unsigned, Codec c) {
            this.bits = bits;
            this.unsigned = unsigned;
            this.codec = c;
        }
        void print(Object v, StringBuilder sb) {
            long x = ((Number)v).longValue();
            sb.append("i ");
            if (!unsigned) {
                sb.append(x);
            } else if (bits == 64) {
                sb.append(Long.toUnsignedString(x));
            } else {
                sb.append(x & ((1L << bits) - 1));
            }
        }
        Object parse(Toks t) {
            t.expect("i");
            BigInteger x = t.dec();
            BigInteger lo, hi;
            if (unsigned) {
                lo = BigInteger.ZERO;
                hi = BigInteger.ONE.shiftLeft(bits);
            } else {
                lo = BigInteger.ONE.shiftLeft(bits - 1).negate();
                hi = BigInteger.ONE.shiftLeft(bits - 1);
            }
            if (x.compareTo(lo) < 0 || x.compareTo(hi) >= 0) {
                throw new ArithmeticException("integer out of range");
            }
            long w = x.longValue(); // low 64 bits, two's complement
            switch (bits) {
            case 8:
                return Byte.valueOf((byte)w);
            case 16:
                return Short.valueOf((short)w);
            case 32:
                return Integer.valueOf((int)w);
            default:
                return Long.valueOf(w);
            }
        }
    }

    static final class BoolTy extends Ty {
        BoolTy() { this.codec = new BoolCodec(); }
        void print(Object v, StringBuilder sb) {
            sb.append(((Boolean)v) ? "b 1" : "b 0");
        }
        Object parse(Toks t) {
            t.expect("b");
            String s = t.next();
            if (s.equals("1")) {
                return Boolean.TRUE;
            }
            if (s.equals("0")) {
                return Boolean.FALSE;
            }
            throw new BadTokens("bad bool " + s);
        }
    }

    static final class FloatTy extends Ty {
        FloatTy() { this.codec = new FloatCodec(); }
        void print(Object v, StringBuilder sb) {
            int bits = Float.floatToRawIntBits((Float)v);
            sb.append("f ").append(Integer.toUnsignedString(bits));
        }
        Object parse(Toks t) {
            t.expect("f");
            BigInteger x = t.dec();
            if (x.signum() < 0 || x.bitLength() > 32) {
                throw new ArithmeticException("float bits out of range");
            }
            return Float.valueOf(Float.intBitsToFloat((int)x.longValue()));
        }
    }

    static final class StringTy extends Ty {
        StringTy() { this.codec = new StringCodec(); }
        void print(Object v, StringBuilder sb) {
            sb.append("s ").append(
                hex(((String)v).getBytes(StandardCharsets.UTF_8)));
        }
        Object parse(Toks t) {
            t.expect("s");
            return new String(unhexTok(t.next()), StandardCharsets.UTF_8);
        }
    }

    static byte[] unhexTok(String s) {
        try {
            return unhex(s);
        } catch (BadRequest e) {
            throw new BadTokens(e.getMessage());
        }
    }

    /** `u <32 hex>`: by default the canonical big-endian form of the
     * java.util.UUID (Python: uuid.UUID.bytes.hex(); Java: toString() without
     * the dashes). With the command line argument --uuid=wire the token is
     * instead the 16 bytes that the repository's own Util.uuidToByteArray /
     * byteArrayToUUID associate with the UUID object; that mode says nothing
     * about which UUID the bytes denote, only that Java maps them back and
     * forth consistently. */
    static boolean UUID_WIRE = false;

    static void printUuid(UUID u, StringBuilder sb) {
        sb.append("u ");
        if (UUID_WIRE) {
            sb.append(hex(Util.uuidToByteArray(u)));
        } else {
            sb.append(String.format("%016x%016x", u.getMostSignificantBits(),
                                    u.getLeastSignificantBits()));
        }
    }

    static UUID parseUuid(Toks t) {
        t.expect("u");
        String s = t.next();
        if (s.length() != 32) {
            throw new BadTokens("UUID needs 32 hex digits");
        }
        if (UUID_WIRE) {
            return Util.byteArrayToUUID(unhexTok(s));
        }
        try {
            return new UUID(Long.parseUnsignedLong(s.substring(0, 16), 16),
                            Long.parseUnsignedLong(s.substring(16), 16));
        } catch (NumberFormatException e) {
            throw new BadTokens("bad UUID hex");
        }
    }

    static final class UuidTy extends Ty {
        UuidTy() { this.codec = new UuidCodec(); }
        void print(Object v, StringBuilder sb) { printUuid((UUID)v, sb); }
        Object parse(Toks t) { return parseUuid(t); }
    }

    /** The displacement is a Java long; the token is its unsigned reading
     * (the Python side uses its uint64_t codec for it). */
    static final class OffsetTy extends Ty {
        OffsetTy() { this.codec = new OffsetCodec(); }
        void print(Object v, StringBuilder sb) {
            Offset o = (Offset)v;
            sb.append("o ");
            printUuid(o.getElementId(), sb);
            sb.append(' ').append(Long.toUnsignedString(o.getDisplacement()));
        }
        Object parse(Toks t) {
            t.expect("o");
            UUID u = parseUuid(t);
            BigInteger d = t.dec();
            if (d.signum() < 0 || d.compareTo(TWO64) >= 0) {
                throw new ArithmeticException("displacement out of range");
            }
            return new Offset(u, d.longValue());
        }
    }

    // Containers are created with insertion-ordered collections so that the
    // iteration order (and hence the encoding) is the wire / token order.
    static final class ListTy extends Ty {
        final Ty e;
        ListTy(Ty e) {
            this.e = e;
            this.codec = new ListCodec(e.codec, ArrayList::new);
        }
        void print(Object v, StringBuilder sb) {
            List<Object> l = (List<Object>)v;
            sb.append("L ").append(l.size());
            for (Object x : l) {
                sb.append(' ');
                e.print(x, sb);
            }
        }
        Object parse(Toks t) {
            t.expect("L");
            int n = t.count();
            List<Object> l = new ArrayList<>();
            for (int i = 0; i < n; i++) {
                l.add(e.parse(t));
            }
            return l;
        }
    }

    static final class SetTy extends Ty {
        final Ty e;
        SetTy(Ty e) {
            this.e = e;
            this.codec = new SetCodec(e.codec, LinkedHashSet::new);
        }
        void print(Object v, StringBuilder sb) {
            Set<Object> s = (Set<Object>)v;
            sb.append("S ").append(s.size());
            for (Object x : s) {
                sb.append(' ');
                e.print(x, sb);
            }
        }
        Object parse(Toks t) {
            t.expect("S");
            int n = t.count();
            Set<Object> s = new LinkedHashSet<>();
            for (int i = 0; i < n; i++) {
                s.add(e.parse(t));
            }
            return s;
        }
    }

    static final class MapTy extends Ty {
        final Ty k, v;
        MapTy(Ty k, Ty v) {
            this.k = k;
            this.v = v;
            this.codec = new MapCodec(k.codec, v.codec, LinkedHashMap::new);
        }
        void print(Object val, StringBuilder sb) {
            Map<Object, Object> m = (Map<Object, Object>)val;
            sb.append("M ").append(m.size());
            for (Map.Entry<Object, Object> en : m.entrySet()) {
                sb.append(' ');
                k.print(en.getKey(), sb);
                sb.append(' ');
                v.print(en.getValue(), sb);
            }
        }
        Object parse(Toks t) {
            t.expect("M");
            int n = t.count();
            Map<Object, Object> m = new LinkedHashMap<>();
            for (int i = 0; i < n; i++) {
                Object a = k.parse(t);
                Object b = v.parse(t);
                m.put(a, b);
            }
            return m;
        }
    }

    static final class TupleTy extends Ty {
        final Ty[] e;
        TupleTy(Ty[] e) {
            this.e = e;
            switch (e.length) {
            case 1:
                this.codec = new Tuple1Codec(
                    e[0].codec, (Tuple1Codec.Tuple1Maker)(a) -> new DT1(a));
                break;
            case 2:
                this.codec = new Tuple2Codec(
                    e[0].codec, e[1].codec,
                    (Tuple2Codec.Tuple2Maker)(a, b) -> new DT2(a, b));
                break;
            case 3:
                this.codec = new Tuple3Codec(
                    e[0].codec, e[1].codec, e[2].codec,
                    (Tuple3Codec.Tuple3Maker)(a, b, c) -> new DT3(a, b, c));
                break;
            case 4:
                this.codec = new Tuple4Codec(
                    e[0].codec, e[1].codec, e[2].codec, e[3].codec,
                    (Tuple4Codec.Tuple4Maker)(a, b, c, d)
                        -> new DT4(a, b, c, d));
                break;
            case 5:
                this.codec = new Tuple5Codec(
                    e[0].codec, e[1].codec, e[2].codec, e[3].codec,
                    e[4].codec,
                    (Tuple5Codec.Tuple5Maker)(a, b, c, d, f)
                        -> new DT5(a, b, c, d, f));
                break;
            default:
                throw new Unsupported("tuple arity " + e.length);
            }
        }
        Object[] fields(Object v) {
            switch (e.length) {
            case 1: {
                DT1 t = (DT1)v;
                return new Object[] {t.get0()};
            }
            case 2: {
                DT2 t = (DT2)v;
                return new Object[] {t.get0(), t.get1()};
            }
            case 3: {
                DT3 t = (DT3)v;
                return new Object[] {t.get0(), t.get1(), t.get2()};
            }
            case 4: {
                DT4 t = (DT4)v;
                return new Object[] {t.get0(), t.get1(), t.get2(), t.get3()};
            }
            default: {
                DT5 t = (DT5)v;
                return new Object[] {t.get0(), t.get1(), t.get2(), t.get3(),
                                     t.get4()};
            }
            }
        }
        void print(Object v, StringBuilder sb) {
            Object[] f = fields(v);
            sb.append("T ").append(f.length);
            for (int i = 0; i < f.length; i++) {
                sb.append(' ');
                e[i].print(f[i], sb);
            }
        }
        Object parse(Toks t) {
            t.expect("T");
            int n = t.count();
            if (n != e.length) {
                throw new BadTokens("tuple arity");
            }
            Object[] f = new Object[n];
            for (int i = 0; i < n; i++) {
                f[i] = e[i].parse(t);
            }
            switch (n) {
            case 1:
                return new DT1(f[0]);
            case 2:
                return new DT2(f[0], f[1]);
            case 3:
                return new DT3(f[0], f[1], f[2]);
            case 4:
                return new DT4(f[0], f[1], f[2], f[3]);
            default:
                return new DT5(f[0], f[1], f[2], f[3], f[4]);
            }
        }
    }

    static final class VariantTy extends Ty {
        final Ty[] e;
        VariantTy(Ty[] e) {
            this.e = e;
            switch (e.length) {
            case 2:
                this.codec = new Variant2Codec(
                    e[0].codec, e[1].codec,
                    (Variant2Codec.Variant2Maker)(x) -> DV2.make(0, x),
                    (Variant2Codec.Variant2Maker)(x) -> DV2.make(1, x));
                break;
            case 3:
                this.codec = new Variant3Codec(
                    e[0].codec, e[1].codec, e[2].codec,
                    (Variant3Codec.Variant3Maker)(x) -> DV3.make(0, x),
                    (Variant3Codec.Variant3Maker)(x) -> DV3.make(1, x),
                    (Variant3Codec.Variant3Maker)(x) -> DV3.make(2, x));
                break;
            case 11:
                this.codec = new Variant11Codec(
                    e[0].codec, e[1].codec, e[2].codec, e[3].codec,
                    e[4].codec, e[5].codec, e[6].codec, e[7].codec,
                    e[8].codec, e[9].codec, e[10].codec,
                    (Variant11Codec.Variant11Maker)(x) -> DV11.make(0, x),
                    (Variant11Codec.Variant11Maker)(x) -> DV11.make(1, x),
                    (Variant11Codec.Variant11Maker)(x) -> DV11.make(2, x),
                    (Variant11Codec.Variant11Maker)(x) -> DV11.make(3, x),
                    (Variant11Codec.Variant11Maker)(x) -> DV11.make(4, x),
                    (Variant11Codec.Variant11Maker)(x) -> DV11.make(5, x),
                    (Variant11Codec.Variant11Maker)(x) -> DV11.make(6, x),
                    (Variant11Codec.Variant11Maker)(x) -> DV11.make(7, x),
                    (Variant11Codec.Variant11Maker)(x) -> DV11.make(8, x),
                    (Variant11Codec.Variant11Maker)(x) -> DV11.make(9, x),
                    (Variant11Codec.Variant11Maker)(x) -> DV11.make(10, x));
                break;
            default:
                throw new Unsupported("variant arity " + e.length);
            }
        }
        void print(Object v, StringBuilder sb) {
            int idx;
            Object p;
            if (v instanceof DV2) {
                idx = ((DV2)v).getIndex();
                p = ((DV2)v).payload();
            } else if (v instanceof DV3) {
                idx = ((DV3)v).getIndex();
                p = ((DV3)v).payload();
            } else {
                idx = ((DV11)v).getIndex();
                p = ((DV11)v).payload();
            }
            sb.append("V ").append(idx).append(' ');
            e[idx].print(p, sb);
        }
        Object parse(Toks t) {
            t.expect("V");
            int idx = t.count();
            if (idx >= e.length) {
                throw new BadTokens("variant index " + idx);
            }
            Object p = e[idx].parse(t);
            switch (e.length) {
            case 2:
                return DV2.make(idx, p);
            case 3:
                return DV3.make(idx, p);
            default:
                return DV11.make(idx, p);
            }
        }
    }

    // ------------------------------------------------- type name parsing
    // T ::= name | name '<' T (',' T)* '>'     name ::= [^<>,]+
    static final class TypeParser {
        final String s;
        int p = 0;
        TypeParser(String s) { this.s = s; }

        Ty top() {
            Ty t = type();
            if (p != s.length()) {
                throw new Unsupported("trailing characters in type name");
            }
            return t;
        }

        Ty type() {
            int b = p;
            while (p < s.length() && "<>,".indexOf(s.charAt(p)) < 0) {
                p++;
            }
            String name = s.substring(b, p);
            if (name.isEmpty()) {
                throw new Unsupported("empty name in type name");
            }
            List<Ty> kids = new ArrayList<>();
            boolean hasArgs = false;
            if (p < s.length() && s.charAt(p) == '<') {
                hasArgs = true;
                p++;
                kids.add(type());
                while (p < s.length() && s.charAt(p) == ',') {
                    p++;
                    kids.add(type());
                }
                if (p >= s.length() || s.charAt(p) != '>') {
                    throw new Unsupported("missing '>' in type name");
                }
                p++;
            }
            return make(name, hasArgs, kids.toArray(new Ty[0]));
        }
    }

    static Ty scalar(String name) {
        switch (name) {
        case "int8_t":
            return new IntTy(8, false, ByteCodec.INT8);
        case "uint8_t":
            return new IntTy(8, true, ByteCodec.UINT8);
        case "int16_t":
            return new IntTy(16, false, ShortCodec.INT16);
        case "uint16_t":
            return new IntTy(16, true, ShortCodec.UINT16);
        case "int32_t":
            return new IntTy(32, false, IntegerCodec.INT32);
        case "uint32_t":
            return new IntTy(32, true, IntegerCodec.UINT32);
        case "int64_t":
            return new IntTy(64, false, LongCodec.INT64);
        case "uint64_t":
            return new IntTy(64, true, LongCodec.UINT64);
        case "bool":
            return new BoolTy();
        case "float":
            return new FloatTy();
        case "string":
            return new StringTy();
        case "UUID":
            return new UuidTy();
        case "Offset":
            return new OffsetTy();
        }
        // "Addr" and "double": no Java codec reports these type names
        // (LongCodec has a private constructor and only the INT64 / UINT64
        // instances; there is no DoubleCodec).
        return null;
    }

    static Ty make(String name, boolean hasArgs, Ty[] kids) {
        Ty t;
        switch (name) {
        case "sequence":
            if (kids.length != 1) {
                throw new Unsupported("sequence arity");
            }
            t = new ListTy(kids[0]);
            break;
        case "set":
            if (kids.length != 1) {
                throw new Unsupported("set arity");
            }
            t = new SetTy(kids[0]);
            break;
        case "mapping":
            if (kids.length != 2) {
                throw new Unsupported("mapping arity");
            }
            t = new MapTy(kids[0], kids[1]);
            break;
        case "tuple":
            t = new TupleTy(kids);
            break;
        case "variant":
            t = new VariantTy(kids);
            break;
        default:
            if (hasArgs) {
                throw new Unsupported("parameters on " + name);
            }
            t = scalar(name);
            if (t == null) {
                throw new Unsupported("no Java codec for " + name);
            }
        }
        return t;
    }

    static final Map<String, Ty> CACHE = new HashMap<>();

    static Ty typeOf(String typeName) {
        Ty t = CACHE.get(typeName);
        if (t == null) {
            t = new TypeParser(typeName).top();
            // The codec object must describe exactly the requested type.
            if (!t.codec.getTypeName().equals(typeName)) {
                throw new Unsupported("codec reports " +
                                      t.codec.getTypeName());
            }
            CACHE.put(typeName, t);
        }
        return t;
    }

    // ----------------------------------------------------------- requests
    static String handle(String line) throws Exception {
        String[] w = line.trim().split(" +");
        if (w.length < 3) {
            throw new BadRequest("too few fields");
        }
        String typeName = new String(unhex(w[1]), StandardCharsets.UTF_8);
        if (w[0].equals("dec")) {
            if (w.length != 3) {
                throw new BadRequest("dec takes two fields");
            }
            byte[] data = unhex(w[2]);
            Ty t = typeOf(typeName);
            ByteArrayInputStream in = new ByteArrayInputStream(data);
            Object v = t.codec.decode(in);
            int consumed = data.length - in.available();
            StringBuilder sb = new StringBuilder();
            sb.append("ok ").append(consumed).append(' ');
            t.print(v, sb);
            return sb.toString();
        }
        if (w[0].equals("enc")) {
            Ty t = typeOf(typeName);
            Toks toks = new Toks(w, 2);
            Object v = t.parse(toks);
            if (toks.p != w.length) {
                throw new BadTokens("trailing tokens");
            }
            ByteArrayOutputStream out = new ByteArrayOutputStream();
            t.codec.encode(out, v);
            return "ok " + hex(out.toByteArray());
        }
        throw new BadRequest("unknown command " + w[0]);
    }

    public static void main(String[] args) throws Exception {
        for (String a : args) {
            if (a.equals("--uuid=wire")) {
                UUID_WIRE = true;
            } else if (a.equals("--uuid=canonical")) {
                UUID_WIRE = false;
            } else {
                System.err.println("usage: JDriver [--uuid=canonical|wire]");
                System.exit(2);
            }
        }
        BufferedReader in = new BufferedReader(
            new InputStreamReader(System.in, StandardCharsets.UTF_8));
        PrintStream out = new PrintStream(System.out, false, "UTF-8");
        String line;
        while ((line = in.readLine()) != null) {
            String ans;
            try {
                ans = handle(line);
            } catch (Unsupported e) {
                ans = "unsupported";
            } catch (Throwable e) {
                ans = "err:" + e.getClass().getSimpleName();
            }
            out.print(ans);
            out.print('\n');
            out.flush();
        }
    }
}
