"""Build the `gtirb` Python package from /repo's working tree into a scratch
directory (there is no protoc and no CMake step here, see DESIGN.md section 1).

    python build_pkg.py OUTDIR        # creates OUTDIR/gtirb/...
"""
import glob
import os
import re
import shutil
import sys

HERE = os.path.dirname(os.path.abspath(__file__))
sys.path.insert(0, HERE)
import protoc_lite  # noqa: E402

REPO = os.environ.get("VERIF_REPO", "/repo")


def read_version(repo=REPO):
    vals = {}
    with open(os.path.join(repo, "version.txt")) as fh:
        for line in fh:
            parts = line.split()
            if len(parts) == 2:
                vals[parts[0]] = parts[1]
    return vals


def build(outdir, repo=REPO):
    pkg = os.path.join(outdir, "gtirb")
    if os.path.exists(pkg):
        shutil.rmtree(pkg)
    # the whole package tree (sub-packages included), Python sources only
    shutil.copytree(os.path.join(repo, "python", "gtirb"), pkg,
                    ignore=lambda d, names: [
                        n for n in names
                        if n == "__pycache__" or (
                            not n.endswith(".py") and not os.path.isdir(
                                os.path.join(d, n)))])
    os.makedirs(os.path.join(pkg, "proto"), exist_ok=True)
    open(os.path.join(pkg, "proto", "__init__.py"), "w").close()
    v = read_version(repo)
    with open(os.path.join(repo, "python", "version.py.in")) as fh:
        text = fh.read()
    subst = {
        "PROJECT_VERSION_MAJOR": v["VERSION_MAJOR"],
        "PROJECT_VERSION_MINOR": v["VERSION_MINOR"],
        "PROJECT_VERSION_PATCH": v["VERSION_PATCH"],
        "GTIRB_PYTHON_DEV_SUFFIX": "",
        "GTIRB_PROTOBUF_VERSION": v["VERSION_PROTOBUF"],
    }
    text = re.sub(r"@([A-Z_]+)@", lambda m: subst[m.group(1)], text)
    with open(os.path.join(pkg, "version.py"), "w") as fh:
        fh.write(text)
    sources = {}
    for src in sorted(glob.glob(os.path.join(repo, "proto", "*.proto"))):
        with open(src) as fh:
            sources[os.path.basename(src)] = fh.read()
    descs, order, parsed = protoc_lite.write_pb2(
        sources, os.path.join(pkg, "proto"))
    return pkg, descs, order, parsed


if __name__ == "__main__":
    out = sys.argv[1]
    os.makedirs(out, exist_ok=True)
    pkg, _, order, _ = build(out)
    print(pkg, " ".join(order))
