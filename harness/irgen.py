"""Generator of self-contained IRs built through the public API in random
construction orders, with the boundary values of the quantifier forced with
probability (address None vs 0, 0 and 2^64-1, int64 bounds, empty and
non-ASCII names, zero-sized / overlapping blocks, value 0, label None vs
all-false, every enum constant, unknown attribute numbers)."""
import uuid as uuidlib

NAMES = ["", "a", ".text", "héllo", "日本語", "x\0y", "𝔘", "name with space",
         "<>,", "é" * 20, "\ufeffbom", "\ufeff"]
U64 = [0, 1, 2**64 - 1, 2**63, 255, 4096]
I64 = [0, -1, 1, -2**63, 2**63 - 1, 1000]


class Gen:
    def __init__(self, gtirb, rng, size=1.0, forward_entry=False):
        self.g, self.rng, self.size = gtirb, rng, size
        self.forward_entry = forward_entry
        self.enum_cursor = 0

    def pick_enum(self, cls):
        members = list(cls)
        self.enum_cursor += 1
        if self.rng.random() < 0.5:
            return members[self.enum_cursor % len(members)]
        return self.rng.choice(members)

    def u64(self):
        r = self.rng
        return r.choice(U64) if r.random() < 0.6 else r.getrandbits(64)

    def i64(self):
        r = self.rng
        return r.choice(I64) if r.random() < 0.6 else \
            r.randrange(-2**63, 2**63)

    def name(self):
        return self.rng.choice(NAMES)

    def count(self, hi):
        return int(self.rng.random() ** 1.5 * (hi * self.size + 1))

    def uuid(self):
        r = self.rng
        if r.random() < 0.06:
            # the nil UUID and its neighbours, exactly or nearly
            return uuidlib.UUID(int=r.choice([0, 0, 2**128 - 1, 1]) ^
                                (r.getrandbits(16) if r.random() < 0.4
                                 else 0))
        return uuidlib.UUID(int=r.getrandbits(128))

    def pick(self, nodes):
        """a reference target: nodes with a boundary UUID (nil, all ones)
        are preferred, so that they do get referenced"""
        special = [n for n in nodes if n.uuid.int in (0, 1, 2**128 - 1)]
        if special and self.rng.random() < 0.5:
            return self.rng.choice(special)
        return self.rng.choice(nodes)

    def build(self):
        """Returns (ir, info): info lists the nodes for reference checks."""
        g, rng = self.g, self.rng
        used = set()

        def U():
            while True:
                u = self.uuid()
                if u not in used:
                    used.add(u)
                    return u
        ir = g.IR(uuid=U())
        modules = []
        all_code, all_proxies = [], []
        pending_entry = []
        for mi in range(1 + self.count(2)):
            late_attach = rng.random() < 0.4
            m = g.Module(name=self.name(), binary_path=self.name(),
                         preferred_addr=self.u64(), rebase_delta=self.i64(),
                         file_format=self.pick_enum(g.Module.FileFormat),
                         isa=self.pick_enum(g.Module.ISA),
                         byte_order=self.pick_enum(g.Module.ByteOrder),
                         uuid=U(), ir=None if late_attach else ir)
            blocks, code, proxies, syms = [], [], [], []
            for _ in range(self.count(2)):
                p = g.ProxyBlock(uuid=U())
                proxies.append(p)
                if rng.random() < 0.5:
                    p.module = m
                else:
                    m.proxies.add(p)
            intervals = []
            for _ in range(self.count(3)):
                flags = set(rng.sample(list(g.Section.Flag),
                                       rng.randrange(0, 4)))
                s = g.Section(name=self.name(), flags=flags, uuid=U())
                for _ in range(self.count(3)):
                    size = rng.choice([0, 1, 4, 16, rng.randrange(0, 40)])
                    init = rng.randrange(0, size + 1)
                    contents = bytes(rng.getrandbits(8) for _ in range(init))
                    r0 = rng.random()
                    if r0 < 0.15:       # a zero-filled (.bss-like) interval
                        contents = bytes(init)
                    elif r0 < 0.25 and init:    # zeros at either end
                        k = rng.randrange(1, init + 1)
                        contents = (contents[:init - k] + bytes(k)
                                    if rng.random() < 0.5
                                    else bytes(k) + contents[k:])
                    addr = rng.choice([None, 0, 2**64 - 1, 4096,
                                       rng.getrandbits(40)])
                    x = g.ByteInterval(address=addr, size=size,
                                       contents=contents, uuid=U())
                    intervals.append(x)
                    for _ in range(self.count(4)):
                        off = rng.choice([0, 0, 1, size, rng.randrange(0, 20)])
                        bsz = rng.choice([0, 0, 1, 4, rng.randrange(0, 20)])
                        if rng.random() < 0.55:
                            b = g.CodeBlock(
                                size=bsz, offset=off, uuid=U(),
                                decode_mode=self.pick_enum(
                                    g.CodeBlock.DecodeMode))
                            code.append(b)
                        else:
                            b = g.DataBlock(size=bsz, offset=off, uuid=U())
                        blocks.append(b)
                        if rng.random() < 0.5:
                            b.byte_interval = x
                        else:
                            x.blocks.add(b)
                    if rng.random() < 0.5:
                        x.section = s
                    else:
                        s.byte_intervals.add(x)
                if rng.random() < 0.5:
                    s.module = m
                else:
                    m.sections.add(s)
            # symbols: referents inside this module (or an earlier one)
            for _ in range(self.count(4)):
                r = rng.random()
                targets = blocks + proxies
                if r < 0.15 or (r < 0.55 and not targets
                                and not all_code + all_proxies):
                    payload = None
                elif r < 0.35:
                    payload = rng.choice([0, 0, 2**64 - 1,
                                          rng.getrandbits(64)])
                elif targets and (r < 0.9 or not (all_code + all_proxies)):
                    payload = self.pick(targets)
                elif all_code + all_proxies:
                    payload = self.pick(all_code + all_proxies)
                else:
                    payload = None
                sy = g.Symbol(name=self.name(), uuid=U(), payload=payload,
                              at_end=rng.random() < 0.3)
                syms.append(sy)
                if rng.random() < 0.5:
                    sy.module = m
                else:
                    m.symbols.add(sy)
            # symbolic expressions (symbols of this module)
            if syms:
                for x in intervals:
                    for _ in range(self.count(3)):
                        k = rng.choice([0, 1, 2**64 - 1,
                                        rng.randrange(0, 50)])
                        attrs = set()
                        for _ in range(rng.randrange(0, 3)):
                            if rng.random() < 0.7:
                                attrs.add(self.pick_enum(
                                    g.SymbolicExpression.Attribute))
                            else:
                                attrs.add(rng.choice([27, 999, 5000, 2**31 - 1]))
                        if rng.random() < 0.5:
                            e = g.SymAddrConst(self.i64(), self.pick(syms),
                                               attrs)
                        else:
                            e = g.SymAddrAddr(self.i64(), self.i64(),
                                              self.pick(syms),
                                              self.pick(syms), attrs)
                        x.symbolic_expressions[k] = e
            # entry point
            if code and rng.random() < 0.6:
                m.entry_point = self.pick(code)
            elif all_code and rng.random() < 0.3:
                m.entry_point = self.pick(all_code)
            elif self.forward_entry:
                pending_entry.append(m)
            if late_attach:
                if rng.random() < 0.5:
                    m.ir = ir
                else:
                    ir.modules.append(m)
            all_code += code
            all_proxies += proxies
            modules.append(m)
        for m in pending_entry:        # K5 stream: entry point in a LATER module
            later = [b for mm in ir.modules[ir.modules.index(m) + 1:]
                     for b in mm.code_blocks]
            if later:
                m.entry_point = rng.choice(later)
        # CFG
        T = g.Edge.Type
        nodes = all_code + all_proxies
        if nodes:
            for _ in range(self.count(6)):
                r = rng.random()
                if r < 0.3:
                    label = None
                elif r < 0.5:
                    label = g.Edge.Label(T.Branch, False, False)
                else:
                    label = g.Edge.Label(self.pick_enum(T),
                                         rng.random() < 0.5,
                                         rng.random() < 0.5)
                a, b = self.pick(nodes), self.pick(nodes)
                ir.cfg.add(g.Edge(a, b, label))
                if label is not None and rng.random() < 0.35:
                    # a parallel edge differing only in one flag
                    ir.cfg.add(g.Edge(a, b, g.Edge.Label(
                        label.type, not label.conditional, label.direct)))
                    if rng.random() < 0.5:
                        ir.cfg.add(g.Edge(a, b, g.Edge.Label(
                            label.type, label.conditional, not label.direct)))
        return ir


def is_rich(g, ir):
    """does the IR have every node kind and every reference kind (so that
    each (reference role, wrong kind) fault can be injected into its file)?"""
    mods = list(ir.modules)
    has_expr = any(x.symbolic_expressions for x in ir.byte_intervals)
    return bool(
        any(m.proxies for m in mods) and list(ir.code_blocks)
        and list(ir.data_blocks) and list(ir.symbols)
        and any(s.referent is not None for s in ir.symbols)
        and any(m.entry_point is not None for m in mods)
        and has_expr and len(ir.cfg) > 0)


def build_rich(gtirb, rng, size, tries=40):
    """an IR as `Gen.build` makes them, redrawn until it `is_rich`"""
    ir = None
    for _ in range(tries):
        ir = Gen(gtirb, rng, size).build()
        if is_rich(gtirb, ir):
            break
        size = min(1.5, size + 0.1)
    return ir
