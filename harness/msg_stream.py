"""Streams for C01 / C02 (writer + reader) / C09 / C18 over generated
self-contained IRs: save, parse the bytes with the generated message classes
(never with gtirb), load, save again; dumps of objects and messages are
compared with each other (direct oracles) and with the Lean model `Gtirb.Msg`
(toMsg / fromMsg / wfir / deepEq / canon)."""
import io
import uuid as uuidlib

import os

import core
import codec_common as cc
import irdump
import irgen


def parse_file(gtirb, raw):
    from gtirb.proto import IR_pb2
    msg = IR_pb2.IR()
    msg.ParseFromString(raw[8:])
    return msg


def canonical_order(msg):
    """every repeated field of the message in a canonical order (by UUID,
    edges by ends and label, flags by number): the writer emits unordered
    collections in Python `set` order, which depends on object addresses;
    streams that index into the message positionally (fault injection) sort
    first, so that their cases are a function of VERIF_SEED alone"""
    def srt(rep, key):
        items = sorted(rep, key=key)
        del rep[:]
        rep.extend(items)

    def blk(b):
        w = b.WhichOneof("value")
        return (bytes(getattr(b, w).uuid) if w else b"", b.offset)
    for m in msg.modules:
        srt(m.proxies, lambda p: bytes(p.uuid))
        srt(m.symbols, lambda y: bytes(y.uuid))
        srt(m.sections, lambda z: bytes(z.uuid))
        for z in m.sections:
            srt(z.section_flags, int)
            srt(z.byte_intervals, lambda x: bytes(x.uuid))
            for x in z.byte_intervals:
                srt(x.blocks, blk)
                for k in x.symbolic_expressions:
                    srt(x.symbolic_expressions[k].attribute_flags, int)
    srt(msg.cfg.vertices, bytes)
    srt(msg.cfg.edges, lambda e: (
        bytes(e.source_uuid), bytes(e.target_uuid), e.HasField("label"),
        e.label.type, e.label.conditional, e.label.direct))
    return msg


_calls = [0, 0]     # saves, loads


def _scratch_path():
    d = os.environ.get("VERIF_PKG_DIR") or "/tmp"    # removed at exit
    return os.path.join(d, "verif-%d.gtirb" % os.getpid())


def save(ir):
    """every fourth call goes through the path-based entry point
    (`IR.save_protobuf(file_name)`), the others through the file-object one"""
    _calls[0] += 1
    if _calls[0] % 4 == 0:
        # the same path again and again: a shorter file follows a longer one
        path = _scratch_path()
        with core.time_limit(60):
            ir.save_protobuf(path)
        with open(path, "rb") as fh:
            return fh.read()
    buf = io.BytesIO()
    with core.time_limit(60):
        ir.save_protobuf_file(buf)
    return buf.getvalue()


def load(gtirb, raw):
    _calls[1] += 1
    if _calls[1] % 4 == 1:
        path = _scratch_path() + ".in"
        with open(path, "wb") as fh:
            fh.write(raw)
        with core.time_limit(60):
            return gtirb.IR.load_protobuf(path)
    with core.time_limit(60):
        return gtirb.IR.load_protobuf_file(io.BytesIO(raw))


def msg_aux_bytes(gtirb, msg, ir):
    """aux_bytes provider reading the table bytes out of a parsed message"""
    by_uuid = {bytes(msg.uuid): msg.aux_data}
    for m in msg.modules:
        by_uuid[bytes(m.uuid)] = m.aux_data

    def get(container, key):
        tbl = by_uuid.get(container.uuid.bytes)
        if tbl is None or key not in tbl:
            return b"?missing"
        return bytes(tbl[key].data)
    return get


class NodeWorld:
    """token conversion for AuxData values that mention nodes: nodes are
    numbered by their position in the uuid-sorted list of the IR's nodes, so
    that the original and the loaded IR agree on the numbering."""

    def __init__(self, gtirb, ir):
        self.gtirb = gtirb
        nodes = [ir] + list(ir.modules) + list(ir.sections) + \
            list(ir.symbols) + list(ir.proxy_blocks) + \
            list(ir.byte_intervals) + list(ir.byte_blocks)
        nodes.sort(key=lambda n: n.uuid.bytes)
        self.index = {id(n): i for i, n in enumerate(nodes)}
        self.nodes = nodes


def add_aux(gen, gtirb, rng, ir):
    """AuxData tables at IR and module level; returns {(uuid, key): (type
    tree, value)}"""
    out = {}
    world = NodeWorld(gtirb, ir)
    world.attached = world.nodes
    world.detached = []
    world.foreign_uuids = [uuidlib.UUID(int=rng.getrandbits(128))
                           for _ in range(3)]
    for cont in [ir] + list(ir.modules):
        for i in range(int(rng.random() * 3)):
            key = rng.choice(["alignment", "comments", "t%d" % i, "é", ""])
            if rng.random() < 0.3:
                t = ("mapping", [("UUID", []), ("uint64_t", [])])
            elif rng.random() < 0.2:
                t = ("sequence", [("tuple", [("Offset", []),
                                             ("string", [])])])
            elif rng.random() < 0.3:
                # node references in every nesting position a codec passes
                # the lookup through (variant alternatives, tuple fields,
                # mapping values, sequences of sequences)
                t = rng.choice([
                    ("variant", [("uint8_t", []), ("UUID", [])]),
                    ("sequence", [("variant", [("UUID", []),
                                               ("string", [])])]),
                    ("mapping", [("string", []),
                                 ("variant", [("Offset", []),
                                              ("int64_t", [])])]),
                    ("tuple", [("uint8_t", []),
                               ("sequence", [("sequence", [("UUID", [])])])]),
                    ("mapping", [("uint8_t", []), ("tuple", [("UUID", []),
                                                            ("Offset", [])])]),
                ])
            else:
                t = cc.gen_type(rng, rng.randrange(0, 3))
            v = cc.gen_value(rng, world, t, True)
            cont.aux_data[key] = gtirb.AuxData(v, cc.render(t))
            out[(cont.uuid.bytes, key)] = (t, v)
    return out


def one_ir(ctx, no, tie, rng, size, want):
    """want: set of property ids whose failures are reported."""
    import gtirb
    gen = irgen.Gen(gtirb, rng, size)
    ir0 = gen.build()
    aux = add_aux(gen, gtirb, rng, ir0)
    w0 = NodeWorld(gtirb, ir0)
    replay = {"ir_no": no, "seed": ctx.seed}

    def fail(props, sig, what, extra=None):
        if ctx.prop in props:
            ctx.report(sig, dict(replay, **(extra or {})), what)
        return False
    try:
        raw1 = save(ir0)
    except (Exception, core.ImplTimeout) as e:   # noqa
        return fail({"C01", "C02", "C17"}, {"kind": "save-raises"},
                    "save of a self-contained IR raised %s: %s"
                    % (type(e).__name__, str(e)[:80]))
    import gtirb.version
    hdr = b"GTIRB\0\0" + bytes([gtirb.version.PROTOBUF_VERSION])
    if raw1[:8] != hdr:
        return fail({"C02"}, {"kind": "header"}, "file header is %r"
                    % raw1[:8])
    try:
        msg1 = parse_file(gtirb, raw1)
        M1 = irdump.dump_mir(msg1)
        V0 = irdump.dump_irv(gtirb, ir0, msg_aux_bytes(gtirb, msg1, ir0))
    except (Exception, core.ImplTimeout) as e:   # noqa
        return fail({"C01", "C02"}, {"kind": "saved-file-unreadable",
                                     "exception": type(e).__name__},
                    "the bytes written by save do not parse as the schema's "
                    "IR message / cannot be compared: %s: %s"
                    % (type(e).__name__, str(e)[:80]))
    replay["V0"] = " ".join(V0)[:4000]
    if getattr(tie, "wire", None) is not None:
        tie.wire.add("ir %d" % no, msg1, raw1[8:])
    try:
        ir1 = load(gtirb, raw1)
    except (Exception, core.ImplTimeout) as e:   # noqa
        if ctx.prop == "C02":
            # the writer half does not depend on the reader: the message
            # that WAS written is still compared with the attributes
            tie.add_checked("ir %d (writer only)" % no,
                            ["wf " + " ".join(V0), "tomsg " + " ".join(V0)],
                            ["1", " ".join(M1)],
                            writer_reader_cb(ctx, replay))
            ctx.count("writer-only-after-load-rejected")
        return fail({"C01", "C17"}, {"kind": "load-rejects-saved",
                                     "exception": type(e).__name__},
                    "a file produced by save was rejected by load: %s: %s"
                    % (type(e).__name__, str(e)[:80]))
    try:
        raw2 = save(ir1)
        msg2 = parse_file(gtirb, raw2)
        M2 = irdump.dump_mir(msg2)
        V1 = irdump.dump_irv(gtirb, ir1, msg_aux_bytes(gtirb, msg2, ir1))
    except (Exception, core.ImplTimeout) as e:   # noqa
        return fail({"C01", "C17"}, {"kind": "loaded-ir-unusable",
                                     "exception": type(e).__name__},
                    "the IR loaded from a saved file cannot be saved again / "
                    "inspected: %s: %s" % (type(e).__name__, str(e)[:80]))
    if getattr(tie, "wire", None) is not None:
        # end to end: the model's whole-file loader on the (canonically
        # ordered) saved file vs the real loader; the model's whole-file
        # writer read by the real loader
        try:
            cmsg = canonical_order(parse_file(gtirb, raw1))
            rawc = raw1[:8] + cmsg.SerializeToString(deterministic=True)
            irc = load(gtirb, rawc)
            Vc = irdump.dump_irv(gtirb, irc, msg_aux_bytes(gtirb, cmsg, irc))
            tie.wire.add_file("ir %d" % no, rawc, "ok " + " ".join(Vc))

            def load_dump(body_and_header):
                i2 = load(gtirb, body_and_header)
                m2 = parse_file(gtirb, body_and_header)
                return irdump.dump_irv(gtirb, i2,
                                       msg_aux_bytes(gtirb, m2, i2))
            tie.wire.add_save("ir %d" % no, V0, load_dump)
        except (Exception, core.ImplTimeout):   # noqa (judged above)
            ctx.count("pbwire:file-tie-skipped")
    ctx.evaluations += 1
    nn = len(w0.nodes)
    ctx.count("nodes:%s" % ("<10" if nn < 10 else "<30" if nn < 30 else
                            "<80" if nn < 80 else ">=80"))
    ctx.nontriv((len(ir0.modules), min(nn // 8, 9), len(ir0.cfg) > 0,
                 len(aux) > 0))
    ok = True
    # ---------------- C01: identical observable content
    if V0 != V1:
        d = first_diff(V0, V1)
        ok = fail({"C01"}, {"kind": "content-differs"},
                  "loaded IR differs from the saved one near token %s" % d,
                  {"V1": " ".join(V1)[:4000]})
    try:
        de = (ir0.deep_eq(ir1), ir1.deep_eq(ir0))
    except Exception as e:   # noqa
        de = ("raised", type(e).__name__)
    if ok and de != (True, True):
        ok = fail({"C01", "C18"}, {"kind": "deep-eq-after-roundtrip"},
                  "original and loaded IR are not deep_eq both ways: %r"
                  % (de,))
    if ok and M1 != M2:
        ok = fail({"C01"}, {"kind": "resave-differs"},
                  "saving the loaded IR again gives another message near %s"
                  % first_diff(M1, M2))
    # AuxData type names and decoded values
    if ok:
        w1 = NodeWorld(gtirb, ir1)
        for cont in [ir1] + list(ir1.modules):
            for key, ad in cont.aux_data.items():
                t, v = aux.get((cont.uuid.bytes, key), (None, None))
                if t is None:
                    ok = fail({"C01"}, {"kind": "aux-extra"},
                              "loaded IR has an extra AuxData table %r" % key)
                    break
                try:
                    got = cc.nan_normalise(cc.canon(cc.to_tokens(
                        w1, t, ad.data)))
                    wantv = cc.nan_normalise(cc.canon(cc.to_tokens(w0, t, v)))
                except Exception as e:   # noqa
                    got, wantv = "raised:" + type(e).__name__, None
                if ad.type_name != cc.render(t) or got != wantv:
                    ok = fail({"C01", "C09"}, {"kind": "aux-value-differs"},
                              "AuxData %r (%s) decoded differently after "
                              "load" % (key, cc.render(t)))
                    break
    if not ok:
        return False
    # ---------------- C09: references are the attached objects themselves
    prob = identity_problems(gtirb, ir1)
    if prob:
        return fail({"C09"}, {"kind": "reference-identity"}, prob)
    # ---------------- C01 once more: the SAME IR object, edited in place
    # after its first save (AuxData values through the references the caller
    # holds, a symbol renamed, an interval's bytes poked), saved again
    if ctx.prop == "C02" and rng.random() < 0.6:
        # C02 once more: the message written by a SECOND save of an object
        # graph (the built one, or the loaded one - first save of a loaded
        # IR) after in-place edits must again equal the attributes
        target, tname = (ir0, "built") if rng.random() < 0.5 \
            else (ir1, "loaded")
        edited = second_save_edits(gtirb, rng, target, {})
        edited |= inplace_node_edits(gtirb, rng, target)
        if edited:
            try:
                rawb = save(target)
                msgb = parse_file(gtirb, rawb)
                Mb = irdump.dump_mir(msgb)
                Vb = irdump.dump_irv(gtirb, target,
                                     msg_aux_bytes(gtirb, msgb, target))
            except (Exception, core.ImplTimeout) as e:   # noqa
                return fail({"C02"}, {"kind": "second-save-raises",
                                      "exception": type(e).__name__},
                            "saving the %s IR again after in-place edits "
                            "(%s) raised %s" % (tname, ", ".join(
                                sorted(edited)), type(e).__name__))
            ctx.evaluations += 1
            ctx.count("second-save(%s)" % tname)
            for k in edited:
                ctx.count("second-save-edit:" + k)
            tie.add_checked("ir %d (second save, %s)" % (no, tname),
                            ["wf " + " ".join(Vb), "tomsg " + " ".join(Vb)],
                            ["1", " ".join(Mb)],
                            writer_reader_cb(ctx, dict(
                                replay, second_save=tname,
                                edited=sorted(edited))))
    if ctx.prop == "C01" and rng.random() < 0.5:
        edited = second_save_edits(gtirb, rng, ir0, aux)
        edited |= inplace_node_edits(gtirb, rng, ir0)
        if edited:
            try:
                ir2 = load(gtirb, save(ir0))
            except (Exception, core.ImplTimeout) as e:   # noqa
                return fail({"C01"}, {"kind": "second-save-raises",
                                      "exception": type(e).__name__},
                            "saving / loading the IR a second time after "
                            "in-place edits raised %s" % type(e).__name__)
            ctx.evaluations += 1
            ctx.count("second-save")
            for k in edited:
                ctx.count("second-save-edit:" + k)
            try:
                de2 = (ir0.deep_eq(ir2), ir2.deep_eq(ir0))
            except Exception as e:   # noqa
                de2 = ("raised", type(e).__name__)
            w2 = NodeWorld(gtirb, ir2)
            w0b = NodeWorld(gtirb, ir0)
            bad = None
            for cont in [ir2] + list(ir2.modules):
                for key, ad in cont.aux_data.items():
                    t, v = aux.get((cont.uuid.bytes, key), (None, None))
                    try:
                        got = cc.nan_normalise(cc.canon(cc.to_tokens(
                            w2, t, ad.data)))
                        wantv = cc.nan_normalise(cc.canon(cc.to_tokens(
                            w0b, t, v)))
                    except Exception as e:   # noqa
                        got, wantv = "raised:" + type(e).__name__, None
                    if got != wantv:
                        bad = key
            if de2 != (True, True) or bad is not None:
                return fail({"C01"}, {"kind": "second-save-stale"},
                            "after in-place edits (%s) of an IR that had "
                            "been saved before, save + load does not "
                            "reproduce it (deep_eq %r, AuxData table %r)"
                            % (", ".join(sorted(edited)), de2, bad))
    # ---------------- the model
    lines = ["wf " + " ".join(V0), "tomsg " + " ".join(V0),
             "frommsg " + " ".join(M1), "roundtrip " + " ".join(V0),
             "deepeq " + " ".join(V0) + " " + " ".join(V1)]
    impl = ["1", " ".join(M1), "ok " + " ".join(V1), "1", "1"]
    tie.add_checked("ir %d" % no, lines, impl, writer_reader_cb(ctx, replay))
    if no < 2:
        ctx.sample({"V0": " ".join(V0)[:600]})
    return True


def second_save_edits(gtirb, rng, ir, aux):
    """in-place edits of an IR that has been saved once; returns what was
    edited. AuxData values are edited through the object the table was given
    (the reference a caller holds), not through the table."""
    edited = set()
    for (cu, key), (t, v) in list(aux.items()):
        if isinstance(v, list) and rng.random() < 0.7:
            if v:
                v.append(v[0])
            elif t[0] == "sequence" and t[1][0] == ("uint8_t", []):
                v.append(7)
            else:
                continue
            edited.add("aux-list")
        elif isinstance(v, dict) and v and rng.random() < 0.7:
            v.pop(next(iter(v)))
            edited.add("aux-dict")
        elif isinstance(v, set) and v and rng.random() < 0.7:
            v.pop()
            edited.add("aux-set")
    syms = sorted(ir.symbols, key=lambda y: y.uuid.bytes)
    if syms and rng.random() < 0.5:
        syms[0].name = syms[0].name + "'"
        edited.add("symbol-name")
    bis = sorted(ir.byte_intervals, key=lambda x: x.uuid.bytes)
    bis = [x for x in bis if len(x.contents)]
    if bis and rng.random() < 0.5:
        bis[0].contents[0] ^= 0xff
        edited.add("bytes")
    return edited


def inplace_node_edits(gtirb, rng, ir):
    """in-place edits of objects that stay where they are: a symbolic
    expression's attributes / offset / scale / symbol, a block's size and
    offset, a section's flags, a symbol's payload, an edge label"""
    edited = set()
    syms = sorted(ir.symbols, key=lambda y: y.uuid.bytes)
    for x in sorted(ir.byte_intervals, key=lambda x: x.uuid.bytes):
        for off in sorted(x.symbolic_expressions):
            e = x.symbolic_expressions[off]
            r = rng.random()
            if r < 0.3:
                known = list(gtirb.SymbolicExpression.Attribute)
                a = rng.choice(known)
                if a in e.attributes:
                    e.attributes.discard(a)
                else:
                    e.attributes.add(a)
                edited.add("expr-attributes")
            elif r < 0.5 and isinstance(e, gtirb.SymAddrConst):
                e.offset = rng.choice([0, -1, 5, 2**63 - 1, -2**63])
                edited.add("expr-offset")
            elif r < 0.5 and isinstance(e, gtirb.SymAddrAddr):
                e.scale = rng.choice([1, 2, -4])
                e.offset = rng.choice([0, 7, -9])
                edited.add("expr-scale")
            elif r < 0.65 and syms:
                # only symbols of the interval's own module keep the IR
                # self-contained whatever the module order
                own = [y for y in syms if y.module is x.module]
                if own and isinstance(e, gtirb.SymAddrConst):
                    e.symbol = rng.choice(own)
                    edited.add("expr-symbol")
                elif own and isinstance(e, gtirb.SymAddrAddr):
                    e.symbol2 = rng.choice(own)
                    edited.add("expr-symbol")
    blocks = sorted(ir.byte_blocks, key=lambda b: b.uuid.bytes)
    if blocks and rng.random() < 0.5:
        b = rng.choice(blocks)
        b.size = b.size + 1
        edited.add("block-size")
    if blocks and rng.random() < 0.3:
        b = rng.choice(blocks)
        b.offset = b.offset + 1
        edited.add("block-offset")
    secs = sorted(ir.sections, key=lambda s: s.uuid.bytes)
    if secs and rng.random() < 0.4:
        sec = rng.choice(secs)
        f = rng.choice(list(gtirb.Section.Flag))
        if f in sec.flags:
            sec.flags.discard(f)
        else:
            sec.flags.add(f)
        edited.add("section-flags")
    return edited


def writer_reader_cb(ctx, replay):
    def cb(i, line, a, b):
        """disagreement between implementation and model on line i"""
        if i == 1 and ctx.prop == "C02":
            ctx.report({"kind": "writer-field-mismatch"},
                       dict(replay, message=a[:3000], expected=b[:3000]),
                       "a message field differs from the attribute it must "
                       "equal, near token %s" % first_diff(a.split(" "),
                                                           b.split(" ")))
            return True
        if i == 2 and ctx.prop == "C02":
            ctx.report({"kind": "reader-field-mismatch"},
                       dict(replay, loaded=a[:3000], expected=b[:3000]),
                       "an attribute of the loaded IR differs from the "
                       "message field, near token %s" % first_diff(
                           a.split(" "), b.split(" ")))
            return True
        return False
    return cb


def first_diff(a, b):
    for i, (x, y) in enumerate(zip(a, b)):
        if x != y:
            return "%d (%s vs %s; context %s)" % (
                i, x[:40], y[:40], " ".join(a[max(0, i - 6):i]))
    return "%d (lengths %d vs %d)" % (min(len(a), len(b)), len(a), len(b))


def identity_problems(gtirb, ir):
    """every reference of a loaded IR is the object reachable through
    containment"""
    reach = {}
    for n in [ir] + list(ir.modules) + list(ir.sections) + \
            list(ir.symbols) + list(ir.proxy_blocks) + \
            list(ir.byte_intervals) + list(ir.byte_blocks):
        if n.uuid in reach and reach[n.uuid] is not n:
            return "two attached objects share UUID %s" % n.uuid
        reach[n.uuid] = n

    def same(obj, what):
        if obj is None:
            return None
        if reach.get(obj.uuid) is not obj:
            return "%s is not the attached object of UUID %s" % (what,
                                                                 obj.uuid)
        if ir.get_by_uuid(obj.uuid) is not obj:
            return "%s differs from get_by_uuid(%s)" % (what, obj.uuid)
        return None
    for m in ir.modules:
        p = same(m.entry_point, "entry point")
        if p:
            return p
        if m.entry_point is not None and not isinstance(
                m.entry_point, gtirb.CodeBlock):
            return "entry point is not a CodeBlock"
        for s in m.symbols:
            p = same(s.referent, "symbol referent")
            if p:
                return p
    for x in ir.byte_intervals:
        for k, e in x.symbolic_expressions.items():
            for s in e.symbols:
                p = same(s, "expression symbol")
                if p:
                    return p
                if not isinstance(s, gtirb.Symbol):
                    return "expression symbol is not a Symbol"
    for e in ir.cfg:
        for n, w in ((e.source, "edge source"), (e.target, "edge target")):
            p = same(n, w)
            if p:
                return p
    for cont in [ir] + list(ir.modules):
        for key, ad in cont.aux_data.items():
            try:
                with core.time_limit(2):
                    data = ad.data
            except (Exception, core.ImplTimeout):   # noqa  (malformed type
                continue       # name / foreign or corrupted bytes)
            for leaf in walk(data):
                if isinstance(leaf, gtirb.Node):
                    p = same(leaf, "AuxData entry")
                    if p:
                        return p
                elif isinstance(leaf, uuidlib.UUID) and leaf in reach:
                    return "AuxData UUID %s names an attached node but came "\
                        "back as a plain UUID" % leaf
    return None


def walk(v):
    import gtirb
    if isinstance(v, (list, tuple, set, frozenset)):
        for x in v:
            yield from walk(x)
    elif isinstance(v, dict):
        for k, x in v.items():
            yield from walk(k)
            yield from walk(x)
    elif isinstance(v, gtirb.Variant):
        yield from walk(v.val)
    else:
        yield v


def is_rejection(obs):
    """an exception outcome (`hang` is not one). WHICH exception is demanded
    only where a property names it (C09: DeserializationError for reference
    faults, C17: ValueError for magic / version), and those are checked by the
    direct oracles; the model tie compares accepted-vs-rejected and the
    content of what is accepted."""
    return obs.startswith("err:") or obs.startswith("exc:")


def exc_class(gtirb, e):
    from gtirb.util import DeserializationError
    if isinstance(e, DeserializationError):
        return "err:deser"
    if isinstance(e, ValueError):
        return "err:value"
    if isinstance(e, TypeError):
        return "err:type"
    return "exc:" + type(e).__name__


def reader_one(ctx, no, tie, rng, mode):
    """Reader direction of C02: a message built from the generated classes,
    loaded by gtirb, compared with `fromMsg`."""
    import gtirb
    import gtirb.version
    import msggen
    forward = mode if mode in ("referent", "entry", "expr") else None
    msg = msggen.MsgGen(gtirb, rng, forward=forward,
                        missing_oneof=(mode == "missing-oneof")).build()
    raw = b"GTIRB\0\0" + bytes([gtirb.version.PROTOBUF_VERSION]) + \
        msg.SerializeToString()
    M = irdump.dump_mir(msg)
    replay = {"mode": mode, "message": " ".join(M)[:4000], "no": no}
    try:
        ir = load(gtirb, raw)
        out = None
    except (Exception, core.ImplTimeout) as e:   # noqa
        ir, out = None, exc_class(gtirb, e)
        replay["exception"] = "%s: %s" % (type(e).__name__, str(e)[:100])
    ctx.evaluations += 1
    ctx.count("reader:%s:%s" % (mode, out or "ok"))
    ctx.nontriv(("reader", mode, out, len(msg.modules),
                 min(len(M) // 40, 9)))
    if ir is not None:
        V = irdump.dump_irv(gtirb, ir, msg_aux_bytes(gtirb, msg, ir))
        out = "ok " + " ".join(V)
        prob = identity_problems(gtirb, ir)
        if prob and ctx.prop in ("C09", "C17"):
            ctx.report({"kind": "reference-identity"}, replay, prob)
            return
        try:
            save(ir)
        except (Exception, core.ImplTimeout) as e:   # noqa
            if ctx.prop == "C17":
                ctx.report({"kind": "loaded-ir-cannot-be-saved"}, replay,
                           "an accepted message gives an IR that cannot be "
                           "saved: %s" % type(e).__name__)
                return
    if mode == "closed" and ir is None and ctx.prop in ("C02",):
        ctx.report({"kind": "reader-rejects-valid-message",
                    "exception": out}, replay,
                   "a schema-valid, referentially closed message was "
                   "rejected: %s" % replay.get("exception"))
        return
    if forward and ir is None and ctx.prop in ("C02",):
        # closed in the plain sense, pointing forward across modules
        ctx.report({"kind": "forward-reference"}, replay,
                   "a closed message with a forward %s reference was "
                   "rejected: %s" % (mode, replay.get("exception")))

    def cb(i, line, a, b):
        if b == "err:dup":
            return True       # outside the value-level reader
        if is_rejection(a) and is_rejection(b):
            return True       # rejected by both; the class is not C02's
        if ctx.prop == "C02":
            ctx.report({"kind": "reader-field-mismatch", "mode": mode},
                       dict(replay, loaded=a[:3000], expected=b[:3000]),
                       "loading a message gave %s, the field-by-field "
                       "reading gives %s" % (a[:60], b[:60]))
            return True
        return a.startswith("exc:")
    lines, obs = ["frommsg " + " ".join(M)], [out]
    if mode == "closed":
        # the hypothesis of C02_reader_accepts is met by what is tested
        lines.append("closed " + " ".join(M))
        obs.append("1")
    elif forward and ir is None:
        lines.append("closed " + " ".join(M))
        obs.append("0")
    tie.add_checked("msg %d (%s)" % (no, mode), lines, obs, cb)


class CheckedTie(core.BatchTie):
    """BatchTie with a per-history callback deciding whether a disagreement
    is a property violation (then it is not a broken tie)."""

    def add_checked(self, tag, lines, impl, cb):
        self.cbs = getattr(self, "cbs", {})
        self.cbs[tag] = cb
        self.add(tag, lines, impl)

    def flush(self):
        if not self.pending:
            return
        all_lines = [l for _, ls, _ in self.pending for l in ls]
        out = core.lean_batch(self.model, all_lines)
        pos = 0
        for tag, ls, impl in self.pending:
            got = out[pos:pos + len(ls)]
            pos += len(ls)
            cb = getattr(self, "cbs", {}).get(tag)
            good = True
            for i, (a, b) in enumerate(zip(impl, got)):
                if a != b:
                    good = False
                    if cb and cb(i, ls[i], a, b):
                        continue
                    if os.environ.get("VERIF_DEBUG"):
                        core.log("DEBUG mismatch in", tag)
                        core.log("  line", ls[i])
                        core.log("   impl", a)
                        core.log("   lean", b)
                    self.ctx.tie_broken.append(
                        "correspondence:%s %s line %d (%s) impl=%s lean=%s"
                        % (self.name, tag, i, ls[i][:30], a[:120], b[:120]))
                    break
            if good:
                self.ctx.traces += len(ls)
        self.pending = []
        self.cbs = {}


def forward_entry_probe(ctx):
    """known finding K5: an entry point in a module that comes later in
    ir.modules (the preconditions of C01 / C17 do not exclude it)"""
    import gtirb
    ir = gtirb.IR()
    m0 = gtirb.Module(name="m0", ir=ir)
    m1 = gtirb.Module(name="m1", ir=ir)
    s = gtirb.Section(name="s", module=m1)
    bi = gtirb.ByteInterval(size=4, section=s)
    cb = gtirb.CodeBlock(size=1, byte_interval=bi)
    m0.entry_point = cb
    raw = save(ir)
    ctx.evaluations += 1
    try:
        load(gtirb, raw)
    except (Exception, core.ImplTimeout) as e:   # noqa
        ctx.report({"kind": "forward-reference"},
                   {"file_hex": raw.hex(), "exception": type(e).__name__},
                   "a saved self-contained IR whose module 0 has its entry "
                   "point in module 1 is rejected by load: %s"
                   % type(e).__name__)


def run(ctx, props, n=None):
    ctx.rule = ("self-contained IRs built through the public API in random "
                "construction orders (parent= arguments, collection adds, "
                "late attachment), boundary values forced (None vs 0, 0 and "
                "2^64-1, int64 bounds, empty/non-ASCII names, zero-sized and "
                "overlapping blocks, value 0, label None vs all-false, enum "
                "constants cycled, unknown attribute numbers, AuxData with "
                "node references); per IR: save, parse with the generated "
                "classes, load, save again; object and message dumps "
                "compared with each other and with the Lean model; "
                "non-trivial = distinct (modules, nodes/8, has edges, has "
                "AuxData)")
    tie = CheckedTie(ctx, "msg", "msg", flush_at=40)
    # model W (protobuf wire format, serializer and parser of the message):
    # every saved file is also parsed / written by the Lean model and compared
    # with the real protobuf library (C01 C02 C17 use the byte-level theorems)
    wire = None
    if ctx.prop in ("C01", "C02", "C17"):
        import gtirb
        import pbwire_tie
        wire = pbwire_tie.WireTie(ctx, gtirb)
    tie.wire = wire
    if ctx.prop in ("C01", "C17"):
        forward_entry_probe(ctx)
    n = n or ctx.scale(400, 5000)
    for i in range(n):
        size = ctx.rng.choice([0.3, 1.0, 1.0, 2.5 if ctx.thorough() else 1.5])
        try:
            one_ir(ctx, i, tie, ctx.rng, size, props)
        except core.HarnessError:
            raise
        if wire is not None and i % 20 == 19:
            wire.flush()
        if len(ctx.violations) >= 3:
            break
    if "C02" in props or "C09" in props or "C17" in props:
        modes = ["closed"] * 6 + ["missing-oneof", "referent", "entry",
                                  "expr"]
        for i in range(ctx.scale(300, 10000)):
            reader_one(ctx, i, tie, ctx.rng, modes[i % len(modes)])
            if len(ctx.violations) >= 3:
                break
    tie.flush()
    if wire is not None:
        wire.flush()
