"""./check <id> [--tier quick|thorough] [--replay FILE]

Decides one property on /repo's current working tree. Exit 0 = held on
everything explored, 1 = VIOLATION line(s) printed, 2 = harness trouble.
"""
import argparse
import atexit
import importlib
import json
import os
import re
import shutil
import sys
import tempfile
import time
import traceback

HERE = os.path.dirname(os.path.abspath(__file__))
sys.path.insert(0, HERE)
import core  # noqa: E402
import build_pkg  # noqa: E402


def failing_decls(log):
    """Names of files/declarations with errors in a lake build log."""
    out = []
    for m in re.finditer(r"error: ([^\s:]+\.lean):(\d+):(\d+): (.*)", log):
        out.append("%s:%s %s" % (m.group(1), m.group(2), m.group(4)[:120]))
    return out or ["(see build log)"]


_WATCHDOG = None


def start_watchdog(seconds):
    """A hung check is harness trouble (exit 2), never a verdict."""
    import faulthandler
    import threading

    def fire():
        sys.stderr.write("watchdog: check exceeded %ds, giving up (exit 2)\n"
                         % seconds)
        faulthandler.dump_traceback(file=sys.stderr)
        sys.stderr.flush()
        os._exit(2)
    global _WATCHDOG
    if _WATCHDOG is not None:
        _WATCHDOG.cancel()          # re-armed (e.g. for the search phase)
    t = threading.Timer(seconds, fire)
    t.daemon = True
    t.start()
    _WATCHDOG = t


def run_other_backend(ctx, prop, tier):
    """Repeat the stream under the pure-Python protobuf runtime (the parent
    runs under upb) and merge what it found."""
    import subprocess
    env = dict(os.environ, PROTOCOL_BUFFERS_PYTHON_IMPLEMENTATION="python",
               VERIF_SEED=str(ctx.seed + 1))
    try:
        p = subprocess.run([sys.executable, os.path.abspath(__file__), prop,
                            "--tier", tier, "--child"], env=env,
                           stdout=subprocess.PIPE, stderr=subprocess.PIPE,
                           text=True, timeout=3600)
    except subprocess.TimeoutExpired:
        raise core.HarnessError("second protobuf backend run timed out")
    line = [l for l in p.stdout.splitlines() if l.startswith("CHILD-SUMMARY ")]
    if not line:
        core.log(p.stderr[-2000:])
        raise core.HarnessError("second protobuf backend run failed")
    s = json.loads(line[-1][len("CHILD-SUMMARY "):])
    if "harness_error" in s:
        raise core.HarnessError("second backend: " + s["harness_error"])
    ctx.extra["backends"] = ["upb", s["backend"]]
    ctx.extra["second_backend_evaluations"] = s["evaluations"]
    ctx.evaluations += s["evaluations"]
    ctx.traces += s["traces"]
    for k, v in s["hist"].items():
        ctx.hist[s["backend"] + ":" + k] += v
    for v in s["violations"]:
        ctx.violations.append(tuple(v))
    for k, v in s["known_hits"].items():
        ctx.known_hits.setdefault(k, v)
    ctx.tie_broken += ["[%s backend] %s" % (s["backend"], b)
                       for b in s["tie_broken"]]


def main():
    ap = argparse.ArgumentParser()
    ap.add_argument("prop")
    ap.add_argument("--tier", default=os.environ.get("VERIF_TIER", "quick"),
                    choices=["quick", "thorough"])
    ap.add_argument("--replay")
    ap.add_argument("--no-build", action="store_true",
                    help="skip lake build (setup just did it)")
    ap.add_argument("--child", action="store_true",
                    help="internal: run only the stream (second protobuf "
                         "backend) and print a JSON summary")
    args = ap.parse_args()
    prop = args.prop
    start_watchdog(int(os.environ.get(
        "VERIF_WATCHDOG", "900" if args.tier == "quick" else "7200")))
    seed = int(os.environ.get("VERIF_SEED", "0") or 0)
    replay_data = None
    if args.replay:
        # a replay re-executes the recorded case; streams that re-run their
        # seeded generator need the recorded seed and tier
        with open(args.replay) as fh:
            replay_data = json.load(fh)
        seed = int(replay_data.get("seed", seed))
        if replay_data.get("tier") in ("quick", "thorough"):
            args.tier = replay_data["tier"]
    t0 = time.time()

    # 1. package from the working tree
    tmp = tempfile.mkdtemp(prefix="verif-pkg-")
    atexit.register(shutil.rmtree, tmp, True)
    try:
        pkg, descs, order, parsed = build_pkg.build(tmp)
    except Exception as e:   # schema the translator cannot read
        core.log("package build failed:", repr(e))
        traceback.print_exc()
        return 2
    sys.path.insert(0, tmp)
    os.environ["VERIF_PKG_DIR"] = tmp
    cov_dir = os.environ.get("VERIF_COV")
    if cov_dir:     # tools/coverage_run.sh: which source lines the streams reach
        import coverage
        cov = coverage.Coverage(data_file=None, include=[pkg + "/*.py"],
                                branch=True)
        cov.start()

        def _dump_cov():
            cov.stop()
            out = {}
            for f in cov.get_data().measured_files():
                try:
                    _, stmts, _, missing, _ = cov.analysis2(f)
                except Exception:   # noqa
                    continue
                out[os.path.basename(f)] = {"statements": stmts,
                                            "missing": missing}
            os.makedirs(cov_dir, exist_ok=True)
            with open(os.path.join(cov_dir, "%s-%d.json" % (
                    prop, os.getpid())), "w") as fh:
                json.dump(out, fh)
        atexit.register(_dump_cov)
    try:
        import gtirb
    except Exception:
        # The working tree does not import: nothing can be said about the
        # property; this is a build failure of the code under test.
        core.log("built package does not import:")
        traceback.print_exc()
        return 2
    assert os.path.dirname(gtirb.__file__) == pkg, gtirb.__file__

    ctx = core.Ctx(prop, args.tier, seed, tmp)
    ctx.t0 = t0
    ctx.descs, ctx.proto_order, ctx.proto_parsed = descs, order, parsed
    mod = importlib.import_module("props." + prop)
    if args.child:
        try:        # die with the parent (it may be stopped by its watchdog)
            import ctypes
            import signal
            ctypes.CDLL("libc.so.6").prctl(1, signal.SIGKILL)
        except Exception:   # noqa
            pass
        from google.protobuf.internal import api_implementation
        try:
            mod.run(ctx)
            summary = {"backend": api_implementation.Type(),
                       "evaluations": ctx.evaluations,
                       "traces": ctx.traces,
                       "hist": dict(ctx.hist),
                       "nontrivial": len(ctx.nontrivial),
                       "violations": ctx.violations,
                       "known_hits": dict(ctx.known_hits),
                       "tie_broken": ctx.tie_broken[:20]}
        except core.HarnessError as e:
            summary = {"harness_error": str(e)}
        print("CHILD-SUMMARY " + json.dumps(summary))
        return 0

    obl = core.load_obligations().get(prop, {})
    theorems = list(obl.get("theorems", []))
    modules = obl.get("modules", ["GtirbProofs.Props." + prop])
    module = " ".join(modules)
    broken = []

    try:
        # 2. tables from the current source
        import gen_tables
        gen_tables.generate(ctx)

        # 3. build
        if not args.no_build:
            ok, log = core.lake_build(["GtirbModel", "driver"])
            if not ok:
                core.log(log[-4000:])
                raise core.HarnessError("model/driver build failed")
            ok, log = core.lake_build(modules)
            if not ok:
                core.log(log[-4000:])
                broken += ["build:" + d for d in failing_decls(log)]

        # 4. audit
        discharged = 0
        if not broken:
            hits = core.grep_forbidden()
            if hits:
                broken += ["forbidden:" + h for h in hits]
            res, out = core.audit_axioms(theorems, modules)
            for t in theorems:
                ax = res.get(t)
                if ax is None:
                    broken.append("missing-theorem:" + t)
                elif not set(ax) <= core.ALLOWED_AXIOMS:
                    broken.append("axioms:%s:%s" % (t, ",".join(ax)))
                else:
                    discharged += 1
            if args.tier == "thorough" and not broken:
                rc, out = core._run(["lake", "env", "leanchecker"] + modules,
                                    cwd=core.LEAN, timeout=3000)
                ctx.extra["leanchecker"] = "ok" if rc == 0 else out[-500:]
                if rc != 0:
                    broken.append("leanchecker:" + module)
        ctx.tie_broken += broken

        # 5. correspondence + direct oracle
        if args.replay:
            mod.replay(ctx, replay_data)
        else:
            mod.run(ctx)
            if getattr(mod, "BOTH_BACKENDS", False):
                run_other_backend(ctx, prop, args.tier)
            for b in ctx.tie_broken[:10]:
                core.log("tie broken:", b)
            if ctx.tie_broken and not ctx.violations:
                # the tie is broken: search harder for a failing input
                if hasattr(mod, "search"):
                    # the search has the thorough budget: give it its own
                    # watchdog instead of what is left of the quick one
                    start_watchdog(int(os.environ.get(
                        "VERIF_SEARCH_WATCHDOG", "3600")))
                    mod.search(ctx, ctx.tie_broken)
                if not ctx.violations:
                    ctx.report_no_input(
                        "proof obligation or correspondence no longer checks",
                        ctx.tie_broken)
    except core.HarnessError as e:
        core.log("harness error:", e)
        return 2
    except Exception:
        traceback.print_exc()
        if not ctx.violations:
            return 2
        # violations were already established (with their replays) before
        # the harness itself stumbled: they are reported, the stumble noted
        ctx.extra["harness_exception_after_violation"] = \
            traceback.format_exc()[-1500:]
        discharged = locals().get("discharged", 0)

    names = theorems + obl.get("streams", [])
    n_obl = len(names)
    n_dis = discharged + (len(obl.get("streams", []))
                          if not ctx.tie_broken else 0)
    checker = ("cd /verif/lean && lake build %s && lake env lean <#print "
               "axioms of each obligation> ; ./check %s" % (module, prop))
    level = "proof" if theorems else "exploration"
    if not args.replay:     # a replay describes one recorded case, not a run
        core.write_evidence(ctx, names, n_dis, checker, level)
    for kid, what in ctx.known_hits.items():
        print("KNOWN-FINDING: property=%s %s %s" % (prop, kid, what))
    for path, what, noinput in ctx.violations:
        core.log("violation: %s" % what)
        print("VIOLATION property=%s replay=%s%s" % (
            prop, path, " no-failing-input-found" if noinput else ""))
    sys.stdout.flush()
    return 1 if ctx.violations else 0


if __name__ == "__main__":
    try:
        rc = main()
    except SystemExit:
        raise
    except BaseException:       # anything unforeseen is harness trouble (2),
        traceback.print_exc()   # never the violation code
        rc = 2
    sys.exit(rc)
