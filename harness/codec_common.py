"""Shared by C07 / C08 / C14: type-directed value generation for the AuxData
codec, conversion between Python values and the driver's token notation, and
canonical comparison."""
import io
import struct
import uuid as uuidlib

import core

LEAVES = ["uint8_t", "uint16_t", "uint32_t", "uint64_t", "int8_t", "int16_t",
          "int32_t", "int64_t", "Addr", "bool", "float", "double", "string",
          "UUID", "Offset"]
INT_RANGE = {
    "uint8_t": (0, 2**8 - 1), "uint16_t": (0, 2**16 - 1),
    "uint32_t": (0, 2**32 - 1), "uint64_t": (0, 2**64 - 1),
    "Addr": (0, 2**64 - 1),
    "int8_t": (-2**7, 2**7 - 1), "int16_t": (-2**15, 2**15 - 1),
    "int32_t": (-2**31, 2**31 - 1), "int64_t": (-2**63, 2**63 - 1),
}
STRINGS = ["", "a", "héllo", "\0", "a\0b", "<>,", "mapping<string,UUID>",
           "日本語", "𝔘𝔫𝔦", "\U0010ffff", "é" * 40, "x" * 300, " ", "\n",
           "ࠀ߿￿", "a,b<c>",
           # byte order mark: an ordinary character of a string
           "\ufeff", "\ufeffabc", "a\ufeffb", "\ufeff\ufeff"]
F64_BITS = [0, 1 << 63, 0x7ff0000000000000, 0xfff0000000000000,
            0x7ff8000000000000, 0x7ff0000000000001, 0xfff8000000000123,
            0x3ff0000000000000, 0x0000000000000001, 0x000fffffffffffff,
            0x3ff0000020000000, 0x36a0000000000000, 0x47efffffe0000000,
            0x3fb999999999999a, 0xc00921fb54442d18]
F32_BITS = [0, 1 << 31, 0x7f800000, 0xff800000, 0x7fc00000, 0x7f800001,
            0xffc00123, 0x3f800000, 0x00000001, 0x007fffff, 0x7f7fffff,
            0x3dcccccd, 0xc0490fdb]


def hexs(s):
    b = s.encode("utf-8")
    return b.hex() if b else "-"


def hexb(b):
    return bytes(b).hex() if len(b) else "-"


# ------------------------------------------------------------------ type trees
def render(t):
    name, kids = t
    if not kids:
        return name
    return name + "<" + ",".join(render(k) for k in kids) + ">"


def hashable_type(t):
    name, kids = t
    if name in ("sequence", "set", "mapping", "variant"):
        return False
    if name == "tuple":
        return all(hashable_type(k) for k in kids)
    return name in LEAVES


def gen_type(rng, depth, hashable=False):
    """Random supported type tree; `hashable`: usable as set element/map key
    (Python needs a hashable value there)."""
    if depth <= 0 or rng.random() < 0.3:
        leaves = LEAVES
        if hashable:
            # floats are hashable but NaN / signed zero make set semantics a
            # separate topic; keep them (they are legal) at low rate
            pass
        return (rng.choice(leaves), [])
    kinds = ["tuple"] if hashable else ["sequence", "set", "mapping", "tuple",
                                        "variant", "sequence", "mapping"]
    k = rng.choice(kinds)
    if k == "sequence":
        return ("sequence", [gen_type(rng, depth - 1)])
    if k == "set":
        return ("set", [gen_type(rng, depth - 1, True)])
    if k == "mapping":
        return ("mapping", [gen_type(rng, depth - 1, True),
                            gen_type(rng, depth - 1)])
    n = rng.choice([1, 1, 2, 2, 3, 4]) if k != "tuple" else rng.choice(
        [1, 2, 2, 3, 5])
    return (k, [gen_type(rng, depth - 1, hashable) for _ in range(n)])


class World:
    """An IR with a few attached nodes plus detached nodes; the node registry
    gives every Node a creation index used on the wire."""

    def __init__(self, rng):
        import gtirb
        self.gtirb = gtirb
        self.rng = rng
        self.ir = gtirb.IR()
        m = gtirb.Module(name="m", ir=self.ir)
        s = gtirb.Section(name=".text", module=m)
        bi = gtirb.ByteInterval(size=16, contents=b"\0" * 16, section=s)
        cb = gtirb.CodeBlock(size=4, offset=0, byte_interval=bi)
        db = gtirb.DataBlock(size=4, offset=4, byte_interval=bi)
        sym = gtirb.Symbol(name="f", payload=cb, module=m)
        px = gtirb.ProxyBlock(module=m)
        self.attached = [self.ir, m, s, bi, cb, db, sym, px]
        self.detached = [gtirb.CodeBlock(), gtirb.Symbol(name="d"),
                         gtirb.Section(name="x")]
        self.nodes = self.attached + self.detached
        self.index = {id(n): i for i, n in enumerate(self.nodes)}
        self.foreign_uuids = [uuidlib.UUID(int=0), uuidlib.UUID(int=2**128 - 1),
                              uuidlib.UUID(int=rng.getrandbits(128)),
                              uuidlib.UUID(int=rng.getrandbits(128))]

    def node_lines(self):
        return ["node %d %s %d" % (i, n.uuid.bytes.hex(),
                                   1 if i < len(self.attached) else 0)
                for i, n in enumerate(self.nodes)]


def gen_elem(rng, world, resolve_only):
    """A UUID-typed element. resolve_only: only values that round-trip to
    themselves (attached node objects, foreign plain UUIDs)."""
    r = rng.random()
    if r < 0.5:
        return rng.choice(world.attached)
    if r < 0.9 or resolve_only:
        return rng.choice(world.foreign_uuids) if rng.random() < 0.7 else \
            uuidlib.UUID(int=rng.getrandbits(128))
    if r < 0.95:
        return rng.choice(world.detached)            # comes back as UUID
    return rng.choice(world.attached).uuid           # comes back as node


def gen_value(rng, world, t, resolve_only=True, size=3):
    gtirb = world.gtirb
    name, kids = t
    if name in INT_RANGE:
        lo, hi = INT_RANGE[name]
        r = rng.random()
        if r < 0.2:
            return lo
        if r < 0.4:
            return hi
        if r < 0.5:
            return 0
        if r < 0.6:
            return max(lo, min(hi, rng.choice([-1, 1, 255, 256, 65535, 65536,
                                               2**31, 2**32, -129, 128])))
        return rng.randint(lo, hi)
    if name == "bool":
        return rng.random() < 0.5
    if name == "double":
        bits = rng.choice(F64_BITS) if rng.random() < 0.7 else \
            rng.getrandbits(64)
        return struct.unpack("<d", struct.pack("<Q", bits))[0]
    if name == "float":
        bits = rng.choice(F32_BITS) if rng.random() < 0.7 else \
            rng.getrandbits(32)
        return struct.unpack("<f", struct.pack("<I", bits))[0]
    if name == "string":
        if rng.random() < 0.7:
            return rng.choice(STRINGS)
        n = rng.randrange(0, 12)
        return "".join(chr(rng.choice([rng.randrange(0, 128),
                                       rng.randrange(128, 0x800),
                                       rng.randrange(0x800, 0xd800),
                                       rng.randrange(0xe000, 0x10000),
                                       rng.randrange(0x10000, 0x110000)]))
                       for _ in range(n))
    if name == "UUID":
        return gen_elem(rng, world, resolve_only)
    if name == "Offset":
        d = rng.choice([0, 1, 2**64 - 1, rng.getrandbits(64),
                        rng.randrange(100)])
        return gtirb.Offset(gen_elem(rng, world, resolve_only), d)
    n = int(rng.random() ** 2 * (size + 1))
    if name == "sequence":
        return [gen_value(rng, world, kids[0], resolve_only, size)
                for _ in range(n)]
    if name == "set":
        out = set()
        for _ in range(n):
            v = gen_value(rng, world, kids[0], resolve_only, size)
            if not has_nan(v):
                out.add(v)
        return out
    if name == "mapping":
        out = {}
        for _ in range(n):
            k = gen_value(rng, world, kids[0], resolve_only, size)
            if not has_nan(k):
                out[k] = gen_value(rng, world, kids[1], resolve_only, size)
        return out
    if name == "tuple":
        return tuple(gen_value(rng, world, k, resolve_only, size)
                     for k in kids)
    if name == "variant":
        i = rng.randrange(len(kids))
        return gtirb.Variant(i, gen_value(rng, world, kids[i], resolve_only,
                                          size))
    raise ValueError(name)


def has_nan(v):
    if isinstance(v, float):
        return v != v
    if isinstance(v, tuple):
        return any(has_nan(x) for x in v)
    return False


# ------------------------------------------------------------------ tokens
def f32_bits(x):
    return struct.unpack("<I", struct.pack("<f", x))[0]


def f64_bits(x):
    return struct.unpack("<Q", struct.pack("<d", x))[0]


def to_tokens(world, t, v):
    """Python value -> driver tokens (list of str), guided by the type tree.
    Raises TypeError if the value does not have the shape of the type."""
    gtirb = world.gtirb
    name, kids = t
    if name in INT_RANGE:
        if isinstance(v, bool) or not isinstance(v, int):
            raise TypeError("int expected")
        return ["i", str(v)]
    if name == "bool":
        if not isinstance(v, bool):
            raise TypeError("bool expected")
        return ["b", "1" if v else "0"]
    if name == "float":
        return ["f", str(f32_bits(v))]
    if name == "double":
        return ["d", str(f64_bits(v))]
    if name == "string":
        if not isinstance(v, str):
            raise TypeError("str expected")
        return ["s", hexs(v)]
    if name == "UUID":
        return elem_tokens(world, v)
    if name == "Offset":
        if not isinstance(v, gtirb.Offset):
            raise TypeError("Offset expected")
        return ["o"] + elem_tokens(world, v.element_id) + [str(v.displacement)]
    if name == "sequence":
        if not isinstance(v, (list, tuple)):
            raise TypeError("list expected")
        out = ["L", str(len(v))]
        for x in v:
            out += to_tokens(world, kids[0], x)
        return out
    if name == "set":
        if not isinstance(v, (set, frozenset)):
            raise TypeError("set expected")
        out = ["S", str(len(v))]
        for x in v:
            out += to_tokens(world, kids[0], x)
        return out
    if name == "mapping":
        if not isinstance(v, dict):
            raise TypeError("dict expected")
        out = ["M", str(len(v))]
        for k, x in v.items():
            out += to_tokens(world, kids[0], k)
            out += to_tokens(world, kids[1], x)
        return out
    if name == "tuple":
        if not isinstance(v, tuple) or len(v) != len(kids):
            raise TypeError("tuple expected")
        out = ["T", str(len(v))]
        for k, x in zip(kids, v):
            out += to_tokens(world, k, x)
        return out
    if name == "variant":
        if not isinstance(v, gtirb.Variant):
            raise TypeError("Variant expected")
        return ["V", str(v.index)] + to_tokens(world, kids[v.index], v.val)
    raise TypeError("unsupported type " + name)


def elem_tokens(world, v):
    if isinstance(v, uuidlib.UUID):
        return ["u", v.bytes.hex()]
    if isinstance(v, world.gtirb.Node):
        idx = world.index.get(id(v))
        if idx is None:
            raise TypeError("unregistered node")
        return ["n", str(idx)]
    raise TypeError("UUID or Node expected")


def parse_tokens(toks, pos=0):
    """tokens -> canonical nested tuple (sets/maps order-free)."""
    k = toks[pos]
    if k in ("i", "f", "d", "n"):
        return (k, int(toks[pos + 1])), pos + 2
    if k == "b":
        return ("b", toks[pos + 1]), pos + 2
    if k in ("s", "u"):
        return (k, toks[pos + 1]), pos + 2
    if k == "o":
        e, p = parse_tokens(toks, pos + 1)
        return ("o", e, int(toks[p])), p + 1
    if k in ("L", "S", "T"):
        n = int(toks[pos + 1])
        p = pos + 2
        xs = []
        for _ in range(n):
            x, p = parse_tokens(toks, p)
            xs.append(x)
        if k == "S":
            return ("S", tuple(sorted(xs, key=repr))), p
        return (k, tuple(xs)), p
    if k == "M":
        n = int(toks[pos + 1])
        p = pos + 2
        xs = []
        for _ in range(n):
            a, p = parse_tokens(toks, p)
            b, p = parse_tokens(toks, p)
            xs.append((a, b))
        return ("M", tuple(sorted(xs, key=repr))), p
    if k == "V":
        x, p = parse_tokens(toks, pos + 2)
        return ("V", int(toks[pos + 1]), x), p
    raise ValueError("bad token %r" % k)


def canon(toks):
    v, p = parse_tokens(toks)
    assert p == len(toks), (p, toks)
    return v


def nan_normalise(c):
    """Replace NaN bit patterns by a marker (the C cast may quiet a signalling
    NaN; Appendix A: float NaNs compare as 'is a NaN')."""
    if isinstance(c, tuple):
        if len(c) == 2 and c[0] == "f" and isinstance(c[1], int):
            e = (c[1] >> 23) & 0xff
            if e == 0xff and (c[1] & 0x7fffff):
                return ("f", "nan")
            return c
        if len(c) == 2 and c[0] == "d" and isinstance(c[1], int):
            e = (c[1] >> 52) & 0x7ff
            if e == 0x7ff and (c[1] & ((1 << 52) - 1)):
                return ("d", "nan:%x" % c[1])
            return c
        return tuple(nan_normalise(x) for x in c)
    return c


IMPL_LIMIT = 10


def impl_encode(gtirb, type_name, value):
    out = io.BytesIO()
    with core.time_limit(IMPL_LIMIT):
        gtirb.AuxData.serializer.encode(out, value, type_name)
    return out.getvalue()


def impl_decode(gtirb, type_name, data, lookup):
    with core.time_limit(IMPL_LIMIT):
        return gtirb.AuxData.serializer.decode(bytes(data), type_name, lookup)
