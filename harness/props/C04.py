"""C04: containment is a forest kept consistent from both ends (shared
graph-history stream) and separately constructed nodes share nothing
(alias_stream)."""
import alias_stream
import graph_stream


def run(ctx):
    alias_stream.run(ctx)
    graph_stream.run(ctx)


def search(ctx, broken):
    graph_stream.search(ctx, broken)


def replay(ctx, data):
    graph_stream.replay(ctx, data)
