"""C17: the loader either rejects a file or returns a coherent IR."""
import fault_stream
import loader_stream
import msg_stream


def run(ctx):
    fault_stream.run(ctx)
    # every file produced by save from a self-contained IR is accepted,
    # and accepted foreign messages give coherent, saveable IRs
    msg_stream.run(ctx, {"C17"}, ctx.scale(60, 1500))
    # the staged decoder over the object-graph model, duplicated UUIDs included
    loader_stream.run(ctx)


def search(ctx, broken):
    ctx.tier = "thorough"
    fault_stream.run(ctx)


def replay(ctx, data):
    import io
    import gtirb
    r = data["replay"]
    print("replay: fault =", r.get("fault"))
    if "file_hex" in r:
        raw = bytes.fromhex(r["file_hex"])
        out, ir, detail = fault_stream.load_outcome(gtirb, raw)
        print("outcome on the current tree:", out, detail)
        if ir is not None:
            print("coherence:", fault_stream.coherence_problem(gtirb, ir))
