"""C17: the loader either rejects a file or returns a coherent IR."""
import fault_stream
import loader_stream
import msg_stream


def run(ctx):
    fault_stream.run(ctx)
    # every file produced by save from a self-contained IR is accepted,
    # and accepted foreign messages give coherent, saveable IRs
    msg_stream.run(ctx, {"C17"}, ctx.scale(60, 1500))
    # the staged decoder over the object-graph model, duplicated UUIDs included
    loader_stream.run(ctx)


def search(ctx, broken):
    ctx.tier = "thorough"
    fault_stream.run(ctx)


def replay(ctx, data):
    """the recorded file (when the replay carries it whole) is loaded again
    and judged by the same oracle; then the recorded seeded stream is re-run
    (main.py has restored its seed and tier)"""
    import gtirb
    r = data.get("replay", {})
    print("replay: fault =", r.get("fault"))
    hx = r.get("file_hex")
    if hx and len(hx) < 6000 and len(hx) % 2 == 0:
        raw = bytes.fromhex(hx)
        out, ir, detail = fault_stream.load_outcome(gtirb, raw)
        print("outcome on the current tree:", out, detail)
        if out == "hang":
            ctx.report({"kind": "hang", "fault": "replayed"}, r,
                       "load did not return on the replayed file")
        elif ir is not None:
            fault_stream.check_accepted(ctx, gtirb, ir, r,
                                        r.get("fault", "replayed"))
    if not ctx.violations:
        run(ctx)
