"""C02: decided on the save/load stream (harness/msg_stream.py)."""
import msg_stream

BOTH_BACKENDS = True


def run(ctx):
    msg_stream.run(ctx, {"C02"})


def search(ctx, broken):
    msg_stream.run(ctx, {"C02"}, 1500)


def replay(ctx, data):
    print("replay:", str(data["replay"])[:2000])
    msg_stream.run(ctx, {"C02"})
