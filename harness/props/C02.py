"""C02: decided on the save/load stream (harness/msg_stream.py)."""
import msg_stream

BOTH_BACKENDS = True


def writer_version_probe(ctx):
    """writer direction for `IR.version`: the message field `version` is the
    attribute (whatever its value), the file header carries this API's
    protobuf version. (An IR with another version cannot be loaded back - C17
    demands its rejection - so the round-trip streams never see one.)"""
    import io
    import gtirb
    import gtirb.version
    import core
    from gtirb.proto import IR_pb2
    for v in (0, 1, 3, gtirb.version.PROTOBUF_VERSION, 5, 2**32 - 1,
              ctx.rng.randrange(6, 2**32)):
        ir = gtirb.IR(version=v)
        gtirb.Module(name="m", ir=ir)
        buf = io.BytesIO()
        try:
            with core.time_limit(20):
                ir.save_protobuf_file(buf)
            raw = buf.getvalue()
            msg = IR_pb2.IR()
            msg.ParseFromString(raw[8:])
            got = (raw[:5], raw[7], msg.version)
        except (Exception, core.ImplTimeout) as e:   # noqa
            got = ("raised", type(e).__name__, None)
        ctx.evaluations += 1
        ctx.count("writer-version-probe")
        ctx.nontriv(("writer-version", v == gtirb.version.PROTOBUF_VERSION))
        want = (b"GTIRB", gtirb.version.PROTOBUF_VERSION, v)
        if got != want:
            ctx.report({"kind": "writer-field-mismatch", "field": "version"},
                       {"ir_version": v, "got": repr(got)},
                       "IR(version=%d) was written as header/version %r, the "
                       "schema says header version %d and field version %d"
                       % (v, got[1:], want[1], want[2]))
            return


def run(ctx):
    msg_stream.run(ctx, {"C02"})
    if not ctx.violations:
        writer_version_probe(ctx)


def search(ctx, broken):
    msg_stream.run(ctx, {"C02"}, 1500)


def replay(ctx, data):
    print("replay:", str(data["replay"])[:2000])
    msg_stream.run(ctx, {"C02"})
