"""C03: decided on the shared graph-history stream (harness/graph.py)."""
import graph_stream


def run(ctx):
    graph_stream.run(ctx)


def search(ctx, broken):
    graph_stream.search(ctx, broken)


def replay(ctx, data):
    graph_stream.replay(ctx, data)
