"""C09: after load every reference is the attached object itself; a file with
a dangling or ill-typed reference is rejected with DeserializationError."""
import fault_stream
import msg_stream

BOTH_BACKENDS = True


def lazy_tables_probe(ctx):
    """AuxData tables are decoded lazily: a UUID entry is resolved against the
    loaded IR as it is when the table is first read (an attached node -> that
    very object; anything else -> a plain UUID), table by table."""
    import io
    import uuid as uuidlib
    import gtirb
    import core
    rng = ctx.rng
    for _ in range(ctx.scale(20, 200)):
        ir = gtirb.IR()
        m = gtirb.Module(name="m", ir=ir)
        px = [gtirb.ProxyBlock(module=m) for _ in range(3)]
        level = rng.choice([ir, m])
        tables = ["a", "b", "c"]
        for t in tables:
            level.aux_data[t] = gtirb.AuxData(
                [p for p in px], "sequence<UUID>")
        buf = io.BytesIO()
        ir.save_protobuf_file(buf)
        buf.seek(0)
        try:
            with core.time_limit(30):
                ir2 = gtirb.IR.load_protobuf_file(buf)
                m2 = ir2.modules[0]
                lv = ir2 if level is ir else m2
                by_uuid = {p.uuid: p for p in m2.proxies}
                obs = []
                first = list(lv.aux_data["a"].data)
                obs.append(("a", first))
                gone = by_uuid[px[1].uuid]
                gone.module = None                 # detached before "b" is read
                obs.append(("b", list(lv.aux_data["b"].data)))
                gone.module = m2
                obs.append(("c", list(lv.aux_data["c"].data)))
        except (Exception, core.ImplTimeout) as e:   # noqa
            ctx.report({"kind": "lazy-table-raises"},
                       {"exception": type(e).__name__},
                       "reading lazily decoded tables raised %s"
                       % type(e).__name__)
            return
        ctx.evaluations += 3
        ctx.count("lazy-tables-probe")
        ctx.nontriv(("lazy-tables", type(level).__name__))
        want_b = [by_uuid[px[0].uuid], px[1].uuid, by_uuid[px[2].uuid]]
        ok = (all(x is by_uuid[p.uuid] for x, p in zip(obs[0][1], px))
              and len(obs[1][1]) == 3
              and all((g is w) if not isinstance(w, uuidlib.UUID)
                      else (type(g) is uuidlib.UUID and g == w)
                      for g, w in zip(obs[1][1], want_b))
              and all(x is by_uuid[p.uuid] for x, p in zip(obs[2][1], px)))
        if not ok:
            ctx.report({"kind": "lazy-table-resolution"},
                       {"observed": [(k, [type(x).__name__ for x in v])
                                     for k, v in obs]},
                       "UUID entries of lazily decoded tables were not "
                       "resolved against the IR as it was when each table "
                       "was read: %s" % [(k, [type(x).__name__ for x in v])
                                        for k, v in obs])
            return


def run(ctx):
    msg_stream.run(ctx, {"C09"}, ctx.scale(150, 3000))
    if not ctx.violations:
        lazy_tables_probe(ctx)
    fault_stream.run(ctx)


def search(ctx, broken):
    ctx.tier = "thorough"
    run(ctx)


def replay(ctx, data):
    print("replay:", str(data["replay"])[:2000])
    run(ctx)
