"""C09: after load every reference is the attached object itself; a file with
a dangling or ill-typed reference is rejected with DeserializationError."""
import fault_stream
import msg_stream

BOTH_BACKENDS = True


def run(ctx):
    msg_stream.run(ctx, {"C09"}, ctx.scale(150, 3000))
    fault_stream.run(ctx)


def search(ctx, broken):
    ctx.tier = "thorough"
    run(ctx)


def replay(ctx, data):
    print("replay:", str(data["replay"])[:2000])
    run(ctx)
