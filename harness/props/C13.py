"""C13: symbolic-expression lookup by address equals a fresh scan (and the
mapping part of C16: `symbolic_expressions` behaves like a dict iterating by
offset).

Histories of mapping operations (item set/delete, pop, popitem, setdefault,
update, clear, whole-mapping assignment) on three intervals of one section,
interval address changes and moves; after every step the store is compared
with a built-in dict run side by side (return values, exceptions, sorted
iteration, len, membership, equality) and with the Lean model; lookups at
interval, section, module and IR scope are compared with a scan (exact at
interval scope incl. order; must/may sandwich above)."""
import core

N_BI = 3
N_EXPR = 8


class World:
    def __init__(self, rng):
        import gtirb
        self.g = gtirb
        self.rng = rng
        self.ir = gtirb.IR()
        self.mod = gtirb.Module(name="m", ir=self.ir)
        self.sec = gtirb.Section(name="s", module=self.mod)
        self.other_sec = gtirb.Section(name="t", module=self.mod)
        self.syms = [gtirb.Symbol(name="a", module=self.mod),
                     gtirb.Symbol(name="b", module=self.mod)]
        self.bis = []
        self.ref = []
        self.lines = ["reset"]
        self.impl = ["ok"]
        for i in range(N_BI):
            a = rng.choice([None, 0, 2, 5, 10])
            z = rng.randrange(0, 9)
            self.bis.append(gtirb.ByteInterval(address=a, size=z,
                                               section=self.sec))
            self.ref.append({})
            self.emit("addr %d %s" % (i, "-" if a is None else a), "ok")
        self.exprs = []
        for i in range(N_EXPR):
            if i % 2:
                e = gtirb.SymAddrConst(i, self.syms[0])
            else:
                e = gtirb.SymAddrAddr(1, i, self.syms[0], self.syms[1])
            self.exprs.append(e)
        self.eidx = {id(e): i for i, e in enumerate(self.exprs)}

    def emit(self, line, out):
        self.lines.append(line)
        self.impl.append(out)

    def pairs(self, x):
        m = self.bis[x].symbolic_expressions
        return "[" + ",".join("%d:%d" % (k, self.eidx.get(id(m[k]), 99))
                              for k in m) + "]"

    def ref_pairs(self, x):
        r = self.ref[x]
        return "[" + ",".join("%d:%d" % (k, r[k]) for k in sorted(r)) + "]"


def step(ctx, w, script):
    rng = w.rng
    x = rng.randrange(N_BI)
    m = w.bis[x].symbolic_expressions
    ref = w.ref[x]
    keys = list(ref)

    def key():
        if keys and rng.random() < 0.5:
            return rng.choice(keys)
        return rng.choice([0, 1, 2, 3, 4, 6, 9, 2**64 - 1])
    op = rng.choice(["set", "set", "set", "del", "pop", "popitem",
                     "setdefault", "update", "clear", "assign", "addr",
                     "move", "popdefault"])
    exc = ret = None
    line = None
    want_exc = [None]
    try:
        with core.time_limit(20):
            if op == "set":
                k, v = key(), rng.randrange(N_EXPR)
                line = "set %d %d %d" % (x, k, v)
                m[k] = w.exprs[v]
                ref[k] = v
                ret, want_ret = "-", "-"
            elif op == "del":
                k = key()
                line = "del %d %d" % (x, k)
                want_exc[0] = None if k in ref else "KeyError"
                ref.pop(k, None)
                want_ret = "-"
                ret = "-"
                del m[k]
            elif op == "pop":
                k = key()
                line = "pop %d %d" % (x, k)
                want_ret = str(ref[k]) if k in ref else None
                want_exc[0] = None if k in ref else "KeyError"
                ref.pop(k, None)
                r = m.pop(k)
                ret = str(w.eidx.get(id(r), 99))
            elif op == "popdefault":
                k = key()
                had = k in ref
                wv = ref.pop(k, None)
                r = m.pop(k, "dflt")
                if had:
                    line = "pop %d %d" % (x, k)
                    want_ret = str(wv)
                    ret = str(w.eidx.get(id(r), 99))
                else:
                    line = None
                    want_ret = ret = "-"
                    if r != "dflt":
                        ret = "wrong-default"
            elif op == "popitem":
                line = "popitem %d" % x
                if not ref:
                    want_ret = None
                    want_exc[0] = "KeyError"
                k, r = m.popitem()
                # any present pair may be returned (Appendix A: "up to
                # iteration order"); the model's popitem takes the lowest
                # offset - another choice is shown to it as pop of that key
                v = w.eidx.get(id(r), 99)
                if k in ref and ref[k] == v:
                    if k != min(ref):
                        line = "pop %d %d" % (x, k)
                        ret = want_ret = str(v)
                        ctx.count("op:popitem:not-lowest")
                    else:
                        ret = want_ret = "%d:%d" % (k, v)
                    del ref[k]
                else:
                    ret, want_ret = "%d:%d" % (k, v), "a present pair"
            elif op == "setdefault":
                k, v = key(), rng.randrange(N_EXPR)
                line = "setdefault %d %d %d" % (x, k, v)
                want_ret = str(ref.setdefault(k, v))
                r = m.setdefault(k, w.exprs[v])
                ret = str(w.eidx.get(id(r), 99))
            elif op in ("update", "assign"):
                kvs = [(key(), rng.randrange(N_EXPR))
                       for _ in range(rng.randrange(0, 4))]
                line = "%s %d%s" % (op, x, "".join(" %d:%d" % kv
                                                   for kv in kvs))
                if op == "assign":
                    ref.clear()
                for k, v in kvs:
                    ref[k] = v
                arg = [(k, w.exprs[v]) for k, v in kvs]
                if op == "update":
                    r = rng.random()
                    if r < 0.4:
                        m.update(arg)
                    elif r < 0.8:
                        m.update(dict(arg))
                    else:
                        # a malformed item after the valid ones: the
                        # built-in dict inserts the valid prefix and raises
                        # (ValueError for a 1-tuple, TypeError for an int)
                        bad, expected = rng.choice(
                            [((3,), "ValueError"), (5, "TypeError")])
                        ctx.count("op:update:malformed-item")
                        got_exc = None
                        try:
                            m.update(arg + [bad])
                        except (ValueError, TypeError) as e:
                            got_exc = type(e).__name__
                        if got_exc != expected:
                            exc = got_exc or "no-exception"
                            want_exc[0] = expected
                        # otherwise: the valid prefix took effect (that is
                        # what the model is shown and what is compared below)
                else:
                    if rng.random() < 0.3 and w.bis[x] is not w.bis[0]:
                        # the setter copies: assigning another interval's
                        # mapping object must not make the two share state
                        src = w.bis[0].symbolic_expressions
                        kvs = [(k, w.eidx[id(e)]) for k, e in src.items()]
                        line = "assign %d%s" % (x, "".join(
                            " %d:%d" % kv for kv in kvs))
                        ref.clear()
                        for k, v in kvs:
                            ref[k] = v
                        w.bis[x].symbolic_expressions = src
                        ctx.count("op:assign:other-mapping")
                    else:
                        w.bis[x].symbolic_expressions = dict(arg)
                ret = want_ret = "-"
            elif op == "clear":
                line = "clear %d" % x
                ref.clear()
                m.clear()
                ret = want_ret = "-"
            elif op == "addr":
                a = rng.choice([None, 0, 1, 3, 7, 12, 2**64 - 4])
                w.bis[x].address = a
                w.emit("addr %d %s" % (x, "-" if a is None else a), "ok")
                script.append("addr %d %s" % (x, a))
                return True
            else:
                # move the interval out of and back into the section
                w.bis[x].section = rng.choice([w.sec, w.other_sec, w.sec])
                script.append("move %d" % x)
                return True
    except KeyError:
        exc = "KeyError"
    except (Exception, core.ImplTimeout) as e:   # noqa
        exc = type(e).__name__
    script.append(line or op)
    ctx.evaluations += 1
    ctx.count("op:%s%s" % (op, ":" + exc if exc else ""))
    ctx.nontriv((op, exc, min(len(ref), 4)))
    got = w.pairs(x)
    want = w.ref_pairs(x)
    prob = None
    if exc != want_exc[0]:
        prob = "raised %s, dict raises %s" % (exc, want_exc[0])
    elif exc is None and ret != want_ret:
        prob = "returned %s, dict gives %s" % (ret, want_ret)
    if prob is None and got != want:
        prob = "content %s, dict has %s" % (got, want)
    mm = w.bis[x].symbolic_expressions
    if prob is None:
        if len(mm) != len(ref) or list(mm) != sorted(ref) or \
                any((k in mm) != (k in ref) for k in (0, 1, 2, 3, 4, 6, 9)):
            prob = "len / iteration / membership differ from the dict"
        elif not (mm == {k: w.exprs[v] for k, v in ref.items()}):
            prob = "== with an equal dict is False"
        elif list(mm.items()) != [(k, w.exprs[ref[k]]) for k in sorted(ref)]:
            prob = "items() differ"
    if prob:
        if ctx.prop in ("C13", "C16"):
            ctx.report({"kind": "mapping-semantics", "op": op},
                       {"script": script}, "symbolic_expressions.%s: %s"
                       % (op, prob))
        return False
    if line:
        if exc == "KeyError":
            w.emit(line, "KeyError " + got)
        else:
            w.emit(line, "ok %s %s" % (ret, got))
    return True


def lookups(ctx, w, script):
    rng = w.rng
    g = w.g

    def rnd():
        if rng.random() < 0.06:
            # ranges with more members than fit a machine word
            a = rng.choice([0, -3, 2**63, 2])
            st = rng.choice([1, 1, 2, 3])
            return (a, 2**64, st), range(a, 2**64, st)
        if rng.random() < 0.5:
            p = rng.randrange(-1, 16)
            return (p, p + 1, 1), p
        a = rng.randrange(-1, 14)
        b = a + rng.randrange(-1, 10)
        st = rng.choice([1, 1, 2, 3])
        return (a, b, st), range(a, b, st)

    def mem(rg, v):
        return rg[0] <= v < rg[1] and (v - rg[0]) % rg[2] == 0
    for x, bi in enumerate(w.bis):
        ref = w.ref[x]
        rg, arg = rnd()
        got = [(k, w.eidx.get(id(e), 99)) for (b, k, e) in
               bi.symbolic_expressions_at_offset(arg)]
        want = [(k, ref[k]) for k in sorted(ref) if mem(rg, k)]
        ctx.evaluations += 1
        w.emit("ato %d %d %d %d" % (x, rg[0], rg[1], rg[2]),
               "[" + ",".join("%d:%d" % p for p in got) + "]")
        if got != want:
            return fail(ctx, script, "symbolic_expressions_at_offset(%s) on "
                        "interval %d gave %s, a scan gives %s"
                        % (arg, x, got, want))
        rg, arg = rnd()
        res = list(bi.symbolic_expressions_at(arg))
        got = [(k, w.eidx.get(id(e), 99)) for (b, k, e) in res]
        if any(b is not bi for (b, k, e) in res):
            return fail(ctx, script, "a triple names another interval")
        a = bi.address
        want = [] if a is None else [(k, ref[k]) for k in sorted(ref)
                                     if mem(rg, a + k)]
        ctx.evaluations += 1
        if got:
            ctx.nontriv(("at", len(got), rg[2] > 1))
        w.emit("at %d %d %d %d" % (x, rg[0], rg[1], rg[2]),
               "[" + ",".join("%d:%d" % p for p in got) + "]")
        if got != want:
            return fail(ctx, script, "symbolic_expressions_at(%s) on "
                        "interval %d (address %s) gave %s, a scan gives %s"
                        % (arg, x, a, got, want))
    # section / module / IR scope: union, with the sandwich
    for owner, members in ((w.sec, [b for b in w.bis if b.section is w.sec]),
                           (w.mod, list(w.bis)), (w.ir, list(w.bis))):
        rg, arg = rnd()
        try:
            res = list(owner.symbolic_expressions_at(arg))
        except Exception as ex:   # noqa
            return fail(ctx, script, "%s.symbolic_expressions_at(%s) raised "
                        "%s: %s" % (type(owner).__name__, arg,
                                    type(ex).__name__, ex))
        got = sorted((w.bis.index(b), k, w.eidx.get(id(e), 99))
                     for (b, k, e) in res)
        may, must = [], []
        for bi in members:
            x = w.bis.index(bi)
            a = bi.address
            if a is None:
                continue
            for k, v in w.ref[x].items():
                if mem(rg, a + k):
                    may.append((x, k, v))
                    if k < bi.size:
                        must.append((x, k, v))
        ctx.evaluations += 1
        if len(set(got)) != len(got) or not (set(must) <= set(got)
                                             <= set(may)):
            return fail(ctx, script, "%s.symbolic_expressions_at(%s) gave "
                        "%s; must contain %s, may contain %s"
                        % (type(owner).__name__, arg, got, sorted(must),
                           sorted(may)))
    return True


def fail(ctx, script, what):
    if ctx.prop == "C13":
        ctx.report({"kind": "symexpr-lookup"}, {"script": script}, what)
    return False


def run(ctx):
    ctx.rule = ("histories of every MutableMapping operation on the "
                "symbolic_expressions of 3 intervals (keys 0..9 and 2^64-1, "
                "8 expression objects), address edits incl. None, interval "
                "moves; after every step: store vs built-in dict (return "
                "value, exception, sorted iteration, len, membership, ==, "
                "items) and vs the Lean model; lookups (points and stepped "
                "ranges) at interval scope vs scan incl. order, at section / "
                "module / IR scope vs the must/may sandwich; non-trivial = "
                "distinct (operation, exception, store size)")
    tie = core.BatchTie(ctx, "symexpr", "symexpr", flush_at=100)
    for h in range(ctx.scale(500, 8000)):
        w = World(ctx.rng)
        script = []
        ok = True
        for s in range(ctx.scale(40, 60)):
            if not step(ctx, w, script):
                ok = False
                break
            if ctx.rng.random() < 0.4 and not lookups(ctx, w, script):
                ok = False
                break
        if ok:
            tie.add("history %d" % h, w.lines, w.impl)
        if h < 2:
            ctx.sample({"script": script[:14]})
        if len(ctx.violations) >= 3:
            break
    tie.flush()
    if ctx.prop == "C13" and len(ctx.violations) < 3:
        # section / module / IR scope against the Lean model `SymScopes`
        import index_stream
        index_stream.run_sym(ctx)


def search(ctx, broken):
    ctx.tier = "thorough"
    run(ctx)


def replay(ctx, data):
    print("replay script:", data["replay"].get("script"))
    run(ctx)
