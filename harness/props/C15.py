"""C15: AuxData type names parse exactly per the grammar.

Three parties on every input string: the implementation
(`Serialization._parse_type`), an iterative reference parser of the grammar
(the direct oracle) and the Lean model `Gtirb.TypeName.parseType` (the tie for
theorems C15_complete / C15_sound)."""
import itertools
import sys

import core

DELIMS = "<>,"


def hexs(s):
    b = s.encode("utf-8")
    return b.hex() if b else "-"


# ---------------------------------------------------------------- reference
def ref_tokens(s):
    toks, cur = [], []
    for ch in s:
        if ch in DELIMS:
            if cur:
                toks.append("".join(cur))
                cur = []
            toks.append(ch)
        else:
            cur.append(ch)
    if cur:
        toks.append("".join(cur))
    return toks


def ref_parse(s):
    """Iterative LL(1) parser of T ::= name | name '<' T (',' T)* '>'.
    Returns nested [name, kids] or None."""
    toks = ref_tokens(s)
    n = len(toks)
    i = 0
    stack = []          # open nodes awaiting children
    root = None
    state = "T"         # expecting a type
    while True:
        if state == "T":
            if i >= n or toks[i] in DELIMS:
                return None
            node = [toks[i], []]
            i += 1
            if stack:
                stack[-1][1].append(node)
            else:
                if root is not None:
                    return None
                root = node
            if i < n and toks[i] == "<":
                i += 1
                stack.append(node)
                state = "T"
            else:
                state = "after"
        else:  # after a complete type
            if not stack:
                return root if i == n else None
            if i >= n:
                return None
            if toks[i] == ",":
                i += 1
                state = "T"
            elif toks[i] == ">":
                i += 1
                stack.pop()
                state = "after"
            else:
                return None


def ref_render(t):
    out = []
    stack = [t]
    # iterative rendering
    work = [("node", t)]
    while work:
        kind, x = work.pop()
        if kind == "text":
            out.append(x)
        else:
            name, kids = x
            out.append(name)
            if kids:
                seq = [("text", "<")]
                for j, k in enumerate(kids):
                    if j:
                        seq.append(("text", ","))
                    seq.append(("node", k))
                seq.append(("text", ">"))
                work.extend(reversed(seq))
    return "".join(out)


def canon(t):
    """(hexname kid kid ...) built iteratively."""
    out = []
    work = [("node", t)]
    while work:
        kind, x = work.pop()
        if kind == "text":
            out.append(x)
        else:
            name, kids = x
            out.append("(" + hexs(name))
            seq = []
            for k in kids:
                seq.append(("text", " "))
                seq.append(("node", k))
            seq.append(("text", ")"))
            work.extend(reversed(seq))
    return "".join(out)


def impl_tree(st):
    """SubtypeTree -> nested lists, iteratively."""
    root = [st.name, []]
    work = [(st, root)]
    while work:
        s, node = work.pop()
        for sub in s.subtypes:
            k = [sub.name, []]
            node[1].append(k)
            work.append((sub, k))
    return root


def impl_parse(s):
    import gtirb.serialization as ser
    try:
        st = ser.Serialization._parse_type(s)
    except ser.TypeNameError:
        return "err"
    except BaseException as e:   # noqa
        return "exc:" + type(e).__name__
    if not isinstance(st, ser.SubtypeTree):
        return "exc:not-a-tree"
    return "ok " + canon(impl_tree(st))


def depth_width(s):
    d = m = 0
    for ch in s:
        if ch == "<":
            d += 1
            m = max(m, d)
        elif ch == ">":
            d -= 1
    return m, s.count(",")


# ---------------------------------------------------------------- generators
def gen_tree(rng, depth, width):
    names = ["a", "b", "mapping", "uint64_t", "x y", "é", "\0", "日本", "𝔘",
             "set", "T1", " ", "\n", "a.b", "()",
             # characters a parser might treat specially although the grammar
             # does not: noncharacters, format directives, quotes, brackets
             # of other kinds, escapes, the byte order mark
             "\uffff", "a\uffffb", "\ufffe", "\ufeff", "%s", "%d", "%", "%(x)s",
             "{}", "{0}", "\\", "'", '"', "[", "]", "(", ")", ";", ":",
             "\t", "\r", "\x7f", "\udbff\udfff".encode(
                 "utf-16", "surrogatepass").decode("utf-16")]
    def go(d):
        name = rng.choice(names)
        if d <= 0 or rng.random() < 0.35:
            return [name, []]
        k = 1 + int(rng.random() ** 2 * width)
        return [name, [go(d - 1 - rng.randrange(2)) for _ in range(k)]]
    return go(depth)


def chain(depth, name="s"):
    t = [name, []]
    for _ in range(depth):
        t = [name, [t]]
    return t


def wide(n, name="w"):
    return ["tuple", [[name, []] for _ in range(n)]]


def mutate(rng, s):
    toks = ref_tokens(s)
    if not toks:
        return s
    k = rng.randrange(4)
    i = rng.randrange(len(toks))
    if k == 0:
        del toks[i]
    elif k == 1:
        toks.insert(i, rng.choice(["<", ">", ",", "z", "%s", "\uffff"]))
    elif k == 2 and len(toks) > 1:
        j = rng.randrange(len(toks))
        toks[i], toks[j] = toks[j], toks[i]
    else:
        toks[i] = rng.choice(["<", ">", ",", "q"])
    return "".join(toks)


# ---------------------------------------------------------------- checking
def check_batch(ctx, strings, stream):
    lean = core.lean_batch("typename", [hexs(s) for s in strings])
    for s, lo in zip(strings, lean):
        ctx.evaluations += 1
        io = impl_parse(s)
        rt = ref_parse(s)
        ro = "err" if rt is None else "ok " + canon(rt)
        if rt is not None:
            assert ref_render(rt) == s, "reference parser is broken"
        cls = io.split(" ")[0]
        ctx.count("%s:%s" % (stream, cls))
        d, w = depth_width(s)
        if rt is not None and (d or w):
            ctx.nontriv(s if len(s) < 64 else hash(s))
        elif rt is None and len(s) > 1:
            ctx.nontriv(s if len(s) < 64 else hash(s))
        if io != ro:
            sig = {"kind": "parse-mismatch"}
            if io.startswith("exc:"):
                sig = {"exception": io[4:],
                       "deep": (d + w) >= 300}
            ctx.report(sig, {"type_name_hex": hexs(s), "impl": io[:300],
                             "grammar": ro[:300], "lean": lo[:300],
                             "depth": d, "commas": w},
                       "_parse_type(%r...) gave %s, the grammar says %s"
                       % (s[:40], io[:60], ro[:60]))
        elif lo != io:
            ctx.tie_broken.append(
                "correspondence:typename:%s impl=%s lean=%s"
                % (hexs(s)[:80], io[:80], lo[:80]))
        else:
            ctx.traces += 1


def run(ctx):
    ctx.rule = ("every string over {a,b,<,>,,} up to a length bound "
                "(exhaustive) + random grammatical names (deep, wide, "
                "non-ASCII, NUL, spaces) each with single-token mutations; "
                "non-trivial = distinct string that is either grammatical "
                "with at least one '<' or ',' or ungrammatical of length > 1")
    rng = ctx.rng
    # 0. corpus: the known-finding probe (interpreter recursion limit)
    probes = [ref_render(chain(1200)), ref_render(wide(1500))]
    check_batch(ctx, probes, "deep-probe")
    # 1. exhaustive small scope
    maxlen = ctx.scale(7, 9)
    alphabet = "ab<>,"
    strings = []
    for n in range(0, maxlen + 1):
        for tup in itertools.product(alphabet, repeat=n):
            strings.append("".join(tup))
            if len(strings) >= 200000:
                check_batch(ctx, strings, "exhaustive")
                strings = []
    check_batch(ctx, strings, "exhaustive")
    ctx.extra["exhaustive_alphabet"] = alphabet
    ctx.extra["exhaustive_max_len"] = maxlen
    # 2. random grammatical + mutations
    n = ctx.scale(4000, 60000)
    strings = []
    for i in range(n):
        if i % 50 == 0:
            t = chain(rng.randrange(1, 150))
        elif i % 50 == 1:
            t = wide(rng.randrange(1, 150))
        else:
            t = gen_tree(rng, rng.randrange(0, 6), 4)
        s = ref_render(t)
        strings.append(s)
        for _ in range(2):
            strings.append(mutate(rng, s))
    check_batch(ctx, strings, "random")
    for s in strings[:3]:
        ctx.sample({"type_name": s[:120], "impl": impl_parse(s)[:120]})
    ctx.exhaustive = False


def search(ctx, broken):
    """Tie broken: widen the exhaustive scope by one and re-run random."""
    strings = ["".join(t) for t in itertools.product("ab<>,", repeat=8)]
    check_batch(ctx, strings, "search")


def replay(ctx, data):
    r = data["replay"]
    h = r["type_name_hex"]
    s = "" if h == "-" else bytes.fromhex(h).decode("utf-8")
    check_batch(ctx, [s], "replay")
    print("replayed: impl=%s" % impl_parse(s)[:200])
