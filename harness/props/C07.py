"""C07: every AuxData value survives encode then decode unchanged."""
import codec_streams


def run(ctx):
    codec_streams.run(ctx, "C07")


def search(ctx, broken):
    ctx.tier = "thorough"
    codec_streams.run(ctx, "C07")


def replay(ctx, data):
    codec_streams.replay(ctx, data, "C07")
