"""C19: interval byte storage and block views stay consistent.

Histories of size / initialized_size assignments and length-preserving
content edits on real ByteIntervals (attached to an IR so that save + load can
be exercised), block views probed all around the block's range. Direct
oracle: len(contents) <= size always, initialized_size == len(contents),
padding is zero bytes, truncation keeps a prefix, save+load succeeds and
reproduces (size, contents); block address/contents/contains_* against the
definition. Tie: the Lean model `Gtirb.Interval` on the same lines."""
import io

import core


def hexb(b):
    b = bytes(b)
    return b.hex() if b else "-"


def show_iv(bi):
    return "%d %d %s" % (bi.size, bi.initialized_size, hexb(bi.contents))


def one_history(ctx, hno, steps):
    import gtirb
    rng = ctx.rng
    lines, impl = [], []
    script = []

    def fail(kind, what, extra=None):
        ctx.report({"kind": kind}, {"script": script, "extra": extra}, what)
        return False

    # ----- constructor
    n = rng.randrange(0, 7)
    contents = bytes(rng.randrange(1, 256) for _ in range(n))
    size = rng.choice([None, None, n, n + rng.randrange(0, 4),
                       max(0, n - rng.randrange(0, 3)), 0, 2**64 - 1])
    init = rng.choice([None, None, n, rng.randrange(0, 9),
                       max(0, n - 1), 0])
    line = "ctor %s %s %s" % ("-" if size is None else size,
                              "-" if init is None else init, hexb(contents))
    script.append(line)
    lines.append(line)
    ir = gtirb.IR()
    m = gtirb.Module(name="m", ir=ir)
    sec = gtirb.Section(name="s", module=m)
    eff_size = n if size is None else size
    eff_init = n if init is None else init
    try:
        kw = {}
        if size is not None:
            kw["size"] = size
        if init is not None:
            kw["initialized_size"] = init
        addr = rng.choice([None, 0, 5, 2**63])
        bi = gtirb.ByteInterval(contents=contents, address=addr, section=sec,
                                **kw)
        impl.append("ok " + show_iv(bi))
        if eff_init > eff_size:
            return fail("ctor-accepts", "constructor accepted "
                        "initialized_size %d > size %d" % (eff_init, eff_size))
    except Exception as e:   # noqa
        if not isinstance(e, ValueError):
            return fail("ctor-raises", "constructor raised %s: %s (the "
                        "property names ValueError for initialized_size > "
                        "size and no exception otherwise)"
                        % (type(e).__name__, str(e)[:80]))
        impl.append("ValueError")
        ctx.evaluations += 1
        ctx.count("ctor:ValueError")
        ctx.nontriv(("ctor", "ValueError", n > eff_size))
        if eff_init <= eff_size:
            return fail("ctor-rejects", "constructor rejected a legal "
                        "interval (init %d <= size %d)" % (eff_init, eff_size))
        ctx.tie.add("history %d" % hno, lines, impl)
        return True
    ctx.count("ctor:ok")
    want = (contents[:eff_size] + b"\0" * 64)[:eff_init] if True else b""
    # contents truncated to size first, then padded/truncated to init
    base = contents[:eff_size]
    want = base[:eff_init] + b"\0" * max(0, eff_init - len(base))
    if bytes(bi.contents) != want or bi.size != eff_size:
        return fail("ctor-content", "constructor stored %r size %r, expected "
                    "%r size %r" % (bytes(bi.contents), bi.size, want,
                                    eff_size))
    # a second interval built from the first one's stored bytes (the very
    # bytearray object): the two must not share storage afterwards
    try:
        twin = gtirb.ByteInterval(contents=bi.contents, size=max(
            bi.size, len(bi.contents)))          # not attached to the IR
        twin_bytes = bytes(twin.contents)
    except Exception as e:   # noqa
        return fail("twin-ctor", "ByteInterval(contents=<bytearray of "
                    "another interval>) raised %s" % type(e).__name__)
    blocks = [gtirb.DataBlock(offset=rng.randrange(0, 8),
                              size=rng.randrange(0, 6), byte_interval=bi),
              gtirb.CodeBlock(offset=rng.randrange(0, 4),
                              size=rng.randrange(0, 12), byte_interval=bi)]
    # ----- steps
    for stepno in range(steps):
        r = rng.random()
        before = bytes(bi.contents)
        bsize = bi.size
        try:
            if r < 0.3:
                v = rng.choice([0, 1, len(before), max(0, len(before) - 1),
                                len(before) + 1, rng.randrange(0, 12),
                                2**64 - 1])
                line = "size %d" % v
                exp_c, exp_s = before[:v], v
                ctx.nontriv(("size", v < len(before), v == len(before),
                             min(len(before), 4), min(v, 5), v < bsize,
                             type(bi.contents).__name__))
                bi.size = v
            elif r < 0.6:
                v = rng.randrange(0, min(bi.size, 14) + 1)
                if rng.random() < 0.04 and bi.size > 14:
                    # a large jump (a .bss-like interval materialised): page
                    # and buffer boundaries
                    v = min(bi.size, rng.choice([255, 256, 4095, 4096, 4097,
                                                 8193, 20000, 70000]))
                line = "init %d" % v
                exp_c = before[:v] + b"\0" * max(0, v - len(before))
                exp_s = bsize
                ctx.nontriv(("init", v < len(before), v == len(before),
                             min(len(before), 4), min(v, 5), v == bsize,
                             type(bi.contents).__name__))
                bi.initialized_size = v
            elif r < 0.75 and len(before) and \
                    isinstance(bi.contents, bytearray):
                i = rng.randrange(len(before))
                b = rng.randrange(256)
                line = "poke %d %d" % (i, b)
                exp_c = before[:i] + bytes([b]) + before[i + 1:]
                exp_s = bsize
                ctx.nontriv(("poke", i == 0, i == len(before) - 1,
                             min(len(before), 4)))
                bi.contents[i] = b
            elif r < 0.9:
                # a whole-contents edit with any bytes-like object, kept
                # within the declared size (the property's quantifier)
                k = rng.randrange(0, min(bsize, 9) + 1)
                new = bytes(rng.randrange(256) for _ in range(k))
                kind = rng.choice(["bytes", "bytearray", "bytearray"])
                line = "assign %s" % hexb(new)
                exp_c, exp_s = new, bsize
                ctx.nontriv(("assign", kind, k == 0, k == bsize))
                ctx.count("assign:" + kind)
                bi.contents = new if kind == "bytes" else bytearray(new)
            else:
                # address edits do not touch the storage
                line = None
                exp_c, exp_s = before, bsize
                bi.address = rng.choice([None, 0, 7, 2**64 - 8])
        except Exception as e:   # noqa
            script.append(line or "address")
            return fail("edit-raised", "%r raised %s: %s (stored bytes now "
                        "%d, size %d)" % (line, type(e).__name__, e,
                                          len(bi.contents), bi.size))
        ctx.evaluations += 1
        if line:
            script.append(line)
            lines.append(line)
            impl.append("ok " + show_iv(bi))
            ctx.count("op:" + line.split()[0])
        got_c = bytes(bi.contents)
        if got_c != exp_c or bi.size != exp_s:
            return fail("storage-semantics", "after %r: contents %s size %r, "
                        "expected %s size %r" % (line, brief(got_c), bi.size,
                                                 brief(exp_c),
                                                 exp_s))
        if bi.initialized_size != len(bi.contents):
            return fail("initialized-size", "initialized_size != stored bytes")
        if bytes(twin.contents) != twin_bytes or \
                len(twin.contents) > twin.size:
            return fail("shared-storage", "after %r on one interval, another "
                        "interval built from its bytes changed: %r -> %r "
                        "(size %d)" % (line, twin_bytes,
                                       bytes(twin.contents), twin.size))
        if len(bi.contents) > bi.size:
            return fail("stored-exceed-size", "after %r stored bytes (%d) "
                        "exceed size (%d)" % (line, len(bi.contents), bi.size))
        # block views
        for blk in blocks:
            if rng.random() < 0.3:
                blk.offset = rng.randrange(0, 10)
            if rng.random() < 0.3:
                blk.size = rng.randrange(0, 10)
            o, z = blk.offset, blk.size
            basea = bi.address
            for probe in {o - 1, o, o + z - 1, o + z, o + z + 1,
                          rng.randrange(-2, 20)}:
                pa = probe + (basea or 0)
                line = "block %d %d %s %d" % (
                    o, z, "-" if basea is None else basea, pa)
                a = blk.address
                co = blk.contains_offset(pa)
                ca = blk.contains_address(pa)
                cont = bytes(blk.contents)
                lines.append(line)
                impl.append("addr=%s contents=%s co=%s ca=%s" % (
                    "-" if a is None else a, hexb(cont),
                    "true" if co else "false", "true" if ca else "false"))
                want_a = None if basea is None else basea + o
                want_c = got_c[o:o + z]
                want_co = o <= pa < o + z
                want_ca = basea is not None and (basea + o <= pa < basea + o + z)
                ctx.evaluations += 1
                if (a, cont, co, ca) != (want_a, want_c, want_co, want_ca):
                    return fail("block-view", "block(off=%d,size=%d) views "
                                "wrong at probe %d" % (o, z, pa),
                                {"got": [a, cont.hex(), co, ca],
                                 "want": [want_a, want_c.hex(), want_co,
                                          want_ca]})
        # save + load every few steps
        if stepno % 4 == 3:
            buf = io.BytesIO()
            try:
                with core.time_limit(20):
                    ir.save_protobuf_file(buf)
                    buf.seek(0)
                    ir2 = gtirb.IR.load_protobuf_file(buf)
                bi2 = next(iter(ir2.byte_intervals))
                ok = (bi2.size == bi.size
                      and bytes(bi2.contents) == bytes(bi.contents)
                      and bi2.address == bi.address)
                exc = None
            except (Exception, core.ImplTimeout) as e:   # noqa
                ok, exc = False, "%s: %s" % (type(e).__name__, e)
            ctx.count("saveload")
            if not ok:
                return fail("saveload", "interval does not survive save+load "
                            "(%s)" % exc)
    ctx.tie.add("history %d" % hno, lines, impl)
    if hno < 2:
        ctx.sample({"script": script[:10], "final": impl[-1]})
    return True


def brief(b):
    b = bytes(b)
    return repr(b) if len(b) <= 40 else "%r... (%d bytes, %d of them zero)" \
        % (b[:24], len(b), b.count(0))


def run(ctx):
    ctx.rule = ("histories: constructor with every combination of size / "
                "initialized_size / contents defaults, then size and "
                "initialized_size assignments (initialized_size <= size), "
                "byte pokes, address edits; block views probed around both "
                "ends; save+load every 4 steps; non-trivial = distinct "
                "(operation, shrinks?, equal-to-stored?)")
    ctx.tie = core.BatchTie(ctx, "interval", "interval")
    n = ctx.scale(3000, 15000)
    for h in range(n):
        if not one_history(ctx, h, ctx.scale(12, 24)):
            if len(ctx.violations) >= 3:
                break
    ctx.tie.flush()


def search(ctx, broken):
    ctx.tie = core.BatchTie(ctx, "interval", "interval")
    for h in range(3000):
        one_history(ctx, 10**6 + h, 24)
        if ctx.violations:
            break
    ctx.tie.flush()


def replay(ctx, data):
    print("replay script:", data["replay"].get("script"))
    run(ctx)
