"""C06: decided on the index stream (harness/index_stream.py)."""
import index_stream


def run(ctx):
    index_stream.run(ctx)


def search(ctx, broken):
    index_stream.search(ctx, broken)


def replay(ctx, data):
    index_stream.replay(ctx, data)
