"""C14: AuxData tables are never silently lost, staled or rewritten.

Tables with known, unknown and partially unknown type names, canonical and
non-canonical bytes, are put into a file (built with the generated message
classes, never by gtirb), loaded through the public API, driven through
random sequences of {leave, read, mutate in place, assign data, assign
type_name} and saved, over several save/load generations. The saved
(type_name, bytes) is compared with the property's three clauses (direct
oracle) and with the Lean model `Gtirb.AuxTable` (tie)."""
import io
import uuid as uuidlib

import core
import codec_common as cc

UNKNOWN_HEADS = ["foo", "my_custom_type", "Mapping", "seq uence", "uint128_t"]


def file_bytes(gtirb, tables, level, ir_uuid, mod_uuid):
    """A GTIRB file holding the tables at IR or module level."""
    from gtirb.proto import IR_pb2
    import gtirb.version
    msg = IR_pb2.IR()
    msg.uuid = ir_uuid.bytes
    msg.version = gtirb.version.PROTOBUF_VERSION
    m = msg.modules.add()
    m.uuid = mod_uuid.bytes
    m.name = "m"
    target = msg.aux_data if level == "ir" else m.aux_data
    for key, (tn, data) in tables.items():
        target[key].type_name = tn
        target[key].data = data
    # byte-identical twins of every table in the OTHER container and in a
    # second module: nothing in the run touches them
    other = m.aux_data if level == "ir" else msg.aux_data
    m2 = msg.modules.add()
    m2.uuid = bytes(16 - len(b"twin")) + b"twin"
    m2.name = "m2"
    for cont in (other, m2.aux_data):
        for key, (tn, data) in tables.items():
            cont[key].type_name = tn
            cont[key].data = data
    return (b"GTIRB\0\0" + bytes([gtirb.version.PROTOBUF_VERSION])
            + msg.SerializeToString())


def parse_tables(gtirb, raw, level):
    from gtirb.proto import IR_pb2
    msg = IR_pb2.IR()
    msg.ParseFromString(raw[8:])
    src = msg.aux_data if level == "ir" else msg.modules[0].aux_data
    return {k: (v.type_name, bytes(v.data)) for k, v in src.items()}


def parse_twins(gtirb, raw, level):
    """the tables of the two containers the run does not touch"""
    from gtirb.proto import IR_pb2
    msg = IR_pb2.IR()
    msg.ParseFromString(raw[8:])
    other = msg.modules[0].aux_data if level == "ir" else msg.aux_data
    out = []
    for src in (other, msg.modules[1].aux_data if len(msg.modules) > 1
                else {}):
        out.append({k: (v.type_name, bytes(v.data)) for k, v in src.items()})
    return out


def has_unknown(t):
    name, kids = t
    if name not in cc.LEAVES and name not in (
            "sequence", "set", "mapping", "tuple", "variant"):
        return True
    return any(has_unknown(k) for k in kids)


def gen_partial_type(rng, depth):
    """A type tree with unknown heads somewhere (maybe at the top)."""
    if depth <= 0 or rng.random() < 0.25:
        if rng.random() < 0.5:
            return (rng.choice(UNKNOWN_HEADS), [])
        return (rng.choice(cc.LEAVES), [])
    k = rng.choice(["sequence", "set", "mapping", "tuple", "variant",
                    "unknown"])
    if k == "unknown":
        return (rng.choice(UNKNOWN_HEADS),
                [gen_partial_type(rng, depth - 1)
                 for _ in range(rng.randrange(0, 3))])
    if k == "sequence":
        return (k, [gen_partial_type(rng, depth - 1)])
    if k == "set":
        t = cc.gen_type(rng, depth - 1, True)
        return (k, [t])
    if k == "mapping":
        return (k, [cc.gen_type(rng, depth - 1, True),
                    gen_partial_type(rng, depth - 1)])
    return (k, [gen_partial_type(rng, depth - 1)
                for _ in range(rng.randrange(1, 4))])


def noncanonical_bytes(rng, world, t):
    """Decodable but non-canonical encodings for a supported type containing
    a set / mapping / bool: duplicate elements / keys, bool byte 2."""
    name, kids = t
    if name == "bool":
        return bytes([rng.choice([2, 255])])
    if name == "set":
        v = cc.gen_value(rng, world, kids[0])
        if cc.has_nan(v):
            return None
        one = cc.impl_encode(world.gtirb, cc.render(kids[0]), v)
        return (2).to_bytes(8, "little") + one + one
    if name == "mapping":
        k = cc.gen_value(rng, world, kids[0])
        if cc.has_nan(k):
            return None
        kb = cc.impl_encode(world.gtirb, cc.render(kids[0]), k)
        v1 = cc.impl_encode(world.gtirb, cc.render(kids[1]),
                            cc.gen_value(rng, world, kids[1]))
        v2 = cc.impl_encode(world.gtirb, cc.render(kids[1]),
                            cc.gen_value(rng, world, kids[1]))
        return (2).to_bytes(8, "little") + kb + v1 + kb + v2
    if name == "sequence":
        inner = noncanonical_bytes(rng, world, kids[0])
        if inner is None:
            return None
        return (1).to_bytes(8, "little") + inner
    if name == "tuple":
        out = b""
        used = False
        for k in kids:
            part = None if used else noncanonical_bytes(rng, world, k)
            if part is None:
                part = cc.impl_encode(world.gtirb, cc.render(k),
                                      cc.gen_value(rng, world, k))
            else:
                used = True
            out += part
        return out if used else None
    return None


def one_table(ctx, world, tno, forced=None):
    """Returns False if a violation was reported."""
    gtirb = world.gtirb
    rng = ctx.rng
    level = rng.choice(["ir", "module"])
    # ---- choose the table
    r = rng.random()
    canonical = True
    if forced is not None:
        kind, tn, data, canonical = forced
        t = None
    elif r < 0.4:
        kind = "known"
        t = cc.gen_type(rng, rng.randrange(0, 4))
        if rng.random() < 0.25:
            nb = noncanonical_bytes(rng, world, t)
            if nb is not None:
                data, canonical = nb, False
        if canonical:
            v = cc.gen_value(rng, world, t, True)
            data = cc.impl_encode(gtirb, cc.render(t), v)
        tn = cc.render(t)
    elif r < 0.6:
        kind = "unknown-top"
        t = (rng.choice(UNKNOWN_HEADS), [cc.gen_type(rng, 1)
                                         for _ in range(rng.randrange(0, 3))])
        tn = cc.render(t)
        data = bytes(rng.getrandbits(8) for _ in range(rng.randrange(0, 30)))
    elif r < 0.7:
        kind = "malformed-name"
        tn = rng.choice(["", "a<", "a<b>>", ",", "set<>", "x<y>z"])
        t = None
        data = bytes(rng.getrandbits(8) for _ in range(rng.randrange(0, 10)))
    elif r < 0.8:
        # a KNOWN head with an arity its codec rejects: the codecs check
        # that only when decoding / encoding reaches the head
        kind = "bad-arity"
        leaf = lambda n: (n, [])   # noqa
        a, b = cc.gen_type(rng, 1), cc.gen_type(rng, 1)
        bad = rng.choice([
            ("string", [leaf("int8_t")]), ("sequence", [a, b]),
            ("sequence", []), ("set", []), ("mapping", [a]),
            ("mapping", [a, b, a]), ("uint8_t", [leaf("bool")]),
            ("UUID", [a]), ("Offset", [a]), ("bool", [a]), ("float", [a]),
            ("set", [a, b])])
        unk = (rng.choice(UNKNOWN_HEADS), [])
        shape = rng.choice(["behind-unknown", "unknown-over-bad",
                            "behind-empty", "reached-top",
                            "reached-in-tuple"])
        kt = cc.gen_type(rng, 1)
        kb = cc.impl_encode(gtirb, cc.render(kt),
                            cc.gen_value(rng, world, kt))
        junk = bytes(rng.getrandbits(8) for _ in range(rng.randrange(0, 12)))
        if shape == "behind-unknown":
            t, data = ("tuple", [unk, bad]), junk
        elif shape == "unknown-over-bad":
            t, data = (unk[0], [bad]), junk
        elif shape == "behind-empty":
            t = ("tuple", [kt, (rng.choice(["sequence", "set"]), [bad])])
            data = kb + (0).to_bytes(8, "little")
        elif shape == "reached-top":
            t, data = bad, junk
        else:
            t, data = ("tuple", [kt, bad]), kb + junk
        ctx.count("bad-arity:" + shape)
        tn = cc.render(t)
    else:
        kind = "partial"
        # known structure whose unknown parts sit behind empty containers or
        # are reached: build bytes for the known prefix
        if rng.random() < 0.5:
            # never reached: tuple<KNOWN, sequence<unknown>> with count 0
            kt = cc.gen_type(rng, 2)
            unk = (rng.choice(UNKNOWN_HEADS), [])
            wrapper = rng.choice(["sequence", "set"])
            t = ("tuple", [kt, (wrapper, [unk])])
            nb = noncanonical_bytes(rng, world, kt) if rng.random() < 0.5 \
                else None
            if nb is not None:
                canonical = False
                kb = nb
            else:
                kb = cc.impl_encode(gtirb, cc.render(kt),
                                    cc.gen_value(rng, world, kt))
            data = kb + (0).to_bytes(8, "little")
            reached = False
        else:
            # reached: sequence<unknown> with count >= 1, or unknown in tuple
            kt = cc.gen_type(rng, 1)
            unk = (rng.choice(UNKNOWN_HEADS), [])
            t = ("tuple", [kt, unk])
            data = cc.impl_encode(gtirb, cc.render(kt),
                                  cc.gen_value(rng, world, kt)) + \
                bytes(rng.getrandbits(8) for _ in range(rng.randrange(0, 9)))
            reached = True
        tn = cc.render(t)

    lines = ["reset"] + world.node_lines()
    impl = ["ok"] * len(lines)
    script = []
    cur_tn, cur_bytes = tn, data
    gens = rng.randrange(1, 4)
    replay = {"kind": kind, "type_name": tn, "bytes": data.hex(),
              "level": level, "script": script}

    def fail(sig, what):
        ctx.report(sig, replay, what)
        return False

    ir_uuid, mod_uuid = world.ir.uuid, world.ir.modules[0].uuid
    for gen in range(gens):
        raw = file_bytes(gtirb, {"t": (cur_tn, cur_bytes),
                                 "other": ("uint8_t", b"\x07")},
                         level, ir_uuid, mod_uuid)
        try:
            with core.time_limit(20):
                ir = gtirb.IR.load_protobuf_file(io.BytesIO(raw))
        except (Exception, core.ImplTimeout) as e:   # noqa
            return fail({"kind": "load-raises"}, "load of a file with table "
                        "%r raised %s" % (cur_tn, type(e).__name__))
        holder = ir if level == "ir" else ir.modules[0]
        ad = holder.aux_data["t"]
        lines.append("load %s %s" % (cc.hexs(cur_tn), cc.hexb(cur_bytes)))
        impl.append("ok")
        script.append("load")
        # world for token conversion of this IR: values referring to nodes
        # are registered under the original world (same uuids) - tables here
        # use node-free values except UUID leaves resolved as plain uuids
        was_read = False
        modified = False
        type_changed = False
        unknown_data = False
        held = None        # the value object obtained from / given to the table
        load_tn, load_bytes = cur_tn, cur_bytes
        nact = rng.randrange(0, 4) if forced is None else 1
        for _ in range(nact):
            act = rng.choice(["read", "read", "mutate", "assign", "retype",
                              "retype", "same-type"])
            if forced is not None:
                act = "read"
            if act == "read" or act == "mutate":
                try:
                    with core.time_limit(20):
                        d = ad.data
                except (Exception, core.ImplTimeout) as e:   # noqa
                    script.append("read -> %s" % type(e).__name__)
                    lines.append("read")
                    from gtirb.serialization import TypeNameError
                    from gtirb.serialization import DecodeError
                    if isinstance(e, TypeNameError):
                        impl.append("err:typename")
                    elif isinstance(e, DecodeError):
                        # a known head reached with an arity its codec
                        # rejects, or bytes its strict reads reject (the
                        # message text is not looked at)
                        impl.append("err:DecodeError")
                    else:
                        impl.append("err:other:" + type(e).__name__)
                    continue
                was_read = True
                lines.append("read")
                if isinstance(d, gtirb.serialization.UnknownData):
                    impl.append("unknown " + cc.hexb(bytes(d)))
                    unknown_data = True
                    script.append("read -> UnknownData")
                else:
                    held = d
                    try:
                        tt = tree_of(ad_loaded_type(load_tn, type_changed, ad))
                        if tt is None:
                            raise TypeError("no tree")
                        toks = cc.to_tokens(local_world(world, ir), tt, d)
                        impl.append("val " + " ".join(toks))
                        # the iteration order of Python's sets/dicts is the
                        # implementation's choice: report it to the model
                        # (the read line above validates it as set-equal)
                        lines.append("setdata " + " ".join(toks))
                        impl.append("ok")
                    except Exception as e:   # noqa
                        impl.append("val ?:" + type(e).__name__)
                    script.append("read")
                if act == "mutate" and not unknown_data and kind == "known" \
                        and not type_changed:
                    if mutate_in_place(rng, d):
                        modified = True
                        script.append("mutate")
                        with core.time_limit(20):
                            cur_d = ad.data
                        toks = cc.to_tokens(local_world(world, ir),
                                            tree_of(cur_tn), cur_d)
                        lines.append("setdata " + " ".join(toks))
                        impl.append("ok")
            elif act == "assign" and kind == "known":
                tt = tree_of(ad.type_name) if not type_changed else None
                if tt is None:
                    continue
                nv = cc.gen_value(rng, world, tt, True)
                ad.data = nv
                held = nv
                was_read = True
                modified = True
                toks = cc.to_tokens(world, tt, nv)
                lines.append("setdata " + " ".join(toks))
                impl.append("ok")
                script.append("assign")
            elif act == "retype" and kind == "known" and not type_changed:
                # a compatible re-typing: wrap-free rename among same-width
                # integer names or identical type; also an unparseable name
                ct = tree_of(cur_tn)
                new = retype_name(rng, ct) if ct is not None else None
                if new is None or new == ad.type_name:
                    continue
                ad.type_name = new
                type_changed = True
                lines.append("settype " + cc.hexs(new))
                impl.append("ok")
                script.append("retype " + new)
            elif act == "same-type":
                ad.type_name = ad.type_name
                lines.append("settype " + cc.hexs(ad.type_name))
                impl.append("ok")
                script.append("same-type")
        # ---- save
        buf = io.BytesIO()
        lines.append("save")
        try:
            with core.time_limit(20):
                ir.save_protobuf_file(buf)
            saved = parse_tables(gtirb, buf.getvalue(), level)
            stn, sbytes = saved["t"]
            impl.append("ok %s %s" % (cc.hexs(stn), cc.hexb(sbytes)))
            exc = None
            want_twin = {"t": (load_tn, load_bytes),
                         "other": ("uint8_t", b"\x07")}
            twins = parse_twins(gtirb, buf.getvalue(), level)
            if twins != [want_twin, want_twin]:
                return fail({"kind": "twin-table"},
                            "a byte-identical table in another container "
                            "(never read, never assigned) was not written "
                            "back byte for byte: %r" % [sorted(
                                (k, v[0], v[1].hex()[:40])
                                for k, v in tw.items()) for tw in twins])
            if saved.get("other") != ("uint8_t", b"\x07") or \
                    set(saved) != {"t", "other"}:
                return fail({"kind": "bystander-table"},
                            "saving changed the other table of the container "
                            "or the set of tables: %r" % sorted(
                                (k, v[0], v[1].hex())
                                for k, v in saved.items()))
        except (Exception, core.ImplTimeout) as e:   # noqa
            exc = type(e).__name__
            if exc == "DecodeError":
                impl.append("err:DecodeError")   # e.g. bad arity reached
            else:
                impl.append({"TypeNameError": "err:typename",
                             "EncodeError": "err:encode"}.get(
                                 exc, "err:" + exc))
            stn = sbytes = None
        script.append("save -> %s" % (exc or "ok"))
        # ---- the same object saved a second time after an in-place edit
        # made through a reference held from before the first save (the table
        # is not touched through the API in between)
        if exc is None and held is not None and kind == "known" \
                and not type_changed and rng.random() < 0.5 \
                and mutate_in_place(rng, held):
            modified = True
            script.append("edit held value; save again")
            try:
                toks = cc.to_tokens(local_world(world, ir), tree_of(stn),
                                    held)
            except Exception:   # noqa
                toks = None
            if toks is not None:
                lines.append("setdata " + " ".join(toks))
                impl.append("ok")
                lines.append("save")
                buf2 = io.BytesIO()
                try:
                    with core.time_limit(20):
                        ir.save_protobuf_file(buf2)
                    stn, sbytes = parse_tables(gtirb, buf2.getvalue(),
                                               level)["t"]
                    impl.append("ok %s %s" % (cc.hexs(stn), cc.hexb(sbytes)))
                    want2 = cc.impl_encode(gtirb, stn, held)
                    ctx.count("second-save")
                    if want2 != sbytes:
                        return fail({"kind": "stale-bytes", "modified": True,
                                     "second_save": True},
                                    "table %r saved a second time after an "
                                    "in-place edit was written with bytes "
                                    "that are not the encoding of its "
                                    "current value" % stn)
                except (Exception, core.ImplTimeout) as e:   # noqa
                    return fail({"kind": "second-save-raises"},
                                "second save raised %s" % type(e).__name__)
        ctx.evaluations += 1
        ctx.count("%s:%s%s%s%s" % (kind, "read" if was_read else "untouched",
                                   "+mod" if modified else "",
                                   "+retype" if type_changed else "",
                                   "" if canonical else ":noncanon"))
        ctx.nontriv((kind, was_read, modified, type_changed, canonical,
                     unknown_data, exc, gen))
        # ---- direct oracle: the three clauses
        if not was_read and not type_changed:
            if exc or stn != load_tn or sbytes != load_bytes:
                return fail({"kind": "untouched-rewritten", "table": kind},
                            "untouched table %r was not written back byte "
                            "for byte (%s)" % (load_tn, exc or "bytes differ"))
        elif kind in ("unknown-top", "partial", "bad-arity") \
                and not modified and not type_changed:
            if exc or sbytes != load_bytes or stn != load_tn:
                # is the change explained by "the decoded value was
                # re-encoded" (order of set elements, duplicates, bool bytes)?
                try:
                    with core.time_limit(20):
                        cur_d = ad.data
                    reenc = cc.impl_encode(gtirb, load_tn, cur_d)
                except (Exception, core.ImplTimeout):   # noqa
                    reenc = None
                sig = {"kind": "unknown-type-rewritten",
                       "reached": bool(unknown_data),
                       "reencoded_value": (exc is None and stn == load_tn
                                           and reenc == sbytes)}
                if not fail(sig, "table of type %r (unknown codec inside) "
                            "changed its bytes after a read (%s)"
                            % (load_tn, exc or "bytes differ")):
                    pass
                # a known finding lets the run continue
                if ctx.violations:
                    return False
        elif kind == "known" and exc is None and tree_of(stn) is None:
            return fail({"kind": "saved-under-malformed-name"},
                        "table re-typed to the malformed name %r was saved "
                        "(the loaded bytes cannot be its encoding)" % stn)
        elif kind == "known" and exc is None:
            # saved bytes must be the encoding of the current value under
            # the current name: decode them independently and compare
            try:
                with core.time_limit(20):
                    cur = ad.data
                want = cc.impl_encode(gtirb, stn, cur)
            except (Exception, core.ImplTimeout):   # noqa
                want = None
            if want is not None and want != sbytes:
                return fail({"kind": "stale-bytes", "modified": modified},
                            "table %r saved bytes that are not the encoding "
                            "of its current value" % stn)
            if not canonical and not modified and was_read \
                    and sbytes == load_bytes and want != load_bytes:
                return fail({"kind": "stale-bytes", "modified": False},
                            "read table %r written with the loaded bytes"
                            % stn)
        if exc is not None:
            break
        cur_tn, cur_bytes = stn, sbytes
    ctx.tie.add("table %d (%s)" % (tno, tn[:40]), lines, impl)
    if tno < 3:
        ctx.sample({"type_name": tn, "bytes": data.hex()[:64], "kind": kind,
                    "script": list(script)})
    return True


def same_obs(a, b):
    """observations that differ only in set / mapping element order, or that
    lie outside the model's strict reads"""
    if a.startswith("val ?") or b.startswith("err:decode"):
        return True
    if a == "err:DecodeError" and b == "err:unsupported":
        return True      # the model's name for a bad arity that was reached
    if a.startswith("ok ") and b.startswith("ok "):
        # a save that had to decode first (re-typed, still lazy table): the
        # set / dict iteration order inside that decode is the
        # implementation's own; the two byte strings must decode to
        # set-equal values under the saved type name
        pa, pb = a.split(" "), b.split(" ")
        if len(pa) == 3 and len(pb) == 3 and pa[1] == pb[1] and _GT:
            try:
                name = "" if pa[1] == "-" else bytes.fromhex(pa[1]).decode()
                t = tree_of(name)
                lw = _LW()
                lw.gtirb, lw.index = _GT[0], {}
                vals = []
                for h in (pa[2], pb[2]):
                    raw = b"" if h == "-" else bytes.fromhex(h)
                    if len(raw) != len(b"" if pa[2] == "-" else
                                       bytes.fromhex(pa[2])):
                        return False
                    v = cc.impl_decode(_GT[0], name, raw, None)
                    vals.append(cc.nan_normalise(cc.canon(
                        cc.to_tokens(lw, t, v))))
                return vals[0] == vals[1]
            except Exception:   # noqa
                return False
        return False
    if a.startswith("val ") and b.startswith("val "):
        try:
            return (cc.nan_normalise(cc.canon(a.split(" ")[1:]))
                    == cc.nan_normalise(cc.canon(b.split(" ")[1:])))
        except Exception:   # noqa
            return False
    return False


_GT = []


def ad_loaded_type(load_tn, type_changed, ad):
    return load_tn


def tree_of(name):
    import codec_streams
    import props.C15 as c15
    if c15.ref_parse(name) is None:
        return None
    return codec_streams.tree_of_name(name)


class _LW:
    pass


def local_world(world, ir):
    """token conversion against a freshly loaded IR: nodes are matched to
    the world's registry by uuid (same uuids by construction)."""
    lw = _LW()
    lw.gtirb = world.gtirb
    by_uuid = {n.uuid: i for i, n in enumerate(world.nodes)}
    lw.index = {}
    for n in [ir] + list(ir.modules):
        if n.uuid in by_uuid:
            lw.index[id(n)] = by_uuid[n.uuid]
    return lw


def mutate_in_place(rng, d):
    if isinstance(d, list):
        if d and rng.random() < 0.5:
            d.pop()
        elif d:
            d.append(d[0])
        else:
            return False
        return True
    if isinstance(d, dict) and d:
        d.pop(next(iter(d)))
        return True
    if isinstance(d, set) and d:
        d.pop()
        return True
    return False


WIDEN = {"uint8_t": "uint16_t", "uint16_t": "uint32_t",
         "uint32_t": "uint64_t", "uint64_t": "Addr", "Addr": "uint64_t",
         "int8_t": "int16_t", "int16_t": "int32_t", "int32_t": "int64_t"}
# (float -> double is left out: the model's values are typed f32 / f64 while a
# Python float is both)


def retype_tree(rng, t):
    """A type the current value also fits, with (mostly) different bytes:
    integer leaves widened, float -> double, anywhere in the tree."""
    name, kids = t
    if name in WIDEN and rng.random() < 0.8:
        return (WIDEN[name], [])
    if name in ("set", "mapping"):
        # hashed positions keep their type (set order / dict identity)
        if name == "mapping":
            return (name, [kids[0], retype_tree(rng, kids[1])])
        return t
    return (name, [retype_tree(rng, k) for k in kids])


def retype_name(rng, t):
    if rng.random() < 0.1:
        return "broken<"
    nt = retype_tree(rng, t)
    r = cc.render(nt)
    return r if r != cc.render(t) else None


def node_free(t):
    name, kids = t
    if name in ("UUID", "Offset"):
        return False
    return all(node_free(k) for k in kids)


def run(ctx):
    import gtirb
    _GT[:] = [gtirb]
    world = cc.World(ctx.rng)
    # C14 tables avoid node references in values (the loaded IR is another
    # IR): restrict leaves
    saved = list(cc.LEAVES)
    cc.LEAVES[:] = [l for l in saved if l not in ("UUID", "Offset")]
    try:
        ctx.rule = ("tables of known / unknown / partially unknown / "
                    "malformed type names, canonical and non-canonical "
                    "bytes, IR and module level, random action sequences x "
                    "1-3 save/load generations through the public load/save; "
                    "non-trivial = distinct (kind, read?, modified?, "
                    "retyped?, canonical?, UnknownData?, exception, "
                    "generation)")
        # known-finding probe K4 (deterministic)
        ctx.tie = core.BatchTie(
            ctx, "auxtable", "auxtable",
            skip=same_obs)
        # deterministic probe of the known finding K4
        one_table(ctx, world, -1, forced=(
            "partial", "tuple<set<uint8_t>,sequence<foo>>",
            (2).to_bytes(8, "little") + b"\x05\x05" + bytes(8), False))
        n = ctx.scale(12000, 60000)
        for i in range(n):
            if not one_table(ctx, world, i):
                if len(ctx.violations) >= 3:
                    break
        ctx.tie.flush()
    finally:
        cc.LEAVES[:] = saved


def search(ctx, broken):
    ctx.tier = "thorough"
    run(ctx)


def replay(ctx, data):
    print("replay:", data["replay"])
    run(ctx)
