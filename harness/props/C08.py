"""C08: AuxData bytes follow the shared wire format."""
import codec_streams


def run(ctx):
    codec_streams.run(ctx, "C08")


def search(ctx, broken):
    ctx.tier = "thorough"
    codec_streams.run(ctx, "C08")


def replay(ctx, data):
    codec_streams.replay(ctx, data, "C08")
