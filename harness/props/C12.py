"""C12: deferred index maintenance is unobservable.

Metamorphic check on the real code: one edit history is replayed from scratch
under several lookup schedules (no lookup before the end; one batch after
every step; gaps of 2, 3, 5, 8 steps, so that the number of pending index
events is smaller than, equal to and larger than the collection size when the
next lookup comes); a fixed battery of lookups at the end must give the same
answers under every schedule, the same as a fresh scan, and the same as the
Lean model `Gtirb.Index` fed the identical line stream (including the
intermediate lookups, which change the model's lazy state exactly as they
change the implementation's)."""
import random

import core
import index_stream as ix

RANGES = [(p, p + 1, 1) for p in (-1, 0, 1, 2, 3, 5, 8, 12, 16)] + \
    [(0, 4, 1), (1, 9, 2), (0, 16, 3), (2, 14, 5), (3, 3, 1), (6, 2, 1),
     (0, 20, 1)]


def arg_of(rg):
    if rg[1] == rg[0] + 1 and rg[2] == 1:
        return rg[0]
    return range(*rg)


def battery(w, ctx):
    """fixed lookups on every scope; returns the answer vector and emits the
    corresponding lines for the model"""
    ans = []

    def fmt(l):
        return "[" + ",".join(str(x) for x in l) + "]"
    for xi, x in enumerate(w.bis):
        for fn, meth in (("bono", "byte_blocks_on_offset"),
                         ("bato", "byte_blocks_at_offset"),
                         ("bon", "byte_blocks_on"), ("bat", "byte_blocks_at")):
            for rg in RANGES:
                got = w.ids(getattr(x, meth)(arg_of(rg)), w.blks)
                ans.append((fn, xi, rg, tuple(got)))
                w.emit("q %s %d %d %d %d" % (fn, xi, rg[0], rg[1], rg[2]),
                       fmt(got))
    scopes = [("sec", si, [s], s) for si, s in enumerate(w.secs)]
    scopes += [("mod", mi, list(m.sections), m)
               for mi, m in enumerate(w.mods)]
    scopes.append(("ir", 0, list(w.ir.sections), w.ir))
    for kind, si, members, owner in scopes:
        arg_ids = ",".join(str(w.secs.index(s)) for s in members) or "-"
        for fn, meth, pool in (("sbison", "byte_intervals_on", w.bis),
                               ("sbisat", "byte_intervals_at", w.bis),
                               ("sbon", "byte_blocks_on", w.blks),
                               ("sbat", "byte_blocks_at", w.blks)):
            for rg in RANGES:
                got = w.ids(getattr(owner, meth)(arg_of(rg)), pool)
                ans.append((kind, fn, si, rg, tuple(got)))
                w.emit("q %s %s %d %d %d" % (fn, arg_ids, rg[0], rg[1],
                                             rg[2]), fmt(got))
        if kind == "sec":
            a, z = owner.address, owner.size
            ans.append(("ext", si, a, z))
            w.emit("ext %d" % si, "%s %s" % ("-" if a is None else a,
                                             "-" if z is None else z))
    return ans


def pending_relation(w, ctx):
    """diagnostics for the evidence only (reads private attributes): how the
    number of pending events compares with the collection size right now"""
    for x in w.bis:
        try:
            ev = len(x._interval_tree._interval_events)
            n = len(x.blocks)
            built = x._interval_tree._interval_index is not None
        except AttributeError:
            return
        rel = "<" if ev < n else ("=" if ev == n else ">")
        ctx.count("pending%ssize%s" % (rel, "" if built else ":unbuilt"))
        ctx.nontriv(("pending", rel, built, min(ev, 6), min(n, 6)))


def one(ctx, hno, tie):
    seed = ctx.rng.getrandbits(48)
    gen = random.Random(seed)
    wgen = ix.World(gen)
    n_edits = gen.randrange(5, ctx.scale(45, 70))
    script = [wgen.gen_edit() for _ in range(n_edits)]
    schedules = [("none", 0), ("every", 1), ("gap2", 2), ("gap3", 3),
                 ("gap5", 5), ("gap8", 8), ("random", -1)]
    if not ctx.thorough():
        schedules = [schedules[0], schedules[1]] + \
            ctx.rng.sample(schedules[2:], 3)
    answers = {}
    for name, gap in schedules:
        w = ix.World(random.Random(seed + 1))    # same initial coordinates
        w.setup(crowded=(seed % 5 < 2))
        lrng = random.Random(seed + 2)
        failed = []

        def report(prop, what):
            failed.append((prop, what))
            return False
        for i, op in enumerate(script):
            try:
                with core.time_limit(20):
                    w.apply(op)
            except (Exception, core.ImplTimeout) as e:   # noqa
                ctx.report({"kind": "edit-raises"}, {"script": script},
                           "edit %r raised %s" % (op, type(e).__name__))
                return
            do = (gap > 0 and i % gap == gap - 1) or \
                (gap < 0 and lrng.random() < 0.3)
            if do:
                pending_relation(w, ctx)
                w.rng = lrng
                w.lookups(ctx, "C12", report)
                if failed:
                    ctx.report({"kind": "lookup-vs-scan", "schedule": name},
                               {"script": script, "schedule": name},
                               "under schedule %s: %s" % (name, failed[0][1]))
                    return
        pending_relation(w, ctx)
        answers[name] = battery(w, ctx)
        ctx.evaluations += len(answers[name])
        tie.add("history %d schedule %s" % (hno, name), w.lines, w.impl)
        ctx.count("schedule:" + name)
    base = answers["none"]
    for name, a in answers.items():
        if a != base:
            diff = next((x, y) for x, y in zip(base, a) if x != y)
            ctx.report({"kind": "schedule-dependent", "schedule": name},
                       {"script": script, "schedule": name,
                        "without_lookups": repr(diff[0]),
                        "with_lookups": repr(diff[1])},
                       "final answers depend on when lookups were issued "
                       "(schedule %s): %r vs %r" % (name, diff[0], diff[1]))
            return
    if hno < 2:
        ctx.sample({"edits": [list(o) for o in script[:10]],
                    "schedules": [s for s, _ in schedules],
                    "final_answers": len(base)})


def run(ctx):
    ctx.rule = ("each random edit history (5..45 edits over 3 sections / 5 "
                "intervals / 9 blocks) is replayed under 5 (quick) or 7 "
                "(thorough) lookup schedules; a fixed battery of ~1000 "
                "lookups on all scopes at the end must agree across "
                "schedules, with the scan and with the Lean model; "
                "non-trivial = distinct (pending-events relation to "
                "collection size at a lookup, tree built?, counts)")
    tie = core.BatchTie(ctx, "index", "index", flush_at=25,
                         skip_line=ix.sandwich_line)
    for h in range(ctx.scale(80, 2500)):
        one(ctx, h, tie)
        if len(ctx.violations) >= 3:
            break
    tie.flush()


def search(ctx, broken):
    tie = core.BatchTie(ctx, "index", "index", flush_at=25,
                         skip_line=ix.sandwich_line)
    for h in range(600):
        one(ctx, 10**6 + h, tie)
        if ctx.violations:
            break
    tie.flush()


def replay(ctx, data):
    print("replay:", data["replay"])
    run(ctx)
