"""C16: owning collections behave like the built-in list, set and dict.
Sequence and set interfaces: the shared graph-history stream (harness/graph.py);
mapping interface (symbolic_expressions): the stream of props/C13.py."""
import graph_stream
import props.C13 as c13


def run(ctx):
    graph_stream.run(ctx)
    rule = ctx.rule
    c13.run(ctx)
    ctx.rule = rule + " || mapping part: " + ctx.rule


def search(ctx, broken):
    graph_stream.search(ctx, broken)


def replay(ctx, data):
    graph_stream.replay(ctx, data)
