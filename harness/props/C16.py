"""C16: owning collections behave like the built-in list, set and dict.
Sequence and set interfaces: the shared graph-history stream (harness/graph.py);
mapping interface (symbolic_expressions): the stream of props/C13.py."""
import graph_stream
import props.C13 as c13


def slice_indices_check(ctx):
    """the Lean transcription of slice.indices / range (used by the slice
    theorems C16_delSlice_* / C16_setSlice_*) against Python, exhaustively
    for small lengths"""
    import core
    vals = [None] + list(range(-7, 8))
    steps = [None, -3, -2, -1, 0, 1, 2, 3]
    lines, want = [], []
    for n in range(0, ctx.scale(5, 7)):
        for a in vals:
            for b in vals:
                for c in steps:
                    lines.append("sliceidx %d %s %s %s" % (
                        n, "-" if a is None else a, "-" if b is None else b,
                        "-" if c is None else c))
                    try:
                        want.append("[" + ",".join(str(x) for x in range(
                            *slice(a, b, c).indices(n))) + "]")
                    except ValueError:
                        want.append("ValueError")
    got = core.lean_batch("forest", lines)
    ctx.evaluations += len(lines)
    bad = [(l, w, g) for l, w, g in zip(lines, want, got) if w != g]
    ctx.count("slice-indices-cases", len(lines))
    if bad:
        ctx.tie_broken.append("correspondence:slice.indices %r python=%s "
                              "lean=%s" % bad[0])
    else:
        ctx.traces += len(lines)


def run(ctx):
    slice_indices_check(ctx)
    graph_stream.run(ctx)
    rule = ctx.rule
    c13.run(ctx)
    ctx.rule = rule + " || mapping part: " + ctx.rule


def search(ctx, broken):
    graph_stream.search(ctx, broken)


def replay(ctx, data):
    graph_stream.replay(ctx, data)
