"""C18: deep_eq is exact structural equality.

Pairs: an IR and its save/load copy (equal), then every applicable
single-field perturbation of the copy (each attribute of each node kind,
add/remove of a child, edge, expression, flag, attribute or AuxData key, each
UUID, block kind), AuxData value changes and module-order permutations (which
must NOT matter). For each pair: Python `deep_eq` in both directions, the
expectation `canonical dumps equal` computed by the harness, and the Lean
model's `deepEq` (both directions) and `canon a = canon b`."""
import uuid as uuidlib

import core
import irdump
import irgen
import msg_stream as ms


def canon_dump(gtirb, ir):
    """dump with AuxData reduced to keys and modules sorted by UUID"""
    t = irdump.dump_irv(gtirb, ir, lambda c, k: b"")
    # blank the AuxData type names too: only keys are compared
    out = []
    i = 0
    while i < len(t):
        if t[i] == "aux":
            out += ["aux", t[i + 1], "-", "-"]
            i += 4
        else:
            out.append(t[i])
            i += 1
    # sort modules: re-dump each module separately
    mods = sorted(ir.modules, key=lambda m: m.uuid.bytes)
    head = ["irv", irdump.hx(ir.uuid.bytes), str(ir.version), str(len(mods))]
    body = []
    for m in mods:
        mt = irdump.dump_module(gtirb, m, lambda c, k: b"")
        j = 0
        while j < len(mt):
            if mt[j] == "aux":
                body += ["aux", mt[j + 1], "-", "-"]
                j += 4
            else:
                body.append(mt[j])
                j += 1
    # tail (edges + ir aux) from the full dump: find the edge-count position
    nmods_tokens = sum(len(irdump.dump_module(gtirb, m, lambda c, k: b""))
                       for m in ir.modules)
    tail = out[4 + nmods_tokens:]
    return head + body + tail


def perturbations(gtirb, rng, ir):
    """yields (name, function applying it to a fresh copy `x`)"""
    G = gtirb
    mods = list(ir.modules)
    yield "none", lambda x: None
    yield "modules reversed", lambda x: x.modules.reverse()
    yield "ir.version", lambda x: setattr(x, "version", x.version + 1)
    yield "ir.uuid", lambda x: setattr(x, "uuid", uuidlib.UUID(int=7))
    yield "ir aux add key", lambda x: x.aux_data.__setitem__(
        "zz-new", G.AuxData(1, "uint8_t"))
    if ir.aux_data:
        k = sorted(ir.aux_data)[0]
        yield "ir aux remove key", lambda x: x.aux_data.pop(k)
        yield "ir aux value only", lambda x: x.aux_data.__setitem__(
            k, G.AuxData("other", "string"))
        # same number of tables, one under another name
        yield "ir aux rename key", lambda x: x.aux_data.__setitem__(
            k + "~renamed", x.aux_data.pop(k))
    for mi, m in enumerate(mods):
        def M(x, mi=mi):
            return sorted(x.modules, key=lambda q: q.uuid.bytes)[mi]
        mi_sorted = sorted(mods, key=lambda q: q.uuid.bytes).index(m)

        def M(x, k=mi_sorted):   # noqa
            return sorted(x.modules, key=lambda q: q.uuid.bytes)[k]
        yield "module.name", lambda x, M=M: setattr(M(x), "name",
                                                    M(x).name + "!")
        yield "module.binary_path", lambda x, M=M: setattr(
            M(x), "binary_path", M(x).binary_path + "!")
        yield "module.preferred_addr", lambda x, M=M: setattr(
            M(x), "preferred_addr", (M(x).preferred_addr + 1) % 2**64)
        yield "module.rebase_delta", lambda x, M=M: setattr(
            M(x), "rebase_delta", -M(x).rebase_delta - 1)
        yield "module.isa", lambda x, M=M: setattr(
            M(x), "isa", G.Module.ISA.ARM if M(x).isa != G.Module.ISA.ARM
            else G.Module.ISA.X64)
        yield "module.file_format", lambda x, M=M: setattr(
            M(x), "file_format", G.Module.FileFormat.ELF
            if M(x).file_format != G.Module.FileFormat.ELF
            else G.Module.FileFormat.PE)
        yield "module.byte_order", lambda x, M=M: setattr(
            M(x), "byte_order", G.Module.ByteOrder.Big
            if M(x).byte_order != G.Module.ByteOrder.Big
            else G.Module.ByteOrder.Little)
        yield "module.uuid", lambda x, M=M: setattr(
            M(x), "uuid", uuidlib.UUID(int=M(x).uuid.int ^ 1))
        yield "module aux add key", lambda x, M=M: M(x).aux_data.__setitem__(
            "zz", G.AuxData(1, "uint8_t"))
        if m.aux_data:
            mk = sorted(m.aux_data)[0]
            yield "module aux rename key", lambda x, M=M, mk=mk: \
                M(x).aux_data.__setitem__(mk + "~renamed",
                                          M(x).aux_data.pop(mk))
            yield "module aux remove key", lambda x, M=M, mk=mk: \
                M(x).aux_data.pop(mk)
        yield "module add section", lambda x, M=M: G.Section(
            name="new", module=M(x))
        yield "module add symbol", lambda x, M=M: G.Symbol(
            name="new", module=M(x))
        yield "module add proxy", lambda x, M=M: G.ProxyBlock(module=M(x))
        yield "module remove", lambda x, M=M: setattr(M(x), "ir", None) \
            if not references_into(x, M(x)) else None
        if m.entry_point is not None:
            yield "module.entry_point none", lambda x, M=M: setattr(
                M(x), "entry_point", None)
        code = list(m.code_blocks)
        if code:
            def set_ep(x, M=M):
                cs = sorted(M(x).code_blocks, key=lambda b: b.uuid.bytes)
                cur = M(x).entry_point
                new = next((c for c in cs if c is not cur), None)
                if new is not None:
                    M(x).entry_point = new
            yield "module.entry_point other", set_ep

        def nth(x, attr, i, M=M):
            return sorted(getattr(M(x), attr), key=lambda q: q.uuid.bytes)[i]
        for si in range(len(m.sections)):
            S = lambda x, si=si, nth=nth: nth(x, "sections", si)   # noqa
            yield "section.name", lambda x, S=S: setattr(S(x), "name",
                                                         S(x).name + "!")
            yield "section flag toggle", lambda x, S=S: S(x).flags.symmetric_difference_update({G.Section.Flag.Loaded})   # noqa
            yield "section add interval", lambda x, S=S: G.ByteInterval(
                size=1, section=S(x))
            sec = sorted(m.sections, key=lambda q: q.uuid.bytes)[si]
            for xi in range(len(sec.byte_intervals)):
                def X(x, S=S, xi=xi):
                    return sorted(S(x).byte_intervals,
                                  key=lambda q: q.uuid.bytes)[xi]
                yield "interval.address", lambda x, X=X: setattr(
                    X(x), "address", None if X(x).address is not None else 5)
                yield "interval.size", lambda x, X=X: setattr(
                    X(x), "size", X(x).size + 1)
                yield "interval.contents", lambda x, X=X: flip_contents(X(x))
                yield "interval trailing zero byte", lambda x, X=X: \
                    trailing_zero(X(x))
                yield "interval add block", lambda x, X=X: G.DataBlock(
                    size=1, byte_interval=X(x))
                yield "interval add expr", lambda x, X=X, M=M: add_expr(
                    G, X(x), M(x))
                bi = sorted(sec.byte_intervals, key=lambda q: q.uuid.bytes)[xi]
                if bi.symbolic_expressions:
                    yield "expr remove", lambda x, X=X: X(x).symbolic_expressions.popitem()   # noqa
                    yield "expr offset", lambda x, X=X: bump_expr(X(x))
                    yield "expr attribute", lambda x, X=X: first_expr(X(x)).attributes.symmetric_difference_update({G.SymbolicExpression.Attribute.GOT})   # noqa
                    yield "expr unknown attribute", lambda x, X=X: first_expr(X(x)).attributes.symmetric_difference_update({4242})   # noqa
                for bj in range(len(bi.blocks)):
                    def B(x, X=X, bj=bj):
                        return sorted(X(x).blocks,
                                      key=lambda q: q.uuid.bytes)[bj]
                    yield "block.offset", lambda x, B=B: setattr(
                        B(x), "offset", B(x).offset + 1)
                    yield "block.size", lambda x, B=B: setattr(
                        B(x), "size", B(x).size + 1)
                    yield "block kind", lambda x, B=B: swap_kind(G, x, B(x))
                    blk = sorted(bi.blocks, key=lambda q: q.uuid.bytes)[bj]
                    if isinstance(blk, G.CodeBlock):
                        yield "block.decode_mode", lambda x, B=B: setattr(
                            B(x), "decode_mode",
                            G.CodeBlock.DecodeMode.Thumb
                            if B(x).decode_mode ==
                            G.CodeBlock.DecodeMode.Default
                            else G.CodeBlock.DecodeMode.Default)
        for yi in range(len(m.symbols)):
            Y = lambda x, yi=yi, nth=nth: nth(x, "symbols", yi)   # noqa
            yield "symbol.name", lambda x, Y=Y: setattr(Y(x), "name",
                                                        Y(x).name + "!")
            yield "symbol.at_end", lambda x, Y=Y: setattr(
                Y(x), "at_end", not Y(x).at_end)
            yield "symbol payload", lambda x, Y=Y: change_payload(Y(x))
            yield "symbol payload none<->referent", lambda x, Y=Y, M=M: \
                toggle_referent(Y(x), M(x))
    edges = list(ir.cfg)
    if edges:
        yield "edge remove", lambda x: x.cfg.discard(sorted_edges(x)[0])
        yield "edge label", lambda x: relabel(G, x)
    nodes = list(ir.cfg_nodes)
    if nodes:
        yield "edge add+remove", lambda x: add_discard_edge(G, x, False)
        yield "edge add+remove (isolated ends)", lambda x: add_discard_edge(
            G, x, True)
        yield "edge add", lambda x: x.cfg.add(G.Edge(
            sorted(x.cfg_nodes, key=lambda n: n.uuid.bytes)[0],
            sorted(x.cfg_nodes, key=lambda n: n.uuid.bytes)[-1],
            G.Edge.Label(G.Edge.Type.Sysret, True, False)))


def references_into(ir, m):
    """is some node of module m referenced from outside m (removing m would
    leave a dangling reference, outside the model's SelfContained)?"""
    inside = set(id(b) for b in m.byte_blocks) | set(id(p) for p in m.proxies)
    syms = set(id(s) for s in m.symbols)
    for o in ir.modules:
        if o is m:
            continue
        if o.entry_point is not None and id(o.entry_point) in inside:
            return True
        for s in o.symbols:
            if s.referent is not None and id(s.referent) in inside:
                return True
        for x in o.byte_intervals:
            for e in x.symbolic_expressions.values():
                if any(id(s) in syms for s in e.symbols):
                    return True
    for e in ir.cfg:
        if id(e.source) in inside or id(e.target) in inside:
            return True
    return False


def trailing_zero(x):
    """the stored bytes grow or shrink by one 0x00 at the end, inside the
    interval's size: `contents` and `initialized_size` differ, the 'memory
    image' does not"""
    n = len(x.contents)
    if n < x.size:
        x.initialized_size = n + 1
    elif n and x.contents[-1] == 0:
        x.initialized_size = n - 1
    else:
        raise ValueError("not applicable")


def add_discard_edge(G, x, isolated):
    """an edge added and removed again: the set of edges is what it was
    (whatever the graph library keeps of the endpoints)"""
    nodes = sorted(x.cfg_nodes, key=lambda n: n.uuid.bytes)
    used = set()
    for e in x.cfg:
        used.add(id(e.source))
        used.add(id(e.target))
    free = [n for n in nodes if id(n) not in used]
    if isolated and len(free) < 1:
        raise ValueError("not applicable")
    a = free[0] if isolated else nodes[0]
    b = free[-1] if isolated else nodes[-1]
    e = G.Edge(a, b, G.Edge.Label(G.Edge.Type.Syscall, True, True))
    if e in x.cfg:
        raise ValueError("not applicable")
    x.cfg.add(e)
    x.cfg.remove(e)


def flip_contents(x):
    if len(x.contents):
        x.contents[0] ^= 0xff
    else:
        x.size = max(x.size, 1)
        x.initialized_size = 1
        x.contents[0] = 9


def add_expr(G, x, m):
    syms = sorted(m.symbols, key=lambda s: s.uuid.bytes)
    if syms:
        k = 0
        while k in x.symbolic_expressions:
            k += 1
        x.symbolic_expressions[k] = G.SymAddrConst(3, syms[0])


def first_expr(x):
    return x.symbolic_expressions[sorted(x.symbolic_expressions)[0]]


def bump_expr(x):
    e = first_expr(x)
    e.offset = e.offset + 1 if e.offset < 2**63 - 1 else 0


def change_payload(s):
    if s.referent is not None:
        s.value = 1
    elif s.value is not None:
        s.value = None if s.value == 0 else 0
    else:
        s.value = 0


def toggle_referent(s, m):
    if s.referent is not None:
        s.referent = None
    else:
        cands = sorted(list(m.byte_blocks) + list(m.proxies),
                       key=lambda b: b.uuid.bytes)
        if not cands:
            raise ValueError("no block to refer to")
        s.referent = cands[0]


def shuffled_file(gtirb, rng, raw):
    """the same IR written by 'another producer': every repeated field of the
    message in another order (so that loading inserts children, edges, flags
    in another order than the original construction did)"""
    msg = ms.parse_file(gtirb, raw)

    def shuf(rep):
        items = list(rep)
        rng.shuffle(items)
        del rep[:]
        rep.extend(items)
    for m in msg.modules:
        shuf(m.symbols)
        shuf(m.proxies)
        shuf(m.sections)
        for s in m.sections:
            shuf(s.section_flags)
            shuf(s.byte_intervals)
            for x in s.byte_intervals:
                shuf(x.blocks)
                for k in x.symbolic_expressions:
                    shuf(x.symbolic_expressions[k].attribute_flags)
    shuf(msg.cfg.edges)
    shuf(msg.cfg.vertices)
    return raw[:8] + msg.SerializeToString()


def swap_kind(G, ir, b):
    """replace b by a block of the other kind with the same uuid/offset/size
    (only when nothing references b: references would dangle)"""
    for m in ir.modules:
        if m.entry_point is b:
            return
        for s in m.symbols:
            if s.referent is b:
                return
    for e in ir.cfg:
        if e.source is b or e.target is b:
            return
    x = b.byte_interval
    cls = G.DataBlock if isinstance(b, G.CodeBlock) else G.CodeBlock
    b.byte_interval = None
    cls(uuid=b.uuid, offset=b.offset, size=b.size, byte_interval=x)


def sorted_edges(ir):
    return sorted(ir.cfg, key=lambda e: (
        e.source.uuid.bytes, e.target.uuid.bytes,
        irdump.label_key(irdump.label_of(e.label))))


def relabel(G, ir):
    e = sorted_edges(ir)[0]
    ir.cfg.discard(e)
    new = None if e.label is not None else G.Edge.Label(G.Edge.Type.Branch,
                                                        False, False)
    ir.cfg.add(G.Edge(e.source, e.target, new))


# ---------------------------------------------------------------- node level
def node_obs(G):
    """what a single node shows (Lean: `symObs`, `exprObs`, `intervalObs`,
    `sectionObs`, `moduleObs`): own compared fields, children in canonical
    order, every reference replaced by the content of the node it denotes"""
    def block(b):
        if isinstance(b, G.CodeBlock):
            return ("code", b.uuid.bytes, b.offset, b.size,
                    b.decode_mode.value)
        if isinstance(b, G.DataBlock):
            return ("data", b.uuid.bytes, b.offset, b.size)
        return ("proxy", b.uuid.bytes)

    def sym(y):
        if y.referent is not None:
            pl = ("ref", block(y.referent))
        elif y.value is not None:
            pl = ("value", y.value)
        else:
            pl = ("none",)
        return (y.uuid.bytes, y.name, bool(y.at_end), pl)

    def expr(k, e):
        attrs = tuple(sorted(a.value if isinstance(
            a, G.SymbolicExpression.Attribute) else int(a)
            for a in e.attributes))
        if isinstance(e, G.SymAddrConst):
            return (k, "const", e.offset, sym(e.symbol), attrs)
        return (k, "addr", e.scale, e.offset, sym(e.symbol1), sym(e.symbol2),
                attrs)

    def interval(x):
        return (x.uuid.bytes, x.address, x.size, bytes(x.contents),
                tuple(sorted((block(b) for b in x.blocks),
                             key=lambda t: t[1])),
                tuple(expr(k, x.symbolic_expressions[k])
                      for k in sorted(x.symbolic_expressions)))

    def section(z):
        return (z.uuid.bytes, z.name, tuple(sorted(f.value for f in z.flags)),
                tuple(sorted((interval(x) for x in z.byte_intervals),
                             key=lambda t: t[0])))

    def module(m):
        return (m.uuid.bytes, m.name, m.binary_path, m.preferred_addr,
                m.rebase_delta, m.file_format.value, m.isa.value,
                m.byte_order.value,
                None if m.entry_point is None else block(m.entry_point),
                tuple(sorted(p.uuid.bytes for p in m.proxies)),
                tuple(sorted((section(z) for z in m.sections),
                             key=lambda t: t[0])),
                tuple(sorted((sym(y) for y in m.symbols),
                             key=lambda t: t[0])),
                tuple(sorted(m.aux_data)))
    return block, sym, expr, interval, section, module


def node_pairs(G, ir0, ir1):
    """(label, node of ir0, node of ir1, observation function) for every node
    of ir0 with a node of the same family and UUID in ir1, found by scanning
    the containment tree"""
    block, sym, expr, interval, section, module = node_obs(G)

    def index(nodes):
        d = {}
        for n in nodes:
            d.setdefault(n.uuid, n)
        return d
    out = []
    for tag, get, ob in (
            ("m", lambda i: list(i.modules), module),
            ("s", lambda i: [z for m in i.modules for z in m.sections],
             section),
            ("i", lambda i: [x for m in i.modules for z in m.sections
                             for x in z.byte_intervals], interval),
            ("b", lambda i: [b for m in i.modules for z in m.sections
                             for x in z.byte_intervals for b in x.blocks],
             block),
            ("y", lambda i: [y for m in i.modules for y in m.symbols], sym)):
        other = index(get(ir1))
        for n in get(ir0):
            if n.uuid in other:
                out.append((tag + irdump.hx(n.uuid.bytes), n, other[n.uuid],
                            ob))
    iv1 = index([x for m in ir1.modules for z in m.sections
                 for x in z.byte_intervals])
    for m in ir0.modules:
        for z in m.sections:
            for x in z.byte_intervals:
                y = iv1.get(x.uuid)
                if y is None:
                    continue
                for k, e in x.symbolic_expressions.items():
                    if k in y.symbolic_expressions:
                        out.append((
                            "e%s:%d" % (irdump.hx(x.uuid.bytes), k), e,
                            y.symbolic_expressions[k],
                            lambda q, k=k: expr(k, q)))
    return out


def node_level(ctx, G, ir0, ir1, name, raw):
    """deep_eq between corresponding nodes below the IR: both directions and
    the direct oracle `observations equal`; returns the line the Lean model
    must reproduce, or None after a report"""
    items = []
    for label, a, b, ob in node_pairs(G, ir0, ir1):
        try:
            with core.time_limit(30):
                got = (bool(a.deep_eq(b)), bool(b.deep_eq(a)))
        except (Exception, core.ImplTimeout) as e:   # noqa
            got = ("raised", type(e).__name__)
        expect = ob(a) == ob(b)
        ctx.evaluations += 1
        ctx.count("node:%s:%s" % (label[0], "equal" if expect else "differs"))
        ctx.nontriv(("node", label[0], name, expect))
        if got != (expect, expect):
            ctx.report({"kind": "deep-eq-node-verdict", "node": label[0],
                        "perturbation": name},
                       {"perturbation": name, "node": label,
                        "expected": expect, "deep_eq": list(got),
                        "file_hex": raw.hex()[:6000]},
                       "after perturbation %r, deep_eq between the two %s "
                       "nodes %s gives %r, exact structural equality of what "
                       "they show says %r" % (name, type(a).__name__, label,
                                              got, expect))
            return None
        t = "1" if expect else "0"
        items.append("%s=%s%s%s" % (label, t, t, t))
    return " ".join(sorted(items))


def cross_kind(ctx, G, ir, raw):
    """deep_eq between objects of DIFFERENT kinds is False, both ways, and
    never raises: one node of every kind against every other kind (the F5
    repair is the instance DataBlock / CodeBlock with equal fields), against
    the IR's CFG, and against objects that have no deep_eq of their own (an
    AuxData table, None, numbers, strings)"""
    reps = {}
    for n in [ir] + list(ir.modules) + list(ir.sections) + \
            list(ir.byte_intervals) + list(ir.byte_blocks) + \
            list(ir.proxy_blocks) + list(ir.symbols):
        reps.setdefault(type(n).__name__, n)
    for x in ir.byte_intervals:
        for e in x.symbolic_expressions.values():
            reps.setdefault(type(e).__name__, e)
    reps["CFG"] = ir.cfg
    # a data block and a code block showing the same uuid / offset / size
    cbs = [b for b in ir.byte_blocks if isinstance(b, G.CodeBlock)]
    if cbs:
        c = cbs[0]
        reps["DataBlock(twin)"] = G.DataBlock(size=c.size, offset=c.offset,
                                              uuid=c.uuid)
    others = [None, 0, "x", (), object(), G.AuxData(1, "uint8_t")]
    names = sorted(reps)
    for i, a in enumerate(names):
        for b in names[i + 1:] :
            if a.split("(")[0] == b.split("(")[0]:
                continue
            for p, q in ((reps[a], reps[b]), (reps[b], reps[a])):
                try:
                    with core.time_limit(20):
                        got = p.deep_eq(q)
                except (Exception, core.ImplTimeout) as e:   # noqa
                    got = "raised " + type(e).__name__
                ctx.evaluations += 1
                if got is not False:
                    ctx.report({"kind": "deep-eq-cross-kind", "a": a, "b": b},
                               {"a": a, "b": b, "got": repr(got),
                                "file_hex": raw.hex()[:6000]},
                               "deep_eq between a %s and a %s gives %r, "
                               "exact structural equality says False"
                               % (type(p).__name__, type(q).__name__, got))
                    return False
        for o in others:
            try:
                with core.time_limit(20):
                    got = reps[a].deep_eq(o)
            except (Exception, core.ImplTimeout) as e:   # noqa
                got = "raised " + type(e).__name__
            ctx.evaluations += 1
            if got is not False:
                ctx.report({"kind": "deep-eq-cross-kind", "a": a,
                            "b": type(o).__name__},
                           {"a": a, "b": repr(o), "got": repr(got)},
                           "deep_eq between a %s and %r gives %r, exact "
                           "structural equality says False"
                           % (a, o, got))
                return False
    ctx.count("cross-kind-pairs", len(names))
    return True


def stratified(rng, perts, n):
    """a sample with every perturbation *name* represented before any name
    is taken twice (blocks and expressions are few next to symbols)"""
    by = {}
    for p in perts:
        by.setdefault(p[0], []).append(p)
    for l in by.values():
        rng.shuffle(l)
    out = []
    while len(out) < n and any(by.values()):
        for name in list(by):
            if by[name] and len(out) < n:
                out.append(by[name].pop())
    return out


def run(ctx):
    import gtirb
    ctx.rule = ("pairs (IR, perturbed save/load copy): every applicable "
                "single-field perturbation enumerated from the node kinds' "
                "compared fields + AuxData-value-only and module-order "
                "changes; Python deep_eq both ways vs canonical-dump "
                "equality vs Lean deepEq / canon; non-trivial = distinct "
                "(perturbation name, expected verdict)")
    rng = ctx.rng
    tie = ms.CheckedTie(ctx, "msg", "msg", flush_at=60)
    n = ctx.scale(60, 400)
    for no in range(n):
        gen = irgen.Gen(gtirb, rng, rng.choice([0.4, 0.7, 1.0]))
        ir0 = gen.build()
        if no % 2:
            ms.add_aux(gen, gtirb, rng, ir0)
        try:
            raw = ms.save(ir0)
        except (Exception, core.ImplTimeout):   # noqa (a C01 matter)
            ctx.count("generated-ir-not-saveable")
            continue
        if no % 3 != 2:
            try:
                raw = shuffled_file(gtirb, rng, raw)
            except Exception:   # noqa (forward references after shuffling
                pass            # symbols cannot happen: modules keep order)
        V0 = irdump.dump_irv(gtirb, ir0, lambda c, k: b"")
        C0 = canon_dump(gtirb, ir0)
        if not cross_kind(ctx, gtirb, ir0, raw):
            break
        perts = list(perturbations(gtirb, rng, ir0))
        if not ctx.thorough() and len(perts) > 60:
            perts = stratified(rng, perts, 60)
        for name, fn in perts:
            try:
                ir1 = ms.load(gtirb, raw)
            except (Exception, core.ImplTimeout) as e:   # noqa
                ctx.report({"kind": "copy-not-loadable"},
                           {"file_hex": raw.hex()[:6000]},
                           "the save/load copy of a generated IR could not "
                           "be loaded: %s" % type(e).__name__)
                break
            try:
                fn(ir1)
            except Exception as e:   # noqa
                ctx.count("perturbation-not-applicable")
                continue
            C1 = canon_dump(gtirb, ir1)
            expect = C0 == C1
            try:
                with core.time_limit(30):
                    got = (ir0.deep_eq(ir1), ir1.deep_eq(ir0))
            except (Exception, core.ImplTimeout) as e:   # noqa
                got = ("raised", type(e).__name__)
            ctx.evaluations += 1
            ctx.count("%s:%s" % (name, "equal" if expect else "differs"))
            ctx.nontriv((name, expect))
            if got != (expect, expect):
                ctx.report({"kind": "deep-eq-verdict", "perturbation": name},
                           {"perturbation": name, "expected": expect,
                            "deep_eq": list(got),
                            "file_hex": raw.hex()[:6000]},
                           "after perturbation %r deep_eq gives %r, exact "
                           "structural equality says %r" % (name, got,
                                                            expect))
                break
            V1 = irdump.dump_irv(gtirb, ir1, lambda c, k: b"")
            e = "1" if expect else "0"
            a, b = " ".join(V0), " ".join(V1)
            nl = node_level(ctx, gtirb, ir0, ir1, name, raw)
            if nl is None:
                break
            tie.add_checked("ir %d %s" % (no, name),
                            ["deepeq %s %s" % (a, b),
                             "deepeq %s %s" % (b, a),
                             "canoneq %s %s" % (a, b),
                             "deepeqnodes %s %s" % (a, b)], [e, e, e, nl],
                            lambda i, line, x, y: False)
        # ---- the SAME pair of objects compared again and again while one
        # side is edited in place (an answer remembered for a pair of
        # objects would go stale)
        if len(ctx.violations) < 3:
            try:
                ir1 = ms.load(gtirb, raw)
            except (Exception, core.ImplTimeout):   # noqa
                ir1 = None
            chain = [p for p in perts if p[0] not in ("none",)]
            rng.shuffle(chain)
            applied = []
            for name, fn in [("none", lambda x: None)] + chain[:5]:
                if ir1 is None:
                    break
                try:
                    fn(ir1)
                except Exception:   # noqa
                    continue
                applied.append(name)
                expect = C0 == canon_dump(gtirb, ir1)
                try:
                    with core.time_limit(30):
                        got = (ir0.deep_eq(ir1), ir1.deep_eq(ir0))
                except (Exception, core.ImplTimeout) as e:   # noqa
                    got = ("raised", type(e).__name__)
                ctx.evaluations += 1
                ctx.count("chain:%d:%s" % (len(applied),
                                           "equal" if expect else "differs"))
                ctx.nontriv(("chain", len(applied), expect))
                if got != (expect, expect):
                    ctx.report({"kind": "deep-eq-verdict",
                                "perturbation": "chain"},
                               {"chain": applied, "expected": expect,
                                "deep_eq": list(got),
                                "file_hex": raw.hex()[:6000]},
                               "the same two IRs compared again after the "
                               "in-place edits %r: deep_eq gives %r, exact "
                               "structural equality says %r"
                               % (applied, got, expect))
                    break
                if node_level(ctx, gtirb, ir0, ir1, "chain:" + name,
                              raw) is None:
                    break
        if no < 2:
            ctx.sample({"perturbations": [p[0] for p in perts[:12]],
                        "nodes": len(V0)})
        if len(ctx.violations) >= 3:
            break
    tie.flush()


def search(ctx, broken):
    ctx.tier = "thorough"
    run(ctx)


def replay(ctx, data):
    print("replay:", str(data["replay"])[:1500])
    run(ctx)
