"""C11: the CFG is a set of edges with consistent adjacency views.

Histories over 4 attached + 2 detached nodes x 5 labels; after every step the
implementation's len / iteration / membership of all candidate edges /
out_edges / in_edges of every node and the block views are compared with (a) a
plain Python set run side by side (the direct oracle) and (b) the Lean model
`Gtirb.Cfg` (the tie for the C11 theorems)."""
import core

N_NODES = 6     # 0..3 attached (two code blocks, two proxies), 4..5 detached


def make_world():
    import gtirb
    ir = gtirb.IR()
    m = gtirb.Module(name="m", ir=ir)
    s = gtirb.Section(name="s", module=m)
    bi = gtirb.ByteInterval(size=8, section=s)
    nodes = [gtirb.CodeBlock(size=1, offset=0, byte_interval=bi),
             gtirb.CodeBlock(size=1, offset=1, byte_interval=bi),
             gtirb.ProxyBlock(module=m), gtirb.ProxyBlock(module=m),
             gtirb.CodeBlock(size=1), gtirb.ProxyBlock()]
    T = gtirb.Edge.Type
    labels = [None,
              gtirb.Edge.Label(T.Branch, False, False),
              gtirb.Edge.Label(T.Branch, False, True),
              gtirb.Edge.Label(T.Branch, True, True),
              gtirb.Edge.Label(T.Call, False, True)]
    return gtirb, ir, nodes, labels


def lab_s(l):
    if l is None:
        return "-"
    return "%d,%d,%d" % (l.type.value, int(l.conditional), int(l.direct))


def edge_s(index, e):
    return "%d>%d:%s" % (index[id(e.source)], index[id(e.target)],
                         lab_s(e.label))


def fmt(strs):
    return "[" + ";".join(sorted(strs)) + "]"


def snapshot_impl(cfg, nodes, index):
    it = [edge_s(index, e) for e in cfg]
    s = "len=%d edges=%s" % (len(cfg), fmt(it))
    for i, n in enumerate(nodes):
        s += " out%d=%s in%d=%s" % (
            i, fmt(edge_s(index, e) for e in cfg.out_edges(n)),
            i, fmt(edge_s(index, e) for e in cfg.in_edges(n)))
    return s


def keys_impl(cfg, index):
    """the multigraph's own keys (`Gtirb.Cfg.MStore` in the keyed model)"""
    return fmt("%d:%d:%d:%s" % (index[id(a)], index[id(b)], k,
                               lab_s(d["label"]))
               for a, b, k, d in cfg.nx().edges(keys=True, data=True))


def keys_only(a, b):
    """the multigraph's keys are internal (C11 does not speak of them): a
    difference in the ` keys=[..]` suffix alone is not a broken tie - it only
    means this run did not validate the keyed model's key allocation"""
    return a.split(" keys")[0] == b.split(" keys")[0]


def snapshot_ref(ref, nodes):
    """ref: python set of (src_idx, dst_idx, label_str)"""
    def es(t):
        return "%d>%d:%s" % t
    s = "len=%d edges=%s" % (len(ref), fmt(es(t) for t in ref))
    for i in range(len(nodes)):
        s += " out%d=%s in%d=%s" % (
            i, fmt(es(t) for t in ref if t[0] == i),
            i, fmt(es(t) for t in ref if t[1] == i))
    return s


OPS = ["add", "add", "add", "discard", "discard", "remove", "pop", "clear",
       "update", "ior", "iand", "isub", "ixor"]


def one_history(ctx, hist_no, steps):
    gtirb, ir, nodes, labels = make_world()
    rng = ctx.rng
    index = {id(n): i for i, n in enumerate(nodes)}
    cfg = ir.cfg
    ref = set()
    lines = ["reset %d" % len(nodes)]
    impl_out = ["ok"]
    klines = ["reset %d" % len(nodes)]     # the keyed model: same lines, but
    kimpl = ["ok"]                         # set arguments in iteration order
    script = []

    def rand_edge(prefer_member):
        if prefer_member and ref and rng.random() < 0.6:
            s, d, l = rng.choice(sorted(ref))
            lab = [x for x in labels if lab_s(x) == l][0]
            return gtirb.Edge(nodes[s], nodes[d], lab)
        return gtirb.Edge(rng.choice(nodes[:4] if rng.random() < .8 else nodes),
                          rng.choice(nodes[:4] if rng.random() < .8 else nodes),
                          rng.choice(labels))

    def key(e):
        return (index[id(e.source)], index[id(e.target)], lab_s(e.label))

    for step in range(steps):
        if rng.random() < 0.05 and all(a < 4 and b < 4 for a, b, _ in ref):
            # the CFG of a LOADED IR: save + load, then the history goes on
            # with the loaded objects (same set of edges; labels None vs
            # all-false, parallel edges and self-loops come back from a file)
            import msg_stream as ms
            try:
                with core.time_limit(30):
                    ir2 = ms.load(gtirb, ms.save(ir))
                by = {n.uuid: n for n in ir2.cfg_nodes}
                nodes[:4] = [by[n.uuid] for n in nodes[:4]]
                ir, cfg = ir2, ir2.cfg
                index = {id(n): i for i, n in enumerate(nodes)}
                script.append("reload")
                ctx.count("op:reload")
            except (Exception, core.ImplTimeout) as ex:   # noqa (C01 / C17)
                ctx.count("op:reload-failed:" + type(ex).__name__)
        op = rng.choice(OPS)
        before = len(ref)
        exc = None
        if op in ("add", "discard", "remove"):
            e = rand_edge(op != "add" or rng.random() < 0.3)
            line = "%s %s" % (op, edge_s(index, e))
            try:
                with core.time_limit(10):
                    getattr(cfg, op)(e)
            except KeyError:
                exc = "KeyError"
            except (Exception, core.ImplTimeout) as ex:   # noqa
                exc = type(ex).__name__
            k = key(e)
            if op == "add":
                ref.add(k)
                want_exc = None
            elif op == "discard":
                ref.discard(k)
                want_exc = None
            else:
                want_exc = None if k in ref else "KeyError"
                ref.discard(k)
        elif op == "pop":
            try:
                with core.time_limit(10):
                    e = cfg.pop()
                line = "pop %s" % edge_s(index, e)
                want_exc = None if key(e) in ref else "invalid-pop"
                ref.discard(key(e))
            except KeyError:
                exc = "KeyError"
                want_exc = "KeyError" if not ref else "unexpected"
                line = "popempty"
            except (Exception, core.ImplTimeout) as ex:   # noqa
                exc = type(ex).__name__
                want_exc = None
                line = "popempty"
        elif op == "clear":
            line = "clear"
            want_exc = None
            try:
                cfg.clear()
            except Exception as ex:   # noqa
                exc = type(ex).__name__
            ref.clear()
        else:
            es = []
            seen = set()
            # `update` takes any iterable: the same edge may be listed twice
            dups = op == "update" and rng.random() < 0.6
            for _ in range(rng.randrange(0, 5)):
                e = rand_edge(True)
                if dups and es and rng.random() < 0.4:
                    e = rng.choice(es)
                if key(e) not in seen or dups:
                    seen.add(key(e))
                    es.append(e)
            line = op + "".join(" " + edge_s(index, e) for e in es)
            want_exc = None
            arg = list(es) if dups or (op == "update" and rng.random() < 0.5) \
                else set(es)
            if op in ("update", "ior", "iand", "isub") and \
                    rng.random() < 0.3:
                # one-shot operands: an iterator or a generator
                order = list(es) if isinstance(arg, list) else list(arg)
                arg = iter(list(order)) if rng.random() < 0.5 else \
                    (e for e in list(order))
                ctx.count("operand:one-shot:" + op)
            else:
                order = list(arg)
            # the order in which the implementation will meet the edges
            # (multigraph keys are allocated in that order)
            kline = op + "".join(" " + edge_s(index, e) for e in order)
            try:
                with core.time_limit(10):
                    if op == "update":
                        cfg.update(arg)
                    elif op == "ior":
                        cfg |= arg
                    elif op == "iand":
                        cfg &= arg
                    elif op == "isub":
                        cfg -= arg
                    elif op == "ixor":
                        cfg ^= arg
                if cfg is not ir.cfg:
                    exc = "rebinding"
            except (Exception, core.ImplTimeout) as ex:   # noqa
                exc = type(ex).__name__
            ks = {key(e) for e in es}
            if op in ("update", "ior"):
                ref |= ks
            elif op == "iand":
                ref &= ks
            elif op == "isub":
                ref -= ks
            else:
                ref ^= ks
        script.append(line)
        lines.append(line)
        klines.append(kline if op in ("update", "ior", "iand", "isub",
                                      "ixor") else line)
        try:
            snap = snapshot_impl(cfg, nodes, index)
        except Exception as ex:   # noqa
            snap = "snapshot-raised:" + type(ex).__name__
        try:
            ksnap = snap + " keys=" + keys_impl(cfg, index)
        except Exception as ex:   # noqa
            ksnap = snap + " keys-raised:" + type(ex).__name__
        # block views
        views_ok = True
        for i, n in enumerate(nodes):
            if not hasattr(n, "outgoing_edges"):
                continue
            outs = sorted(edge_s(index, e) for e in n.outgoing_edges)
            ins = sorted(edge_s(index, e) for e in n.incoming_edges)
            if i < 4:
                wo = sorted("%d>%d:%s" % t for t in ref if t[0] == i)
                wi = sorted("%d>%d:%s" % t for t in ref if t[1] == i)
            else:
                wo = wi = []
            if outs != wo or ins != wi:
                views_ok = False
        # membership of every candidate edge
        mem_ok = True
        for s in range(len(nodes)):
            for d in range(len(nodes)):
                for l in labels:
                    e = gtirb.Edge(nodes[s], nodes[d], l)
                    if (e in cfg) != ((s, d, lab_s(l)) in ref):
                        mem_ok = False
        want = snapshot_ref(ref, nodes)
        head = ("KeyError " if exc == "KeyError" else "ok ")
        impl_out.append(head + snap if line != "popempty" else
                        ("KeyError" if exc == "KeyError" else "invalid"))
        kimpl.append(head + ksnap if line != "popempty" else
                     ("KeyError" if exc == "KeyError" else "invalid"))
        ctx.evaluations += 1
        ctx.count("op:" + op + (":" + exc if exc else ""))
        ctx.nontriv((op, min(before, 3), min(len(ref), 3), exc))
        if exc != want_exc or snap != want or not views_ok or not mem_ok:
            ctx.report({"kind": "cfg-set-semantics", "op": op},
                       {"script": script, "impl": snap, "set": want,
                        "exception": exc, "expected_exception": want_exc,
                        "block_views_ok": views_ok, "membership_ok": mem_ok},
                       "CFG differs from a set after %r" % line)
            return False
    ctx.tie.add("history %d" % hist_no, lines, impl_out)
    ctx.ktie.add("history %d" % hist_no, klines, kimpl)
    if hist_no < 2:
        ctx.sample({"script": script[:12], "final": impl_out[-1][:200]})
    return True


def run(ctx):
    ctx.rule = ("random histories of CFG operations (add discard remove pop "
                "clear update |= &= -= ^=) over 6 nodes (4 attached, 2 "
                "detached, self-loops) x 5 labels incl. None; after every "
                "step full snapshot (len, iteration, all 180 candidate "
                "memberships, in/out edges per node, block views) vs a plain "
                "set and vs the Lean model; non-trivial = distinct (op, "
                "size before, size after, exception)")
    ctx.tie = core.BatchTie(ctx, "cfg", "cfg")
    ctx.ktie = core.BatchTie(ctx, "cfgkeyed", "cfgkeyed", skip=keys_only)
    n = ctx.scale(400, 6000)
    for h in range(n):
        if not one_history(ctx, h, ctx.scale(40, 60)):
            if len(ctx.violations) >= 3:
                break
    ctx.tie.flush()
    ctx.ktie.flush()


def search(ctx, broken):
    ctx.tie = core.BatchTie(ctx, "cfg", "cfg")
    ctx.ktie = core.BatchTie(ctx, "cfgkeyed", "cfgkeyed", skip=keys_only)
    for h in range(2000):
        one_history(ctx, 10**6 + h, 60)
        if ctx.violations:
            break
    ctx.tie.flush()
    ctx.ktie.flush()


def replay(ctx, data):
    print("replay script:", data["replay"].get("script"))
    run(ctx)
