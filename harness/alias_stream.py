"""C04, last clause: nodes not named in an operation are unaffected by it -
separately constructed nodes never share flags, AuxData maps, attributes or
collections. Every constructor is called (a) twice with defaults, (b) twice
with one argument object passed to both; then every piece of per-instance
state of the first is edited in place and the second must not change (and the
argument object must not change either)."""
import uuid as uuidlib


def state_of(gtirb, o):
    """per-instance mutable state, as plain comparable values"""
    out = {}
    for attr in ("flags", "attributes"):
        if hasattr(o, attr):
            out[attr] = sorted(repr(x) for x in getattr(o, attr))
    if hasattr(o, "aux_data"):
        out["aux_data"] = sorted(o.aux_data)
    if hasattr(o, "contents"):
        out["contents"] = bytes(o.contents)
    if hasattr(o, "symbolic_expressions"):
        out["symbolic_expressions"] = sorted(o.symbolic_expressions)
    for attr in ("modules", "sections", "symbols", "proxies",
                 "byte_intervals", "blocks"):
        v = getattr(o, attr, None)
        if v is not None and not callable(v) and hasattr(v, "__len__"):
            out[attr] = len(v)
    if isinstance(o, gtirb.IR):
        out["cfg"] = len(o.cfg)
    return out


def mutate(gtirb, o, sym):
    """edit every piece of per-instance state of `o` in place"""
    if hasattr(o, "flags"):
        o.flags.add(gtirb.Section.Flag.ThreadLocal)
    if hasattr(o, "attributes"):
        o.attributes.add(gtirb.SymbolicExpression.Attribute.GOT)
        o.attributes.add(4242)
    if hasattr(o, "aux_data"):
        o.aux_data["alias-probe"] = gtirb.AuxData(1, "uint8_t")
    if hasattr(o, "contents"):
        o.contents += b"\x01"
    if hasattr(o, "symbolic_expressions"):
        o.symbolic_expressions[7] = gtirb.SymAddrConst(0, sym)
    if isinstance(o, gtirb.IR):
        o.modules.append(gtirb.Module(name="x"))
        p = gtirb.ProxyBlock()
        o.cfg.add(gtirb.Edge(p, p))
    if isinstance(o, gtirb.Module):
        o.sections.add(gtirb.Section(name="x"))
        o.symbols.add(gtirb.Symbol(name="x"))
        o.proxies.add(gtirb.ProxyBlock())
    if isinstance(o, gtirb.Section):
        o.byte_intervals.add(gtirb.ByteInterval(size=1))
    if isinstance(o, gtirb.ByteInterval):
        o.blocks.add(gtirb.DataBlock(size=1))


def run(ctx):
    import gtirb
    sym = gtirb.Symbol(name="s")
    F = gtirb.Section.Flag
    A = gtirb.SymbolicExpression.Attribute
    makers = {
        "IR": lambda **kw: gtirb.IR(**kw),
        "Module": lambda **kw: gtirb.Module(name="m", **kw),
        "Section": lambda **kw: gtirb.Section(name="s", **kw),
        "ByteInterval": lambda **kw: gtirb.ByteInterval(**kw),
        "SymAddrConst": lambda **kw: gtirb.SymAddrConst(0, sym, **kw),
        "SymAddrAddr": lambda **kw: gtirb.SymAddrAddr(1, 0, sym, sym, **kw),
    }
    shared_args = {
        "IR": [("aux_data", lambda: {"k": gtirb.AuxData(1, "uint8_t")}),
               ("modules", lambda: []), ("cfg", lambda: set())],
        "Module": [("aux_data", lambda: {"k": gtirb.AuxData(1, "uint8_t")}),
                   ("sections", lambda: set()), ("symbols", lambda: set()),
                   ("proxies", lambda: set())],
        "Section": [("flags", lambda: {F.Readable}),
                    ("byte_intervals", lambda: [])],
        "ByteInterval": [("contents", lambda: bytearray(b"ab")),
                         ("blocks", lambda: set()),
                         ("symbolic_expressions", lambda: {})],
        "SymAddrConst": [("attributes", lambda: {A.PLT})],
        "SymAddrAddr": [("attributes", lambda: {A.PLT})],
    }
    # property setters that take a collection copy it: assigning one node's
    # mapping / bytes to another node must not make the two share state
    try:
        a, b = gtirb.ByteInterval(size=16), gtirb.ByteInterval(size=16)
        a.symbolic_expressions[3] = gtirb.SymAddrConst(0, sym)
        b.symbolic_expressions = a.symbolic_expressions
        before = sorted(b.symbolic_expressions)
        a.symbolic_expressions[5] = gtirb.SymAddrConst(1, sym)
        del a.symbolic_expressions[3]
        after = sorted(b.symbolic_expressions)
        ctx.evaluations += 1
        ctx.count("aliasing:setter:symbolic_expressions")
        ctx.nontriv(("aliasing", "setter", "symbolic_expressions"))
        if before != [3] or after != [3]:
            ctx.report({"kind": "shared-state", "class": "ByteInterval",
                        "argument": "symbolic_expressions setter"},
                       {"before": before, "after": after},
                       "after `b.symbolic_expressions = "
                       "a.symbolic_expressions`, editing a's mapping changed "
                       "b's: %s -> %s" % (before, after))
    except Exception as e:   # noqa
        ctx.report({"kind": "aliasing-raises", "class": "ByteInterval"},
                   {"argument": "symbolic_expressions setter"},
                   "assigning one interval's symbolic_expressions to another "
                   "raised %s" % type(e).__name__)
    for name, mk in makers.items():
        cases = [("defaults", {})]
        for arg, fresh in shared_args[name]:
            cases.append((arg, {arg: fresh()}))
        for label, kw in cases:
            try:
                a = mk(**kw)
                b = mk(**kw)
                third = mk()      # built later with defaults
                before_b = state_of(gtirb, b)
                before_arg = {k: (sorted(repr(x) for x in v)
                                  if not isinstance(v, (bytes, bytearray))
                                  else bytes(v)) for k, v in kw.items()}
                mutate(gtirb, a, sym)
                c = mk()          # built after the edit, with defaults
                after_b = state_of(gtirb, b)
                after_arg = {k: (sorted(repr(x) for x in v)
                                 if not isinstance(v, (bytes, bytearray))
                                 else bytes(v)) for k, v in kw.items()}
                fresh_state = state_of(gtirb, c)
                third_after = state_of(gtirb, third)
            except Exception as e:   # noqa
                ctx.report({"kind": "aliasing-raises", "class": name},
                           {"class": name, "argument": label},
                           "constructing / editing %s (%s) raised %s: %s"
                           % (name, label, type(e).__name__, str(e)[:80]))
                continue
            ctx.evaluations += 1
            ctx.count("aliasing:%s:%s" % (name, label))
            ctx.nontriv(("aliasing", name, label))
            probs = []
            if after_b != before_b:
                probs.append("a second %s built with %s changed when the "
                             "first was edited in place: %s -> %s"
                             % (name, label, before_b, after_b))
            if after_arg != before_arg:
                probs.append("the %s argument object passed to %s changed "
                             "when the node was edited" % (label, name))
            base = state_of(gtirb, mk()) if False else None
            if label == "defaults" and fresh_state != third_after:
                probs.append("a %s built with defaults after the edit starts "
                             "with %s instead of %s" % (name, fresh_state,
                                                        third_after))
            if probs:
                ctx.report({"kind": "shared-state", "class": name,
                            "argument": label},
                           {"class": name, "argument": label,
                            "problems": probs}, probs[0])
