"""The graph-history stream shared by C03 / C04 / C10 / C16."""
import random

import core
import graph


def run(ctx, n_hist=None, steps=None):
    ctx.rule = ("random histories over a tiny universe (<= 3 IRs, <= 26 "
                "nodes, UUIDs shared across IRs on purpose) using every "
                "public mutation entry point from either end: constructors "
                "with parent/children arguments, parent-attribute "
                "assignment, set-wrapper add/discard/remove/pop/clear/"
                "update/|=/&=/-=/^=, module-list insert/append/extend/+=/"
                "del/pop/item assignment/remove/reverse/clear, symbol rename "
                "and payload switches; after every step the complete "
                "observable snapshot of the implementation is compared with "
                "the abstract specification (parent map, everything derived "
                "by scanning) and with the Lean model; non-trivial = "
                "distinct (operation, collection, exception, state "
                "changed?)")
    n_hist = n_hist or ctx.scale(300, 12000)
    steps = steps or ctx.scale(70, 90)
    tie = core.BatchTie(ctx, "forest", "forest", flush_at=100)
    for h in range(n_hist):
        hist = graph.History(ctx, ctx.rng, "history %d" % h)
        for s in range(steps):
            if not hist.step():
                break
            if s % 9 == 8 and ctx.prop in ("C16", "C04"):
                probs = graph.check_nonmutating(hist)
                if probs:
                    ctx.report({"kind": "nonmutating", "what": probs[0]},
                               {"script": hist.script, "problems": probs[:8]},
                               "non-mutating collection operation wrong: %s"
                               % probs[0])
                    break
        hist.finish(tie)
        if h < 2:
            ctx.sample({"script": hist.script[:14]})
        if len(ctx.violations) >= 3:
            break
    tie.flush()
    flush_nonmutating(ctx)


def flush_nonmutating(ctx):
    """the non-mutating questions collected by graph.check_nonmutating, put
    to the Lean model `ForestOps` (theorems C16_nm*, C16Ops.lean)"""
    pending, graph.NM_LINES[:] = list(graph.NM_LINES), []
    if not pending or ctx.prop not in ("C16", "C04"):
        return
    if len(pending) > 20000:
        pending = ctx.rng.sample(pending, 20000)
    out = core.lean_batch("forestops", [l for l, _ in pending])
    for (line, a), b in zip(pending, out):
        if a != b:
            ctx.tie_broken.append("correspondence:forestops %r impl=%s "
                                  "lean=%s" % (line, a, b))
            break
    else:
        ctx.traces += len(pending)
    ctx.count("forestops-questions:%d" % (len(pending) // 1000 * 1000))


def search(ctx, broken):
    run(ctx, 4000, 60)


def replay(ctx, data):
    """re-executes the recorded history on the current tree"""
    script = data["replay"].get("script", [])
    print("replaying %d steps" % len(script))
    res = graph.replay_script(script)
    if res is not None:
        ctx.report(data.get("signature", {"kind": "replay"}),
                   data["replay"], "replayed: " + data.get("what", ""))
