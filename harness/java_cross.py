"""Cross-implementation check against the GTIRB Java AuxData codecs.

The Java sources are compiled from the repository's working tree by
harness/java/build.sh (repository root: $VERIF_REPO, default /repo) and driven
through harness/java/JDriver.java, a line-protocol program:

    dec <typename-hex> <bytes-hex>    -> ok <consumed> <value tokens>
    enc <typename-hex> <value tokens> -> ok <bytes-hex>

or `unsupported` / `err:<ExceptionClass>`; empty byte strings are `-`. The
value tokens are those of codec_common.to_tokens (with `u <hex>` elements).

    available() -> bool
    run(lines)  -> list of answer lines, one per input line
"""
import atexit
import os
import shutil
import subprocess
import tempfile

HERE = os.path.dirname(os.path.abspath(__file__))
JAVA_DIR = os.path.join(HERE, "java")
# a build directory of this process's own (two checks running at once in one
# /verif used to wipe each other's classes)
BUILD_DIR = tempfile.mkdtemp(prefix="verif-java-")
atexit.register(shutil.rmtree, BUILD_DIR, True)
BUILD_SH = os.path.join(JAVA_DIR, "build.sh")

BUILD_TIMEOUT = 300     # seconds
RUN_TIMEOUT = 120       # seconds, plus a little per request line
JAVA_OPTS = ["-Xmx512m", "-Xss16m", "-XX:+UseSerialGC",
             "-XX:TieredStopAtLevel=1"]

_available = None
_why = ""


def hexs(b):
    """bytes or str -> protocol hex ('-' when empty)."""
    if isinstance(b, str):
        b = b.encode("utf-8")
    return b.hex() if b else "-"


def unhex(s):
    return b"" if s == "-" else bytes.fromhex(s)


def why_unavailable():
    """Reason for available() == False (empty string otherwise)."""
    available()
    return _why


def available(rebuild=False):
    """javac/java present and build.sh succeeds. The build runs on first use
    and the outcome is cached for the life of the process."""
    global _available, _why
    if _available is not None and not rebuild:
        return _available
    _available, _why = False, ""
    if shutil.which("javac") is None or shutil.which("java") is None:
        _why = "javac/java not found"
        return False
    if shutil.which("sh") is None or not os.path.exists(BUILD_SH):
        _why = "build.sh not found"
        return False
    try:
        p = subprocess.run(
            ["sh", BUILD_SH], stdin=subprocess.DEVNULL,
            env=dict(os.environ, VERIF_JAVA_OUT=BUILD_DIR),
            stdout=subprocess.PIPE, stderr=subprocess.STDOUT,
            timeout=BUILD_TIMEOUT)
    except (OSError, subprocess.TimeoutExpired) as e:
        _why = "build.sh: %r" % (e,)
        return False
    if p.returncode != 0:
        _why = "build.sh exit %d: %s" % (
            p.returncode, p.stdout.decode("utf-8", "replace")[-2000:])
        return False
    if not os.path.exists(os.path.join(BUILD_DIR, "JDriver.class")):
        _why = "build.sh produced no JDriver.class"
        return False
    _available = True
    return True


def run(lines, timeout=None, uuid_mode="canonical"):
    """Feed the request lines to a fresh JDriver and return its answer lines
    (exactly one per request). RuntimeError on any protocol trouble.

    uuid_mode: "canonical" (default): a `u <hex>` token is the RFC 4122 /
    big-endian form of the java.util.UUID, the same as Python's
    uuid.UUID.bytes.hex(). "wire": the token is the 16 bytes the repository's
    Util.uuidToByteArray maps the Java UUID to (this hides the fact that
    Java reads each 8-byte half of a UUID little-endian, so that the rest of
    a value containing UUIDs can still be compared)."""
    if uuid_mode not in ("canonical", "wire"):
        raise ValueError(uuid_mode)
    lines = list(lines)
    for ln in lines:
        if "\n" in ln or "\r" in ln:
            raise RuntimeError("request contains a line break: %r" % (ln,))
    if not available():
        raise RuntimeError("java cross check unavailable: " + _why)
    if not lines:
        return []
    if timeout is None:
        timeout = RUN_TIMEOUT + 0.01 * len(lines)
    data = ("\n".join(lines) + "\n").encode("utf-8")
    cmd = ["java"] + JAVA_OPTS + ["-cp", BUILD_DIR, "JDriver",
                                  "--uuid=" + uuid_mode]
    try:
        p = subprocess.run(cmd, input=data, stdout=subprocess.PIPE,
                           stderr=subprocess.PIPE, timeout=timeout)
    except subprocess.TimeoutExpired:
        raise RuntimeError("JDriver timed out after %ss" % timeout)
    except OSError as e:
        raise RuntimeError("cannot start java: %r" % (e,))
    err = p.stderr.decode("utf-8", "replace")
    if p.returncode != 0:
        raise RuntimeError("JDriver exit %d: %s" % (p.returncode, err[-2000:]))
    out = p.stdout.decode("utf-8", "replace").split("\n")
    if out and out[-1] == "":
        out.pop()
    out = [x.rstrip("\r") for x in out]
    if len(out) != len(lines):
        raise RuntimeError("JDriver answered %d lines for %d requests: %s"
                           % (len(out), len(lines), err[-2000:]))
    for req, ans in zip(lines, out):
        if not (ans == "unsupported" or ans.startswith("err:")
                or ans == "ok" or ans.startswith("ok ")):
            raise RuntimeError("bad answer %r to %r" % (ans, req))
    return out


def dec_line(type_name, data):
    return "dec %s %s" % (hexs(type_name), hexs(data))


def enc_line(type_name, tokens):
    return "enc %s %s" % (hexs(type_name), " ".join(tokens))


if __name__ == "__main__":
    import sys
    if not available():
        sys.stderr.write(_why + "\n")
        sys.exit(1)
    for a in run([ln.rstrip("\n") for ln in sys.stdin]):
        print(a)
