"""Schema-valid, referentially closed IR messages built directly with the
generated message classes (never through gtirb): every field at default and
non-default values, every enum constant the *schema* declares (read from the
descriptors), both members of each one-of (and, in a separate stream,
neither), references pointing backwards (closed in the staged sense) or, in
the forward stream, to a later module."""

NAMES = ["", "x", "héllo", "日本", ".text", "a\0b"]


def enum_numbers(msg_cls, field):
    return [v.number for v in
            msg_cls.DESCRIPTOR.fields_by_name[field].enum_type.values]


class MsgGen:
    def __init__(self, gtirb, rng, forward=None, missing_oneof=False):
        from gtirb.proto import (ByteInterval_pb2, CFG_pb2, IR_pb2,
                                 Module_pb2, Section_pb2,
                                 SymbolicExpression_pb2, CodeBlock_pb2)
        import gtirb.version
        self.pb = dict(IR=IR_pb2, Module=Module_pb2, Section=Section_pb2,
                       BI=ByteInterval_pb2, CFG=CFG_pb2,
                       SE=SymbolicExpression_pb2, CB=CodeBlock_pb2)
        self.rng = rng
        self.version = gtirb.version.PROTOBUF_VERSION
        self.forward = forward        # None | "referent" | "entry" | "expr"
        self.missing_oneof = missing_oneof
        self.cursor = 0
        self.used = set()
        self.isa = enum_numbers(Module_pb2.Module, "isa")
        self.ff = enum_numbers(Module_pb2.Module, "file_format")
        self.bo = enum_numbers(Module_pb2.Module, "byte_order")
        self.flags = enum_numbers(Section_pb2.Section, "section_flags")
        self.dm = enum_numbers(CodeBlock_pb2.CodeBlock, "decode_mode")
        self.et = enum_numbers(CFG_pb2.EdgeLabel, "type")
        self.attr = enum_numbers(SymbolicExpression_pb2.SymbolicExpression,
                                 "attribute_flags")

    def cyc(self, values):
        self.cursor += 1
        if self.rng.random() < 0.6:
            return values[self.cursor % len(values)]
        return self.rng.choice(values)

    def U(self):
        while True:
            u = self.rng.getrandbits(128).to_bytes(16, "big")
            if u not in self.used:
                self.used.add(u)
                return u

    def u64(self):
        r = self.rng
        return r.choice([0, 0, 1, 2**64 - 1, 2**63, r.getrandbits(64)])

    def i64(self):
        r = self.rng
        return r.choice([0, 0, -1, -2**63, 2**63 - 1,
                         r.randrange(-2**63, 2**63)])

    def build(self):
        rng = self.rng
        ir = self.pb["IR"].IR()
        ir.uuid = self.U()
        ir.version = self.version
        nmod = rng.randrange(1, 4)
        plan = []   # per module: dict of uuid lists
        for mi in range(nmod):
            d = dict(uuid=self.U(), proxies=[self.U() for _ in range(
                rng.randrange(0, 3))], sections=[], symbols=[])
            for _ in range(rng.randrange(0, 3)):
                sec = dict(uuid=self.U(), bis=[])
                for _ in range(rng.randrange(0, 3)):
                    bi = dict(uuid=self.U(), blocks=[
                        (self.U(), rng.random() < 0.5)
                        for _ in range(rng.randrange(0, 4))])
                    sec["bis"].append(bi)
                d["sections"].append(sec)
            d["symbols"] = [self.U() for _ in range(rng.randrange(0, 4))]
            plan.append(d)

        def code_of(d):
            return [u for s in d["sections"] for b in s["bis"]
                    for (u, c) in b["blocks"] if c]

        def blocks_of(d):
            return [u for s in d["sections"] for b in s["bis"]
                    for (u, c) in b["blocks"]] + d["proxies"]
        for mi, d in enumerate(plan):
            m = ir.modules.add()
            m.uuid = d["uuid"]
            if rng.random() < 0.7:
                m.name = rng.choice(NAMES)
            if rng.random() < 0.5:
                m.binary_path = rng.choice(NAMES)
            m.preferred_addr = self.u64()
            m.rebase_delta = self.i64()
            m.isa = self.cyc(self.isa)
            m.file_format = self.cyc(self.ff)
            m.byte_order = self.cyc(self.bo)
            for p in d["proxies"]:
                m.proxies.add().uuid = p
            earlier, later = plan[:mi], plan[mi + 1:]
            vis_blocks = blocks_of(d) + [u for e in earlier
                                         for u in blocks_of(e)]
            vis_code = code_of(d) + [u for e in earlier for u in code_of(e)]
            vis_syms = d["symbols"] + [u for e in earlier
                                       for u in e["symbols"]]
            fwd_blocks = [u for e in later for u in blocks_of(e)]
            fwd_code = [u for e in later for u in code_of(e)]
            fwd_syms = [u for e in later for u in e["symbols"]]
            for sd in d["sections"]:
                s = m.sections.add()
                s.uuid = sd["uuid"]
                if rng.random() < 0.7:
                    s.name = rng.choice(NAMES)
                for _ in range(rng.randrange(0, 4)):
                    s.section_flags.append(self.cyc(self.flags))
                for bd in sd["bis"]:
                    x = s.byte_intervals.add()
                    x.uuid = bd["uuid"]
                    x.has_address = rng.random() < 0.6
                    if rng.random() < 0.7:    # address may be set even when
                        x.address = self.u64()   # has_address is false
                    x.size = rng.choice([0, 1, 8, 2**64 - 1,
                                         rng.randrange(0, 50)])
                    n = min(x.size, rng.randrange(0, 9))
                    x.contents = bytes(rng.getrandbits(8) for _ in range(n))
                    for (bu, is_code) in bd["blocks"]:
                        b = x.blocks.add()
                        if rng.random() < 0.8:
                            b.offset = self.u64()
                        if self.missing_oneof and rng.random() < 0.3:
                            continue
                        if is_code:
                            b.code.uuid = bu
                            b.code.size = self.u64()
                            b.code.decode_mode = self.cyc(self.dm)
                        else:
                            b.data.uuid = bu
                            b.data.size = self.u64()
                    syms = vis_syms
                    if self.forward == "expr" and fwd_syms:
                        syms = fwd_syms
                    if syms:
                        for _ in range(rng.randrange(0, 3)):
                            e = x.symbolic_expressions[self.u64()]
                            if self.missing_oneof and rng.random() < 0.3:
                                e.attribute_flags.append(self.cyc(self.attr))
                                continue
                            if rng.random() < 0.5:
                                e.addr_const.offset = self.i64()
                                e.addr_const.symbol_uuid = rng.choice(syms)
                            else:
                                e.addr_addr.scale = self.i64()
                                e.addr_addr.offset = self.i64()
                                e.addr_addr.symbol1_uuid = rng.choice(syms)
                                e.addr_addr.symbol2_uuid = rng.choice(syms)
                            for _ in range(rng.randrange(0, 3)):
                                if rng.random() < 0.8:
                                    e.attribute_flags.append(
                                        self.cyc(self.attr))
                                else:
                                    e.attribute_flags.append(
                                        rng.choice([27, 1234, 2**31 - 1]))
            for su in d["symbols"]:
                s = m.symbols.add()
                s.uuid = su
                if rng.random() < 0.8:
                    s.name = rng.choice(NAMES)
                s.at_end = rng.random() < 0.4
                r = rng.random()
                targets = vis_blocks
                if self.forward == "referent" and fwd_blocks:
                    targets = fwd_blocks
                    r = 0.9
                if r < 0.25:
                    pass
                elif r < 0.5 or not targets:
                    s.value = rng.choice([0, 0, 2**64 - 1, 7])
                else:
                    s.referent_uuid = rng.choice(targets)
            code = vis_code
            if self.forward == "entry" and fwd_code:
                code = fwd_code
            if code and (rng.random() < 0.5 or self.forward == "entry"):
                m.entry_point = rng.choice(code)
            for i in range(rng.randrange(0, 2)):
                a = m.aux_data[rng.choice(["k", "alignment", ""])]
                a.type_name = rng.choice(["uint8_t", "foo", "", "a<"])
                a.data = bytes(rng.getrandbits(8)
                               for _ in range(rng.randrange(0, 5)))
        nodes = [u for d in plan for u in code_of(d) + d["proxies"]]
        if nodes:
            for _ in range(rng.randrange(0, 6)):
                e = ir.cfg.edges.add()
                e.source_uuid = rng.choice(nodes)
                e.target_uuid = rng.choice(nodes)
                r = rng.random()
                if r < 0.3:
                    pass
                elif r < 0.45:     # present label with all-default fields
                    e.label.SetInParent()
                else:
                    e.label.type = self.cyc(self.et)
                    e.label.conditional = rng.random() < 0.5
                    e.label.direct = rng.random() < 0.5
            # vertices: whatever a producer listed (ignored by the reader)
            for u in rng.sample(nodes, rng.randrange(0, len(nodes) + 1)):
                ir.cfg.vertices.append(u)
        for i in range(rng.randrange(0, 2)):
            a = ir.aux_data["t%d" % i]
            a.type_name = "string"
            a.data = (1).to_bytes(8, "little") + b"x"
        return ir
