"""Tie for `Gtirb.Loader` (the staged decoder as a program over the object
graph model, covering duplicated UUIDs): messages with structural faults -
above all every ordered pair 'node j gets the UUID of node i' - are loaded by
gtirb and by the model; the outcome class and, on success, a
renaming-invariant description of the resulting IR (containment by UUID,
symbol payloads, what get_by_uuid answers for every UUID of the message, and
whether that node is attached) must agree."""
import core
import fault_stream as fs
import irdump
import irgen
import msg_stream as ms


def U(b):
    return int.from_bytes(bytes(b), "big")


def skeleton(msg, per_interval=False):
    """message -> skeleton tokens, or None if the message has features the
    skeleton does not carry (wrong-length UUIDs, missing one-ofs).
    per_interval: the `loadx` format - each interval carries the symbol UUIDs
    of its own expressions, the module has no flat list (the real loader
    checks them per decoded interval object)"""
    names = {}

    def nm(s):
        return names.setdefault(s, len(names))

    def ok(b):
        return len(bytes(b)) == 16
    if not ok(msg.uuid):
        return None
    t = ["ir", str(U(msg.uuid)), str(len(msg.modules))]
    for m in msg.modules:
        if not ok(m.uuid) or (m.entry_point and not ok(m.entry_point)):
            return None
        t += ["mod", str(U(m.uuid)),
              str(U(m.entry_point)) if m.entry_point else "-",
              str(len(m.proxies))]
        for p in m.proxies:
            if not ok(p.uuid):
                return None
            t.append(str(U(p.uuid)))
        t.append(str(len(m.sections)))
        exprsyms = []
        for s in m.sections:
            if not ok(s.uuid):
                return None
            t += ["sec", str(U(s.uuid)), str(len(s.byte_intervals))]
            for x in s.byte_intervals:
                if not ok(x.uuid) or len(x.contents) > x.size:
                    return None
                t += ["bi", str(U(x.uuid)), str(len(x.blocks))]
                for b in x.blocks:
                    w = b.WhichOneof("value")
                    if w is None or not ok(getattr(b, w).uuid):
                        return None
                    t += ["c" if w == "code" else "d",
                          str(U(getattr(b, w).uuid))]
                mine = []
                for k in sorted(x.symbolic_expressions):
                    e = x.symbolic_expressions[k]
                    w = e.WhichOneof("value")
                    if w is None:
                        return None
                    us = [e.addr_const.symbol_uuid] if w == "addr_const" \
                        else [e.addr_addr.symbol1_uuid,
                              e.addr_addr.symbol2_uuid]
                    for u in us:
                        if not ok(u):
                            return None
                        mine.append(str(U(u)))
                exprsyms += mine
                if per_interval:
                    t += [str(len(mine))] + mine
        t.append(str(len(m.symbols)))
        for y in m.symbols:
            if not ok(y.uuid):
                return None
            w = y.WhichOneof("optional_payload")
            if w == "value":
                pl = "i%d" % y.value
            elif w == "referent_uuid":
                if not ok(y.referent_uuid):
                    return None
                pl = "r%d" % U(y.referent_uuid)
            else:
                pl = "-"
            t += ["sym", str(U(y.uuid)), str(nm(y.name)), pl]
        if not per_interval:
            t.append(str(len(exprsyms)))
            t += exprsyms
    t.append(str(len(msg.cfg.edges)))
    for e in msg.cfg.edges:
        if not ok(e.source_uuid) or not ok(e.target_uuid):
            return None
        t += [str(U(e.source_uuid)), str(U(e.target_uuid))]
    return t, names


def all_uuids(msg):
    out = [U(msg.uuid)]
    for m in msg.modules:
        out.append(U(m.uuid))
        out += [U(p.uuid) for p in m.proxies]
        for s in m.sections:
            out.append(U(s.uuid))
            for x in s.byte_intervals:
                out.append(U(x.uuid))
                for b in x.blocks:
                    w = b.WhichOneof("value")
                    out.append(U(getattr(b, w).uuid))
        out += [U(y.uuid) for y in m.symbols]
    return sorted(set(out))


def describe(gtirb, ir, msg, names):
    """the same text `Loader.showLoaded` prints, from the real objects"""
    import uuid as uuidlib
    G = gtirb

    def kc(o):
        if isinstance(o, G.IR):
            return "R"
        if isinstance(o, G.Module):
            return "M"
        if isinstance(o, G.Section):
            return "S"
        if isinstance(o, G.ByteInterval):
            return "I"
        if isinstance(o, G.CodeBlock):
            return "c"
        if isinstance(o, G.DataBlock):
            return "d"
        if isinstance(o, G.ProxyBlock):
            return "p"
        if isinstance(o, G.Symbol):
            return "y"
        return "?"

    def parent(o):
        for a in ("byte_interval", "section"):
            if kc(o) in "cd" and a == "byte_interval":
                return o.byte_interval
            if kc(o) == "I" and a == "section":
                return o.section
        if kc(o) in "Spy":
            return o.module
        if kc(o) == "M":
            return o.ir
        return None

    def ir_of(o):
        return o if kc(o) == "R" else o.ir

    def desc(o):
        p = parent(o)
        return "%s%d@%d^%s" % (kc(o), o.uuid.int,
                               1 if ir_of(o) is ir else 0,
                               "-" if p is None else "%s%d" % (kc(p),
                                                               p.uuid.int))

    def blk(b):
        return "%s%d" % (kc(b), b.uuid.int)

    def iv(x):
        return "i%d{%s}" % (x.uuid.int, ",".join(sorted(blk(b)
                                                        for b in x.blocks)))

    def sec(s):
        return "s%d{%s}" % (s.uuid.int, ",".join(sorted(
            iv(x) for x in s.byte_intervals)))

    def sym(y):
        if y.referent is not None:
            pl = "b" + desc(y.referent)
        elif y.value is not None:
            pl = "i%d" % y.value if isinstance(y.value, int) else \
                "?value:" + type(y.value).__name__     # an ill-typed IR
        else:
            pl = "-"
        return "y%d:%d:%s" % (y.uuid.int, names.get(y.name, -1), pl)

    def mod(m):
        return "m%d{P[%s]S[%s]Y[%s]}" % (
            m.uuid.int, ",".join(sorted("p%d" % p.uuid.int
                                        for p in m.proxies)),
            ",".join(sorted(sec(s) for s in m.sections)),
            ",".join(sorted(sym(y) for y in m.symbols)))
    table = []
    for u in all_uuids(msg):
        n = ir.get_by_uuid(uuidlib.UUID(int=u))
        table.append("%d>%s" % (u, "-" if n is None else desc(n)))
    return "mods=[%s] table=%s" % (" ".join(mod(m) for m in ir.modules),
                                   " ".join(table))


def run(ctx, n_files=None):
    import gtirb
    import gtirb.version
    rng = ctx.rng
    hdr = b"GTIRB\0\0" + bytes([gtirb.version.PROTOBUF_VERSION])
    tie = ms.CheckedTie(ctx, "loader", "loader", flush_at=150)
    # the same through the Lean function `Loader.skelOf` (message -> skeleton)
    tie_m = ms.CheckedTie(ctx, "msg", "loadm", flush_at=150)
    # the faithful model (`LoaderX`): expression symbols checked per decoded
    # interval object; every case, also those the coarser `Loader` cannot
    # follow (several faults at once)
    tie_x = ms.CheckedTie(ctx, "loaderx", "loadx", flush_at=150)
    for fno in range(n_files or ctx.scale(20, 200)):
        gen = irgen.Gen(gtirb, rng, rng.choice([0.3, 0.6]))
        ir0 = gen.build()
        msg = ms.canonical_order(ms.parse_file(gtirb, ms.save(ir0)))
        cases = [("unmodified", "none", msg)]
        for what, fclass, m2 in fs.structural_faults(gtirb, msg, rng, True):
            if fclass in ("bad-reference", "duplicate-uuid"):
                cases.append((what, fclass, m2))
        if not ctx.thorough() and len(cases) > 160:
            cases = cases[:1] + rng.sample(cases[1:], 159)
        # several duplications at once (a UUID occurring three times, two
        # independent pairs): children are decoded and attached one by one,
        # so a re-used node moves before its next occurrence is decoded
        fields = fs.uuid_fields(msg)
        nodes = [i for i, f in enumerate(fields) if f[3] == "node"]
        if len(nodes) >= 3:
            for _ in range(ctx.scale(60, 600)):
                c = fs.clone(msg)
                fa = fs.uuid_fields(c)
                desc = []
                def same_kind(k):
                    """k nodes of one kind (re-use instead of rejection)"""
                    kind = fields[rng.choice(nodes)][0]
                    pool = [i for i in nodes if fields[i][0] == kind]
                    return rng.sample(pool, k) if len(pool) >= k else None
                r = rng.random()
                if r < 0.35:
                    a, b, d = same_kind(3) or rng.sample(nodes, 3)
                    plan = [(a, b), (a, d)]
                elif r < 0.55:
                    a, b, d = rng.sample(nodes, 3)
                    plan = [(a, b), (a, d)]
                elif r < 0.8:
                    plan = [tuple(same_kind(2) or rng.sample(nodes, 2))
                            for _ in range(rng.choice([2, 2, 3]))]
                else:
                    plan = [tuple(rng.sample(nodes, 2))
                            for _ in range(rng.choice([2, 2, 3]))]
                for a, b in plan:
                    setattr(fa[b][1], fa[b][2],
                            bytes(getattr(fa[a][1], fa[a][2])))
                    desc.append("%s := uuid of %s" % (fields[b][0],
                                                      fields[a][0]))
                # sometimes a reference fault on top (a skipped interval's
                # expressions are never looked at by the real loader)
                if rng.random() < 0.35:
                    refs = [i for i, f in enumerate(fields)
                            if f[3] != "node"]
                    if refs:
                        i = rng.choice(refs)
                        setattr(fa[i][1], fa[i][2], rng.choice(
                            [rng.getrandbits(128).to_bytes(16, "big"),
                             bytes(getattr(fa[rng.choice(nodes)][1],
                                           fa[rng.choice(nodes)][2]))]))
                        desc.append("%s re-pointed" % fields[i][0])
                cases.append(("; ".join(desc), "multi-fault", c))
        for what, fclass, m2 in cases:
            sk = skeleton(m2)
            if sk is None:
                continue
            toks, names = sk
            out, ir, detail = fs.load_outcome(gtirb, hdr +
                                              m2.SerializeToString())
            ctx.evaluations += 1
            if out == "ok":
                obs = "ok " + describe(gtirb, ir, m2, names)
            elif out == "exc:KeyError":
                obs = "err:forest:KeyError!cache"
            else:
                obs = out
            ctx.count("loader:%s:%s" % (fclass, out))
            # UUIDs carried by several attached nodes: which of them the
            # table names at the end depends on the order in which the final
            # registration walk meets them (iteration over Python sets) -
            # any of them is coherent; such entries are masked on both sides
            amb = set()
            if ir is not None:
                seen = {}
                for n in [ir] + list(ir.modules) + list(ir.sections) + \
                        list(ir.symbols) + list(ir.proxy_blocks) + \
                        list(ir.byte_intervals) + list(ir.byte_blocks):
                    seen[n.uuid.int] = seen.get(n.uuid.int, 0) + 1
                amb = {u for u, k in seen.items() if k > 1}
                if amb:
                    ctx.count("loader:ambiguous-table-entry")

            # a reference (edge end, entry point, referent, expression
            # symbol) naming a UUID that several node messages carry: which
            # node the table holds when it is resolved can depend on that
            # same walk order, and with it acceptance itself
            node_u, ref_u = {}, set()
            for f in fs.uuid_fields(m2):
                u = bytes(getattr(f[1], f[2]))
                if f[3] == "node":
                    node_u[u] = node_u.get(u, 0) + 1
                else:
                    ref_u.add(u)
            order_dep = any(node_u.get(u, 0) > 1 for u in ref_u)
            if order_dep:
                ctx.count("loader:order-dependent-reference")

            def masked(txt, amb=amb):
                if not amb or " table=" not in txt:
                    return txt
                head, tab = txt.split(" table=", 1)
                toks = [t if int(t.split(">")[0]) not in amb
                        else t.split(">")[0] + ">*" for t in tab.split(" ")]
                return head + " table=" + " ".join(toks)
            ctx.nontriv(("loader", fclass, out))

            def cb(i, line, a, b, masked=masked, order_dep=order_dep):
                # the model does not carry `_proto_interval`: a re-used
                # interval whose expressions were already decoded makes the
                # implementation raise AttributeError where the model goes on
                if order_dep and {a.split(" ")[0], b.split(" ")[0]} <= {
                        "ok", "err:deser"}:
                    return True
                if ms.is_rejection(a) and ms.is_rejection(b):
                    return True     # rejected by both; see ms.is_rejection
                return a == "exc:AttributeError" or masked(a) == masked(b)
            if out == "exc:AttributeError":
                obs_x = "err:attribute"
            else:
                obs_x = obs

            def cbx(i, line, a, b, masked=masked, order_dep=order_dep):
                # which of two failing intervals the real loader meets first
                # is its set iteration order
                if order_dep and {a.split(" ")[0], b.split(" ")[0]} <= {
                        "ok", "err:deser"}:
                    return True
                if ms.is_rejection(a) and ms.is_rejection(b):
                    return True     # rejected by both; see ms.is_rejection
                return masked(a) == masked(b)
            tie_x.add_checked("file %d %s" % (fno, what),
                              ["loadx " + " ".join(
                                  skeleton(m2, per_interval=True)[0])],
                              [obs_x], cbx)
            if fclass == "multi-fault":
                continue     # the coarser model: single faults and pairs only
            tie.add_checked("file %d %s" % (fno, what),
                            ["load " + " ".join(toks)], [obs], cb)
            tie_m.add_checked("file %d %s" % (fno, what),
                              ["loadm " + " ".join(irdump.dump_mir(m2, sort=False))],
                              [obs], cb)
    tie.flush()
    tie_m.flush()
    tie_x.flush()
