"""A small .proto -> FileDescriptorProto translator (there is no protoc here).

Supports the proto3 subset the twelve gtirb schema files use: syntax,
package, option (file level, java_package only is kept), import, enum,
message (nested not needed), oneof, map<K,V>, repeated, reserved.

The result is (a) written out as X_pb2.py files in the shape protoc emits,
(b) turned into a plain-Python schema table that gen_tables.py renders as
Lean (Generated/Schema.lean).
"""
import re
from google.protobuf import descriptor_pb2 as dpb

SCALARS = {
    "double": 1, "float": 2, "int64": 3, "uint64": 4, "int32": 5,
    "fixed64": 6, "fixed32": 7, "bool": 8, "string": 9, "bytes": 12,
    "uint32": 13, "sfixed32": 15, "sfixed64": 16, "sint32": 17, "sint64": 18,
}
TYPE_MESSAGE = 11
TYPE_ENUM = 14


class ProtoSyntaxError(Exception):
    pass


def _strip_comments(text):
    text = re.sub(r"/\*.*?\*/", "", text, flags=re.S)
    out = []
    for line in text.splitlines():
        # no string literal in these files contains '//'
        i = line.find("//")
        if i >= 0:
            line = line[:i]
        out.append(line)
    return "\n".join(out)


_TOKEN = re.compile(r'"[^"]*"|[A-Za-z_][A-Za-z0-9_.]*|-?\d+|[{}=;<>,\[\]()]')


def _tokens(text):
    text = _strip_comments(text)
    pos = 0
    toks = []
    while pos < len(text):
        if text[pos].isspace():
            pos += 1
            continue
        m = _TOKEN.match(text, pos)
        if not m:
            raise ProtoSyntaxError("bad token at %r" % text[pos:pos + 20])
        toks.append(m.group(0))
        pos = m.end()
    return toks


class _P:
    def __init__(self, toks):
        self.t = toks
        self.i = 0

    def peek(self):
        return self.t[self.i] if self.i < len(self.t) else None

    def next(self):
        tok = self.peek()
        if tok is None:
            raise ProtoSyntaxError("unexpected end of file")
        self.i += 1
        return tok

    def expect(self, s):
        tok = self.next()
        if tok != s:
            raise ProtoSyntaxError("expected %r got %r" % (s, tok))

    def opt(self, s):
        if self.peek() == s:
            self.i += 1
            return True
        return False


def parse_proto(text):
    """Return a dict: package, imports, options, enums, messages."""
    p = _P(_tokens(text))
    f = {"package": "", "imports": [], "options": {}, "enums": [],
         "messages": [], "syntax": "proto2"}
    while p.peek() is not None:
        tok = p.next()
        if tok == ";":
            continue
        if tok == "syntax":
            p.expect("=")
            f["syntax"] = p.next().strip('"')
            p.expect(";")
        elif tok == "package":
            f["package"] = p.next()
            p.expect(";")
        elif tok == "option":
            name = p.next()
            p.expect("=")
            f["options"][name] = p.next().strip('"')
            p.expect(";")
        elif tok == "import":
            f["imports"].append(p.next().strip('"'))
            p.expect(";")
        elif tok == "enum":
            f["enums"].append(_enum(p))
        elif tok == "message":
            f["messages"].append(_message(p))
        else:
            raise ProtoSyntaxError("unexpected top-level token %r" % tok)
    if f["syntax"] != "proto3":
        raise ProtoSyntaxError("only proto3 is supported")
    return f


def _enum(p):
    name = p.next()
    p.expect("{")
    vals = []
    while not p.opt("}"):
        if p.opt(";"):
            continue
        vname = p.next()
        p.expect("=")
        num = int(p.next())
        p.expect(";")
        vals.append((vname, num))
    return {"name": name, "values": vals}


def _reserved(p, msg):
    while True:
        tok = p.next()
        if tok.startswith('"'):
            msg["reserved_names"].append(tok.strip('"'))
        else:
            lo = int(tok)
            hi = lo
            if p.peek() == "to":
                p.next()
                hi = int(p.next())
            msg["reserved_ranges"].append((lo, hi + 1))
        if p.opt(";"):
            return
        p.expect(",")


def _field(p, first, label, oneof):
    fld = {"label": label, "oneof": oneof, "map": None}
    if first == "map":
        p.expect("<")
        k = p.next()
        p.expect(",")
        v = p.next()
        p.expect(">")
        fld["map"] = (k, v)
        fld["type"] = None
    else:
        fld["type"] = first
    fld["name"] = p.next()
    p.expect("=")
    fld["number"] = int(p.next())
    p.expect(";")
    return fld


def _message(p):
    msg = {"name": p.next(), "fields": [], "oneofs": [],
           "reserved_names": [], "reserved_ranges": []}
    p.expect("{")
    while not p.opt("}"):
        tok = p.next()
        if tok == ";":
            continue
        if tok == "reserved":
            _reserved(p, msg)
        elif tok == "oneof":
            oname = p.next()
            idx = len(msg["oneofs"])
            msg["oneofs"].append(oname)
            p.expect("{")
            while not p.opt("}"):
                if p.opt(";"):
                    continue
                msg["fields"].append(_field(p, p.next(), "optional", idx))
        elif tok == "repeated":
            msg["fields"].append(_field(p, p.next(), "repeated", None))
        elif tok in ("message", "enum", "option", "extensions", "optional",
                     "required", "group"):
            raise ProtoSyntaxError("unsupported construct %r in message" % tok)
        else:
            msg["fields"].append(_field(p, tok, "optional", None))
    return msg


def _camel(s):
    return "".join(w[:1].upper() + w[1:] for w in s.split("_"))


def _json_name(s):
    parts = s.split("_")
    return parts[0] + "".join(w[:1].upper() + w[1:] for w in parts[1:])


def build_descriptors(sources, prefix="gtirb/proto/"):
    """sources: {filename: text}. Returns ({filename: FileDescriptorProto},
    order) with files named prefix+filename, in dependency order."""
    parsed = {fn: parse_proto(tx) for fn, tx in sources.items()}
    # global symbol table: short name -> (kind, full name)
    syms = {}
    for fn, f in parsed.items():
        pk = f["package"]
        for e in f["enums"]:
            syms[e["name"]] = ("enum", "." + pk + "." + e["name"])
        for m in f["messages"]:
            syms[m["name"]] = ("message", "." + pk + "." + m["name"])

    def set_type(fd, tname):
        if tname in SCALARS:
            fd.type = SCALARS[tname]
        elif tname in syms:
            kind, full = syms[tname]
            fd.type = TYPE_MESSAGE if kind == "message" else TYPE_ENUM
            fd.type_name = full
        else:
            raise ProtoSyntaxError("unknown type %r" % tname)

    out = {}
    for fn, f in parsed.items():
        fdp = dpb.FileDescriptorProto()
        fdp.name = prefix + fn
        fdp.package = f["package"]
        fdp.syntax = "proto3"
        for imp in f["imports"]:
            if imp not in parsed:
                raise ProtoSyntaxError("%s imports unknown %s" % (fn, imp))
            fdp.dependency.append(prefix + imp)
        if "java_package" in f["options"]:
            fdp.options.java_package = f["options"]["java_package"]
        for m in f["messages"]:
            mp = fdp.message_type.add()
            mp.name = m["name"]
            for fld in m["fields"]:
                fd = mp.field.add()
                fd.name = fld["name"]
                fd.number = fld["number"]
                fd.json_name = _json_name(fld["name"])
                if fld["map"] is not None:
                    k, v = fld["map"]
                    entry = mp.nested_type.add()
                    entry.name = _camel(fld["name"]) + "Entry"
                    entry.options.map_entry = True
                    kf = entry.field.add()
                    kf.name, kf.number, kf.label = "key", 1, 1
                    kf.json_name = "key"
                    set_type(kf, k)
                    vf = entry.field.add()
                    vf.name, vf.number, vf.label = "value", 2, 1
                    vf.json_name = "value"
                    set_type(vf, v)
                    fd.label = 3
                    fd.type = TYPE_MESSAGE
                    fd.type_name = ("." + f["package"] + "." + m["name"]
                                    + "." + entry.name)
                else:
                    fd.label = 3 if fld["label"] == "repeated" else 1
                    set_type(fd, fld["type"])
                if fld["oneof"] is not None:
                    fd.oneof_index = fld["oneof"]
            for o in m["oneofs"]:
                mp.oneof_decl.add().name = o
            for lo, hi in m["reserved_ranges"]:
                r = mp.reserved_range.add()
                r.start, r.end = lo, hi
            for n in m["reserved_names"]:
                mp.reserved_name.append(n)
        for e in f["enums"]:
            ep = fdp.enum_type.add()
            ep.name = e["name"]
            for vn, num in e["values"]:
                v = ep.value.add()
                v.name, v.number = vn, num
        out[fn] = fdp
    # dependency order
    order, seen = [], set()

    def visit(fn):
        if fn in seen:
            return
        seen.add(fn)
        for imp in parsed[fn]["imports"]:
            visit(imp)
        order.append(fn)
    for fn in sorted(parsed):
        visit(fn)
    return out, order, parsed


PB2_TEMPLATE = '''# -*- coding: utf-8 -*-
# Generated by /verif/harness/protoc_lite.py from {src}.  DO NOT EDIT!
"""Generated protocol buffer code."""
from google.protobuf.internal import builder as _builder
from google.protobuf import descriptor as _descriptor
from google.protobuf import descriptor_pool as _descriptor_pool
from google.protobuf import symbol_database as _symbol_database

_sym_db = _symbol_database.Default()

{imports}

DESCRIPTOR = _descriptor_pool.Default().AddSerializedFile({blob!r})

_builder.BuildMessageAndEnumDescriptors(DESCRIPTOR, globals())
_builder.BuildTopDescriptorsAndMessages(DESCRIPTOR, {modname!r}, globals())
'''


def write_pb2(sources, outdir, package="gtirb.proto"):
    """Write X_pb2.py for every X.proto into outdir. Returns schema tables."""
    import os
    descs, order, parsed = build_descriptors(sources)
    for fn in order:
        base = fn[:-len(".proto")]
        imports = "\n".join(
            "from %s import %s_pb2 as _%s__pb2" % (
                package, imp[:-len(".proto")], imp[:-len(".proto")])
            for imp in parsed[fn]["imports"])
        text = PB2_TEMPLATE.format(
            src=fn, imports=imports,
            blob=descs[fn].SerializeToString(),
            modname="%s.%s_pb2" % (package, base))
        with open(os.path.join(outdir, base + "_pb2.py"), "w") as fh:
            fh.write(text)
    return descs, order, parsed
