"""Dump a gtirb IR (through its public attributes) and a protobuf IR message
(through the generated classes) into the V / M token formats of the `msg`
model (see lean/GtirbModel/MsgDriver.lean). Everything that comes out of a
set / dict is sorted (children by UUID bytes, flags and attribute numbers
numerically, edges by (source, target, label), expressions by key, AuxData by
key); `ir.modules` keeps list order."""


def hx(b):
    b = bytes(b)
    return b.hex() if b else "-"


def hs(s):
    return hx(s.encode("utf-8"))


def label_key(l):
    return (-1, 0, 0) if l is None else l


def lab_tok(l):
    return "-" if l is None else "%d,%d,%d" % l


# ------------------------------------------------------------------ objects
def dump_irv(gtirb, ir, aux_bytes):
    """aux_bytes(container, key) -> bytes to show for that table (the
    reader/writer models treat AuxData bytes as opaque)."""
    t = ["irv", hx(ir.uuid.bytes), str(ir.version), str(len(ir.modules))]
    for m in ir.modules:
        t += dump_module(gtirb, m, aux_bytes)
    edges = sorted(((e.source.uuid.bytes, e.target.uuid.bytes,
                     label_of(e.label)) for e in ir.cfg),
                   key=lambda e: (e[0], e[1], label_key(e[2])))
    t.append(str(len(edges)))
    for s, d, l in edges:
        t += ["edge", hx(s), hx(d), lab_tok(l)]
    t += dump_aux(ir, aux_bytes)
    return t


def label_of(l):
    if l is None:
        return None
    return (l.type.value, int(bool(l.conditional)), int(bool(l.direct)))


def dump_aux(container, aux_bytes):
    keys = sorted(container.aux_data)
    t = [str(len(keys))]
    for k in keys:
        t += ["aux", hs(k), hs(container.aux_data[k].type_name),
              hx(aux_bytes(container, k))]
    return t


def dump_module(gtirb, m, aux_bytes):
    ep = m.entry_point
    t = ["mod", hx(m.uuid.bytes), hs(m.name), hs(m.binary_path),
         str(m.preferred_addr), str(m.rebase_delta), str(m.file_format.value),
         str(m.isa.value), str(m.byte_order.value),
         "-" if ep is None else hx(ep.uuid.bytes)]
    prox = sorted(p.uuid.bytes for p in m.proxies)
    t.append(str(len(prox)))
    t += [hx(p) for p in prox]
    secs = sorted(m.sections, key=lambda s: s.uuid.bytes)
    t.append(str(len(secs)))
    for s in secs:
        flags = sorted(f.value for f in s.flags)
        t += ["sec", hx(s.uuid.bytes), hs(s.name), str(len(flags))]
        t += [str(f) for f in flags]
        bis = sorted(s.byte_intervals, key=lambda x: x.uuid.bytes)
        t.append(str(len(bis)))
        for x in bis:
            t += ["bi", hx(x.uuid.bytes),
                  "-" if x.address is None else str(x.address), str(x.size),
                  hx(x.contents)]
            blks = sorted(x.blocks, key=lambda b: b.uuid.bytes)
            t.append(str(len(blks)))
            for b in blks:
                if isinstance(b, gtirb.CodeBlock):
                    t += ["c", hx(b.uuid.bytes), str(b.offset), str(b.size),
                          str(b.decode_mode.value)]
                else:
                    t += ["d", hx(b.uuid.bytes), str(b.offset), str(b.size)]
            exprs = sorted(x.symbolic_expressions.items())
            t.append(str(len(exprs)))
            for k, e in exprs:
                attrs = sorted(a.value if isinstance(
                    a, gtirb.SymbolicExpression.Attribute) else int(a)
                    for a in e.attributes)
                if isinstance(e, gtirb.SymAddrConst):
                    t += [str(k), "ac", str(e.offset), hx(e.symbol.uuid.bytes)]
                else:
                    t += [str(k), "aa", str(e.scale), str(e.offset),
                          hx(e.symbol1.uuid.bytes), hx(e.symbol2.uuid.bytes)]
                t.append(str(len(attrs)))
                t += [str(a) for a in attrs]
    syms = sorted(m.symbols, key=lambda s: s.uuid.bytes)
    t.append(str(len(syms)))
    for s in syms:
        if s.referent is not None:
            pl = "r" + s.referent.uuid.bytes.hex()
        elif s.value is not None:
            pl = "v%d" % s.value
        else:
            pl = "-"
        t += ["sym", hx(s.uuid.bytes), hs(s.name), pl,
              "1" if s.at_end else "0"]
    t += dump_aux(m, aux_bytes)
    return t


# ------------------------------------------------------------------ messages
def block_uuid(b):
    w = b.WhichOneof("value")
    if w == "code":
        return bytes(b.code.uuid)
    if w == "data":
        return bytes(b.data.uuid)
    return b""


def dump_mir(msg, sort=True):
    def srt(xs, key):
        return sorted(xs, key=key) if sort else list(xs)
    t = ["mir", hx(msg.uuid), str(msg.version), str(len(msg.modules))]
    for m in msg.modules:
        t += ["mod", hx(m.uuid), hs(m.name), hs(m.binary_path),
              str(m.preferred_addr), str(m.rebase_delta), str(m.file_format),
              str(m.isa), str(m.byte_order), hx(m.entry_point)]
        prox = srt((bytes(p.uuid) for p in m.proxies), lambda b: b)
        t.append(str(len(prox)))
        t += [hx(p) for p in prox]
        secs = srt(m.sections, lambda s: bytes(s.uuid))
        t.append(str(len(secs)))
        for s in secs:
            flags = srt(s.section_flags, lambda f: f)
            t += ["sec", hx(s.uuid), hs(s.name), str(len(flags))]
            t += [str(int(f)) for f in flags]
            bis = srt(s.byte_intervals, lambda x: bytes(x.uuid))
            t.append(str(len(bis)))
            for x in bis:
                t += ["bi", hx(x.uuid), "1" if x.has_address else "0",
                      str(x.address), str(x.size), hx(x.contents)]
                blks = srt(x.blocks, block_uuid)
                t.append(str(len(blks)))
                for b in blks:
                    w = b.WhichOneof("value")
                    if w == "code":
                        t += ["c", str(b.offset), hx(b.code.uuid),
                              str(b.code.size), str(b.code.decode_mode)]
                    elif w == "data":
                        t += ["d", str(b.offset), hx(b.data.uuid),
                              str(b.data.size)]
                    else:
                        t += ["n", str(b.offset)]
                exprs = sorted(x.symbolic_expressions.items())
                t.append(str(len(exprs)))
                for k, e in exprs:
                    attrs = srt(e.attribute_flags, lambda a: a)
                    w = e.WhichOneof("value")
                    if w == "addr_const":
                        t += [str(k), "ac", str(e.addr_const.offset),
                              hx(e.addr_const.symbol_uuid)]
                    elif w == "addr_addr":
                        t += [str(k), "aa", str(e.addr_addr.scale),
                              str(e.addr_addr.offset),
                              hx(e.addr_addr.symbol1_uuid),
                              hx(e.addr_addr.symbol2_uuid)]
                    else:
                        t += [str(k), "n"]
                    t.append(str(len(attrs)))
                    t += [str(int(a)) for a in attrs]
        syms = srt(m.symbols, lambda s: bytes(s.uuid))
        t.append(str(len(syms)))
        for s in syms:
            w = s.WhichOneof("optional_payload")
            if w == "value":
                pl = "v%d" % s.value
            elif w == "referent_uuid":
                pl = "r" + bytes(s.referent_uuid).hex()
            else:
                pl = "-"
            t += ["sym", hx(s.uuid), hs(s.name), pl, "1" if s.at_end else "0"]
        t += dump_maux(m.aux_data)
    verts = srt((bytes(v) for v in msg.cfg.vertices), lambda b: b)
    t.append(str(len(verts)))
    t += [hx(v) for v in verts]

    def mlabel(e):
        if not e.HasField("label"):
            return None
        return (int(e.label.type), int(e.label.conditional),
                int(e.label.direct))
    edges = srt(((bytes(e.source_uuid), bytes(e.target_uuid), mlabel(e))
                 for e in msg.cfg.edges),
                lambda e: (e[0], e[1], label_key(e[2])))
    t.append(str(len(edges)))
    for s, d, l in edges:
        t += ["edge", hx(s), hx(d), lab_tok(l)]
    t += dump_maux(msg.aux_data)
    return t


def dump_maux(container):
    keys = sorted(container)
    t = [str(len(keys))]
    for k in keys:
        t += ["aux", hs(k), hs(container[k].type_name),
              hx(container[k].data)]
    return t
