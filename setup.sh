#!/bin/sh
# Run once after a fresh restore, offline: builds the Lean models, the proofs
# and the line-protocol driver from files on disk only.
set -e
cd "$(dirname "$0")"
export PYTHONDONTWRITEBYTECODE=1
# tables must exist before the first build (they are regenerated from /repo)
/venv/bin/python harness/gen_once.py
cd lean
timeout 3000 lake build GtirbModel GtirbProofs driver
