#!/bin/sh
cd "$(dirname "$0")/.."
for d in /tmp/mut_out5/C*/m*; do
  [ -f "$d/patch.diff" ] || continue
  p=$(basename "$(dirname "$d")"); k=$(basename "$d" | tr -d m)
  sid="$p-m$((k+6))"
  [ -f "seeded/$sid/meta.json" ] && continue
  echo "=== $sid"
  /venv/bin/python tools/try_mutant.py "$d" "$sid" "$p" 2>&1 | tail -12
done
