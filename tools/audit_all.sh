#!/bin/sh
# tools/audit_all.sh [--clean] [--leanchecker]: the whole Lean development
# checked as a stranger would: (optionally from a clean build directory) build
# every model, proof module and the driver; grep for constructs that are not
# allowed; `#print axioms` of every theorem listed in lean/obligations.json;
# optionally re-check every compiled proof module with leanchecker.
set -e
cd "$(dirname "$0")/.."
[ "${1:-}" = "--clean" ] && { rm -rf lean/.lake/build; shift; }
/venv/bin/python harness/gen_once.py >/dev/null
(cd lean && lake build GtirbModel GtirbProofs driver 2>&1 | tail -1)
/venv/bin/python - "$@" <<'PY'
import json, sys
sys.path.insert(0, "harness")
import core
hits = core.grep_forbidden()
print("forbidden constructs:", hits or "none")
o = core.load_obligations()
bad = 0
total = 0
for prop in sorted(k for k in o if k[0] == "C" and len(k) == 3):
    thms, mods = o[prop]["theorems"], o[prop]["modules"]
    res, _ = core.audit_axioms(thms, mods)
    for t in thms:
        total += 1
        ax = res.get(t)
        if ax is None or not set(ax) <= core.ALLOWED_AXIOMS:
            bad += 1
            print("PROBLEM", prop, t, ax)
    print(prop, len(thms), "theorems audited")
print("total", total, "problems", bad)
if "--leanchecker" in sys.argv:
    mods = sorted({m for k in o if k[0] == "C" and len(k) == 3
                   for m in o[k]["modules"]})
    rc, out = core._run(["lake", "env", "leanchecker"] + mods, cwd=core.LEAN,
                        timeout=7200)
    print("leanchecker:", "ok" if rc == 0 else out[-800:])
    bad += rc != 0
sys.exit(1 if bad or hits else 0)
PY
