#!/bin/sh
# tools/coverage_run.sh [tier]: which statements of python/gtirb/*.py the
# streams of all checks execute (union over the 19 checks, parent and child
# processes).  Diagnostic only: writes /tmp/verif_cov/*.json and prints the
# statements no check reaches.
cd "$(dirname "$0")/.."
tier=${1:-quick}
rm -rf /tmp/verif_cov; mkdir -p /tmp/verif_cov
cp -r evidence /tmp/verif_cov_evidence
for i in 01 02 03 04 05 06 07 08 09 10 11 12 13 14 15 16 17 18 19; do
  VERIF_COV=/tmp/verif_cov ./check C$i --tier $tier --no-build >/dev/null 2>&1
  echo "C$i rc=$?"
done
rm -rf evidence; mv /tmp/verif_cov_evidence evidence
/venv/bin/python - <<'PY'
import glob, json, os
stm, miss = {}, {}
for f in glob.glob("/tmp/verif_cov/*.json"):
    for name, d in json.load(open(f)).items():
        stm.setdefault(name, set()).update(d["statements"])
        m = set(d["missing"])
        miss[name] = miss[name] & m if name in miss else m
tot = sum(len(v) for v in stm.values()); mi = sum(len(v) for v in miss.values())
print("statements %d, never executed by any check %d" % (tot, mi))
for name in sorted(stm):
    src = open("/repo/python/gtirb/" + name).read().splitlines() \
        if os.path.exists("/repo/python/gtirb/" + name) else []
    print("== %s: %d of %d missing" % (name, len(miss[name]), len(stm[name])))
    for ln in sorted(miss[name]):
        print("  %4d  %s" % (ln, src[ln - 1].strip() if ln <= len(src) else ""))
PY
