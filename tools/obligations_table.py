#!/usr/bin/env python3
"""Regenerates the table of DESIGN.md section 0.55 from lean/obligations.json
(counts, streams) and the hand-picked list of main theorems below."""
import json
import os
import re

V = os.path.dirname(os.path.dirname(os.path.abspath(__file__)))
MAIN = {
 "C01": "C01_roundtrip, C01_loadBytes_saveBytes, C01_resave, C01_deepEq_both, C01_wfir_iff, C01_version_rejected, C01_aux_values; C01_link_accepts, C01_link_shape (value-level reader = graph-level loader on accepted messages); on files, protobuf wire format included (model W): parseMIR_serMIR, C01_roundtrip_bytes, C01_resave_bytes_wire, decodeW_encodeW, decVarint_encVarint, serMIR_injective",
 "C02": "C02_schema_matches_model, C02_enum_bijection, C02_version_magic (tables); C02_header, C02_has_address, C02_payload_oneof, C02_label_presence, C02_vertices (writer); C02_reader_exact (toMsg v = normMsg m), C02_reader_accepts, C02_accepts_iff_closed, C02_toMsg_closed, C02_ref_uuid_16, C02_forward_reference_rejected; wire level: C01_fno_table (field numbers = schema, ascending, legal), parseXW_wX for each of the 15 message types",
 "C03": "C03_step_fine, C03_no_cache_keyerror_fine, C03_history_full, C03_lookup_full, C03_lookup_scan, C03_no_leak, C03_history_no_keyerror, C03_history_strict, C03_runStrict_total, C03_ixor_counterexample; load clause: C17_load_coherent', C17_load_exact_nodup",
 "C04": "C04_step, C04_history, C04_history_strict, C04_one_parent, C04_move_*, C04_frame, C04_reachable_iff, C04_ir*/mod*/sec* (aggregates)",
 "C05": "C05_on_offset, C05_at_offset, C05_on, C05_at, C05_section_on/_at (+_nodup, _sound), C05_scope_*, C05_section_at_inside, C05_section_on_part_inside, C05_kind_* (code_/data_ variants)",
 "C06": "C06_bis_on, C06_bis_at, C06_extent, C06_extent_scan, C06_scope_bis_*, C06_sections_on/_at (+_eq, _nodup)",
 "C07": "C07_roundtrip, C07_encode_total, C07_uuid/_offset_resolution_*, decode_hasType, decode_suffix",
 "C08": "C08_int_le, C08_bool_1, C08_float_le, C08_uuid_16, C08_offset, C08_string_bytecount, C08_*_count, C08_tuple_fields, C08_variant_index, C08_foreign_bytes, C08_codec_table, C08_model_heads",
 "C09": "C09_reference_fault_deser, C09_deser_iff, C09_edge/_entry/_referent/_expr_symbol_fault, C09_dangling, C17_accepted_refs, C17_load_referents, C17_load_edges, C17_load_checks, C07_*_resolution_*",
 "C10": "C10_step, C10_history_full, C10_history_strict, C10_symbols_named, C10_references (+_nodup, _detached)",
 "C11": "C11_*_mem (refinement per operation), C11_step_inv, C11_step_refines, C11_history, C11_out_edges, C11_in_edges, C11_parallel; keyed multigraph: C11_refine_add/_discard/_contains/_out/_in/_step/_history, C11_newKey_fresh, C11_key_collision_breaks, C11_pop_keyError",
 "C12": "C12_get, C12_edit_inv, C12_query_inv, C12_answer_of_strip, C12_schedule, C12_scheduleG (any structure-preserving lookups), C12_schedule_scope, C12_schedule_sections, C12_schedule_none, C12_reachable",
 "C13": "C13_step_sorted, C13_history, C13_at_offset, C13_at, C13_*_get (dict semantics); scopes: C13_section_at (+_sound, _inside, _nodup, _keeps), C13_scope_at_*, C13_scope_at_union, C13_scope_at_sandwich, C13_section_at_omits_example",
 "C14": "C14_untouched(_generations, _history, _state), C14_current(_full, _history), C14_retype, C14_raw_monotone, C14_touched_generation, C14_read_generations, C14_rewritten_iff (extent of K4), C14_unknown_top_head, C14_lazy_trichotomy, C14_unknown_counterexample",
 "C15": "C15_complete, C15_sound, C15_iff",
 "C16": "C16_*_content (every set and list operation), C16_extend_content_dups, C16_builtin_errors_pure, C16_error_kinds, C16_setItem_outside_iff, C16_outside_iff_K1, C16_never_raises, C16_setters_never_raise, C16_history_skips_only_builtin, C16_delSlice_content, C16_setSlice_content_*; return values and non-mutating operations: C16_stepR_state, C16_listPop_returns, C16_setPop_returns, C16_inplace_returns_same, C16_nm*_mem / _nodup / _iff, C16_nmIndex_*, C16_nmSlice_spec, C16_nm_frame; C13_* for the mapping",
 "C17": "C17_header_magic/_version/_short, C17_version_field, C17_accepts_saved, C17_accepted_wf_partial, C17_accepted_refs, C17_accepted_enums, C17_accepted_bytes_inv; C17_load_coherent (every message, duplicated UUIDs included), C17_load_all_attached, C17_load_triple_uuid_*; files with the concrete wire model: C17_accepts_saved_file, C17_accepted_file_inv, C17_malformed_wire_rejected",
 "C18": "C18_iff, C18_symm, C18_refl, C18_refl_iff, C18_order, C18_perm_*, C18_field_* (35), C18_aux_values_ignored; nodes: C18_node_symbol/_expr/_interval/_section/_module (+_symm, _refl, _of_ir)",
 "C19": "C19_ctor_rejects, C19_ctor_ok, C19_setInit_*, C19_setSize_inv, C19_step_inv (incl. whole-contents assignment), C19_history, C19_saveload_iff, C19_contents, C19_contains_*",
}


def main():
    o = json.load(open(os.path.join(V, "lean", "obligations.json")))
    rows = ["| id | theorems audited each run | main theorems | streams (tie + direct oracle) |",
            "|---|---|---|---|"]
    for k in sorted(o):
        if not re.match(r"C\d\d$", k):
            continue
        rows.append("| %s | %d | %s | %s |" % (
            k, len(o[k]["theorems"]), MAIN.get(k, ""),
            "; ".join(o[k].get("streams", []))))
    table = "\n".join(rows) + "\n"
    p = os.path.join(V, "DESIGN.md")
    d = open(p).read()
    a = d.index("| id | theorems audited each run |")
    b = d.index("### 0.6 Seeded changes")
    d = d[:a] + table + "\n" + d[b:]
    open(p, "w").write(d)
    print(sum(len(o[k]["theorems"]) for k in o if re.match(r"C\d\d$", k)),
          "obligations")


if __name__ == "__main__":
    main()
