#!/bin/sh
# evaluates every round-2 mutant under /tmp/mut_out2 (serially: each one is
# applied to /repo, checked, and undone); seeded ids continue after round 1
cd "$(dirname "$0")/.."
for d in /tmp/mut_out2/C*/m*; do
  [ -f "$d/patch.diff" ] || continue
  p=$(basename "$(dirname "$d")"); k=$(basename "$d" | tr -d m)
  sid="$p-m$((k+2))"
  [ -f "seeded/$sid/meta.json" ] && continue
  echo "=== $sid"
  /venv/bin/python tools/try_mutant.py "$d" "$sid" "$p" 2>&1 | tail -14
done
