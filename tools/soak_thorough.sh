#!/bin/sh
# every thorough check once on the unchanged tree, with timings
cd "$(dirname "$0")/.."
[ -x lean/.lake/build/bin/driver ] || ./setup.sh >/dev/null 2>&1
for p in "$@"; do
  s=$(date +%s)
  out=$(VERIF_SEED=7 ./check $p --tier thorough 2>&1); rc=$?
  e=$(date +%s)
  echo "thorough $p rc=$rc $((e-s))s $(echo "$out" | grep -c '^VIOLATION') violations"
  [ $rc -ne 0 ] && echo "$out" | grep -v '^KNOWN' | tail -8
done
true
