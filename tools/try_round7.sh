#!/bin/sh
# round 7 (focused: file layer, schema side, UUID table across loads, rare collection entry points):
# /tmp/mut_out7/Cxx/m{1,2} -> seeded/Cxx-m{11,12}
cd "$(dirname "$0")/.."
for d in /tmp/mut_out7/C*/m*; do
  [ -f "$d/patch.diff" ] && [ -f "$d/meta.json" ] && [ -f "$d/demo.py" ] || continue
  p=$(basename "$(dirname "$d")"); k=$(basename "$d" | tr -d m)
  sid="$p-m$((k+10))"
  [ -f "seeded/$sid/meta.json" ] && continue
  echo "=== $sid"
  /venv/bin/python tools/try_mutant.py "$d" "$sid" "$p" 2>&1 | tail -12
done
