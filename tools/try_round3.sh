#!/bin/sh
# evaluates the round-3 mutants (made per source-file group; each names the
# property it breaks in meta.json) under /tmp/mut_out3: applied to /repo,
# the claimed property's check and the checks of `also_breaks` run, undone
cd "$(dirname "$0")/.."
for d in /tmp/mut_out3/*/m*; do
  [ -f "$d/patch.diff" ] || continue
  g=$(basename "$(dirname "$d")"); k=$(basename "$d" | tr -d m)
  sid="R3-$g$k"
  [ -f "seeded/$sid/meta.json" ] && continue
  props=$(python3 -c "
import json,sys
m=json.load(open('$d/meta.json'))
ps=[m.get('property')]+list(m.get('also_breaks') or [])
print(' '.join(dict.fromkeys(p for p in ps if p and p.startswith('C') and len(p)==3)))")
  echo "=== $sid ($props)"
  /venv/bin/python tools/try_mutant.py "$d" "$sid" $props 2>&1 | tail -16
done
