#!/bin/sh
# round 6: /tmp/mut_out6/Cxx/m{1,2} -> seeded/Cxx-m{9,10}
cd "$(dirname "$0")/.."
for d in /tmp/mut_out6/C*/m*; do
  [ -f "$d/patch.diff" ] && [ -f "$d/meta.json" ] && [ -f "$d/demo.py" ] || continue
  p=$(basename "$(dirname "$d")"); k=$(basename "$d" | tr -d m)
  sid="$p-m$((k+8))"
  [ -f "seeded/$sid/meta.json" ] && continue
  echo "=== $sid"
  /venv/bin/python tools/try_mutant.py "$d" "$sid" "$p" 2>&1 | tail -12
done
