#!/bin/sh
# tools/robustness.sh <seed>...: every seeded change against its property's
# quick check under other seeds than the one it was first evaluated with.
# Runs in a private copy of /verif against a scratch worktree of /repo
# (VERIF_REPO), so that neither /repo nor the checks of the main tree are
# disturbed; prints one line per (change, seed).
set -u
V=/tmp/verif_rob; R=/tmp/rob_repo
rm -rf $V; git -C /repo worktree remove --force $R 2>/dev/null; git -C /repo worktree prune
cp -r "$(dirname "$0")/.." $V
git -C /repo worktree add -q --detach $R HEAD
for seed in "$@"; do
  for d in $V/seeded/${ROBUST_GLOB:-*-*}; do
    [ -f "$d/patch.diff" ] || continue
    sid=$(basename $d)
    p=$(python3 -c "import json;print(json.load(open('$d/meta.json')).get('property') or '${sid%%-*}')")
    git -C $R apply $d/patch.diff || { echo "$sid seed=$seed apply-failed"; continue; }
    out=$(VERIF_REPO=$R VERIF_SEED=$seed $V/check $p 2>&1); rc=$?
    git -C $R checkout -q -- . ; git -C $R clean -fdq
    echo "$sid seed=$seed rc=$rc violations=$(echo "$out" | grep -c '^VIOLATION')"
  done
done
git -C /repo worktree remove --force $R; git -C /repo worktree prune; rm -rf $V
