#!/bin/sh
# tools/harmless_run.sh <tag> <patch>...: behaviour-preserving rewrites of
# clayne/gtirb against every quick check (no alarm is expected). Runs in a
# private copy of /verif against a scratch worktree of /repo (VERIF_REPO).
set -u
tag=$1; shift
V=/tmp/verif_harm_$tag; R=/tmp/harm_repo_$tag
rm -rf $V; git -C /repo worktree remove --force $R 2>/dev/null; git -C /repo worktree prune
cp -r "$(dirname "$0")/.." $V
# HARM_HEAD=1: use the committed state of /verif (the working tree may be mid-change)
[ "${HARM_HEAD:-0}" = 1 ] && git -C $V checkout -q -- . && (cd $V/lean && lake build GtirbModel GtirbProofs driver >/dev/null 2>&1)
PROPS=${HARM_PROPS:-C01 C02 C03 C04 C05 C06 C07 C08 C09 C10 C11 C12 C13 C14 C15 C16 C17 C18 C19}
git -C /repo worktree add -q --detach $R HEAD
for patch in "$@"; do
  git -C $R apply "$patch" || { echo "$patch apply-failed"; continue; }
  for p in $PROPS; do
    out=$(VERIF_REPO=$R $V/check $p 2>&1); rc=$?
    if [ $rc -ne 0 ]; then
      echo "$patch $p rc=$rc"; echo "$out" | grep -v '^KNOWN' | tail -4
    fi
  done
  echo "$patch done"
  git -C $R checkout -q -- . ; git -C $R clean -fdq
done
git -C /repo worktree remove --force $R; git -C /repo worktree prune; rm -rf $V
