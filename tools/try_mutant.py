#!/usr/bin/env python3
"""tools/try_mutant.py <mutant-dir> <seeded-id> <prop> [<prop>...] [--tier T]

1. confirms the mutant independently in a scratch worktree (applies, suite
   passes against the build, demo fails with it and passes without it);
2. applies it to /repo, runs ./check <prop> for each property, undoes it;
3. keeps it as /verif/seeded/<seeded-id>/ (patch.diff, demo.py, meta.json with
   what was run and which checks caught it)."""
import json
import os
import shutil
import subprocess
import sys

VERIF = os.path.dirname(os.path.dirname(os.path.abspath(__file__)))
# TRY_REPO: a scratch worktree to apply the change to instead of /repo (the
# checks then run with VERIF_REPO pointing at it)
TARGET = os.environ.get("TRY_REPO", "/repo")


def sh(cmd, **kw):
    return subprocess.run(cmd, shell=True, text=True, stdout=subprocess.PIPE,
                          stderr=subprocess.STDOUT, **kw)


def main():
    args = [a for a in sys.argv[1:] if not a.startswith("--")]
    tier = "quick"
    if "--tier" in sys.argv:
        tier = sys.argv[sys.argv.index("--tier") + 1]
        args.remove(tier)
    mdir, sid, props = args[0], args[1], args[2:]
    patch = os.path.join(mdir, "patch.diff")
    demo = os.path.join(mdir, "demo.py")
    wt = "/tmp/wt_try_%d" % os.getpid()
    res = {"confirmed": {}, "checks": {}}
    sh("git -C /repo worktree add -q --detach %s HEAD" % wt)
    try:
        r = sh("%s/tools/mutkit/run.sh %s %s" % (VERIF, wt, os.path.abspath(demo)))
        res["confirmed"]["demo_passes_without"] = r.returncode == 0
        r = sh("git -C %s apply %s" % (wt, os.path.abspath(patch)))
        res["confirmed"]["applies"] = r.returncode == 0
        r = sh("%s/tools/mutkit/tests.sh %s" % (VERIF, wt))
        res["confirmed"]["suite_passes_with"] = "115 passed" in r.stdout
        r = sh("%s/tools/mutkit/run.sh %s %s" % (VERIF, wt, os.path.abspath(demo)))
        res["confirmed"]["demo_fails_with"] = r.returncode != 0
        res["confirmed"]["demo_output_with"] = r.stdout[-600:]
    finally:
        sh("git -C /repo worktree remove --force %s" % wt)
        sh("git -C /repo worktree prune")
    assert sh("git -C %s status --porcelain" % TARGET).stdout.strip() == "", \
        "target repo is dirty"
    r = sh("git -C %s apply %s" % (TARGET, os.path.abspath(patch)))
    # evidence/ and replays/ written while the change is applied describe the
    # changed tree: they are put back afterwards
    ev_backup = "/tmp/try_mutant_evidence_%d" % os.getpid()
    shutil.copytree(os.path.join(VERIF, "evidence"), ev_backup)
    try:
        for p in props:
            env = dict(os.environ, VERIF_TIER=tier, VERIF_REPO=TARGET)
            c = sh("%s/check %s --tier %s" % (VERIF, p, tier), env=env,
                   timeout=3600)
            lines = [l for l in c.stdout.splitlines()
                     if l.startswith("VIOLATION") or l.startswith("violation")]
            res["checks"][p] = {"rc": c.returncode, "lines": lines[:6],
                                "tier": tier}
    finally:
        sh("git -C %s checkout -- ." % TARGET)
        sh("git -C %s clean -fdq" % TARGET)
        shutil.rmtree(os.path.join(VERIF, "evidence"))
        shutil.move(ev_backup, os.path.join(VERIF, "evidence"))
    assert sh("git -C %s status --porcelain" % TARGET).stdout.strip() == ""
    out = os.path.join(VERIF, "seeded", sid)
    os.makedirs(out, exist_ok=True)
    shutil.copy(patch, out)
    shutil.copy(demo, out)
    meta = {}
    mp = os.path.join(mdir, "meta.json")
    if os.path.exists(mp):
        meta = json.load(open(mp))
    meta["verified_by_us"] = res["confirmed"]
    meta["ran"] = ["tools/try_mutant.py %s" % " ".join(args)]
    meta["detected_by"] = {p: (v["rc"] == 1 and any(
        l.startswith("VIOLATION") for l in v["lines"]))
        for p, v in res["checks"].items()}
    meta["check_output"] = res["checks"]
    json.dump(meta, open(os.path.join(out, "meta.json"), "w"), indent=1)
    print(json.dumps({"confirmed": {k: v for k, v in res["confirmed"].items()
                                    if k != "demo_output_with"},
                      "detected_by": meta["detected_by"]}, indent=1))
    for p, v in res["checks"].items():
        for l in v["lines"][:3]:
            print("  ", p, l[:200])


if __name__ == "__main__":
    main()
