#!/bin/sh
# tests.sh <worktree>: the pinned suite, run against the package built from <worktree>
wt="$1"
b=$(mktemp -d /tmp/mutkit_build.XXXXXX)
trap 'rm -rf "$b"' EXIT
VERIF_REPO="$wt" /venv/bin/python "$(dirname "$0")/../../harness/build_pkg.py" "$b" >/dev/null 2>&1 || { echo "build failed"; exit 3; }
cd "$wt" && PYTHONDONTWRITEBYTECODE=1 PYTHONPATH="$b" /venv/bin/python -m pytest -q -p no:cacheprovider --timeout=900 --continue-on-collection-errors 2>&1 | tail -15
