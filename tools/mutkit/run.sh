#!/bin/sh
# run.sh <worktree> <demo.py>: run the demo against the package built from <worktree>
wt="$1"; demo="$2"
b=$(mktemp -d /tmp/mutkit_build.XXXXXX)
trap 'rm -rf "$b"' EXIT
VERIF_REPO="$wt" /venv/bin/python "$(dirname "$0")/../../harness/build_pkg.py" "$b" >/dev/null 2>&1 || { echo "build failed"; exit 3; }
cd "$b" && PYTHONDONTWRITEBYTECODE=1 PYTHONPATH="$b" timeout 600 /venv/bin/python "$demo"
