#!/bin/sh
# tools/soak.sh <seeds...>: every quick check under several seeds on the
# unchanged tree; prints one line per (seed, property) with exit code and time.
cd "$(dirname "$0")/.."
[ -x lean/.lake/build/bin/driver ] || ./setup.sh >/dev/null 2>&1
for seed in "$@"; do
  for p in C01 C02 C03 C04 C05 C06 C07 C08 C09 C10 C11 C12 C13 C14 C15 C16 C17 C18 C19; do
    s=$(date +%s)
    out=$(VERIF_SEED=$seed ./check $p 2>&1); rc=$?
    e=$(date +%s)
    echo "seed=$seed $p rc=$rc $((e-s))s $(echo "$out" | grep -c '^VIOLATION') violations"
    [ $rc -ne 0 ] && echo "$out" | grep -v '^KNOWN' | tail -5
  done
done
