#!/usr/bin/env python3
"""Regenerates seeded/INDEX.md from seeded/*/meta.json."""
import glob, json, os
V = os.path.dirname(os.path.dirname(os.path.abspath(__file__)))
rows = []
for f in sorted(glob.glob(os.path.join(V, "seeded", "*", "meta.json"))):
    m = json.load(open(f))
    sid = os.path.basename(os.path.dirname(f))
    det = m.get("detected_by", {})
    conf = m.get("verified_by_us", {})
    ok = all(conf.get(k) for k in ("applies", "suite_passes_with",
                                   "demo_fails_with", "demo_passes_without"))
    rows.append((sid, m.get("property", "?"), (m.get("summary") or "")[:110].replace("|", "/"),
                 ", ".join("%s:%s" % (p, "caught" if v else (
                     "MISSED" if p == m.get("property") else
                     "no alarm (named by the author under also_breaks)"))
                     for p, v in sorted(det.items())),
                 "yes" if ok else "NO"))
with open(os.path.join(V, "seeded", "INDEX.md"), "w") as fh:
    fh.write("| seeded change | property | what it does | checks (quick tier) | confirmed |\n|---|---|---|---|---|\n")
    for r in rows:
        fh.write("| %s | %s | %s | %s | %s |\n" % r)
print(open(os.path.join(V, "seeded", "INDEX.md")).read())
